"""Orchestration helpers shared by every check: build, TLC runs, verdicts, evidence.

Exit codes: 0 = property held on everything explored (KNOWN-FINDING lines allowed),
1 = VIOLATION (line printed, replay file written), 2 = tooling error / timeout.
"""
import hashlib
import json
import os
import re
import shutil
import tempfile
import subprocess
import sys
import time
from concurrent.futures import ThreadPoolExecutor

VERIF = os.path.dirname(os.path.dirname(os.path.abspath(__file__)))
SPEC = os.path.join(VERIF, "spec")
HARNESS = os.path.join(VERIF, "harness")
REPO = "/repo"
# Development aid only (never used by a registered command): VERIF_ALT_REPO=<copy of /repo with a trial change> builds the harness
# against that copy (cargo path override) into its own target directory and keeps work files, evidence and replays of the trial
# apart, so that a seeded change can be tried while checks of the real tree are running.
ALT_REPO = os.environ.get("VERIF_ALT_REPO")
_ALT = ("alt-" + hashlib.md5(ALT_REPO.encode()).hexdigest()[:8]) if ALT_REPO else None
WORK = os.path.join(VERIF, "work", _ALT) if _ALT else os.path.join(VERIF, "work")
EVID = os.path.join(WORK, "evidence") if _ALT else os.path.join(VERIF, "evidence")
REPLAYS = os.path.join(WORK, "replays") if _ALT else os.path.join(VERIF, "replays")
TLA_CP = "/opt/veriftools/tla/tla2tools.jar:/opt/veriftools/tla/CommunityModules-deps.jar"


class ToolError(Exception):
    pass


class CodeAborted(Exception):
    """The code under test ended the driver process by asking for a single allocation beyond 4 GiB (exit 4, harness/src/alloc.rs) in a
    driver without per-item restart.  Not a tool failure: the call produced neither a value nor an error.  bin/check reports it as a
    violation of the property being checked, with the job file as the replay."""
    def __init__(self, sub, job_path, size, item):
        super().__init__("driver %s: allocation request of %s bytes (item %s)" % (sub, size, item))
        self.sub, self.job_path, self.size, self.item = sub, job_path, size, item


def tier():
    return os.environ.get("VERIF_TIER", "quick")


def seed():
    try:
        return int(os.environ.get("VERIF_SEED", "1"))
    except ValueError:
        return 1


def log(*a):
    print(*a, flush=True)


def workdir(name):
    d = os.path.join(WORK, name)
    shutil.rmtree(d, ignore_errors=True)
    os.makedirs(d, exist_ok=True)
    return d


# ----------------------------------------------------------------------------- build
_built = set()


def build_harness(profile="release", crate=HARNESS):
    """Rebuilds the harness (and flac-codec from /repo's working tree, hooks on)."""
    key = (profile, crate)
    if key in _built:
        return binary(profile, crate)
    lock = os.path.join(crate, "Cargo.lock")
    if not os.path.exists(lock):
        shutil.copy(os.path.join(REPO, "Cargo.lock"), lock)
    cmd = ["cargo", "build", "--offline", "--profile", profile]
    if ALT_REPO:
        cmd += ["--config", 'paths=["%s"]' % ALT_REPO, "--target-dir", os.path.join(WORK, "target-" + os.path.basename(crate))]
    env = dict(os.environ, CARGO_NET_OFFLINE="true")
    t0 = time.time()
    p = subprocess.run(cmd, cwd=crate, env=env, capture_output=True, text=True)
    if p.returncode != 0:
        sys.stderr.write(p.stdout[-4000:] + p.stderr[-8000:])
        raise ToolError("harness build failed (profile %s)" % profile)
    _built.add(key)
    log("[build] %s profile=%s %.1fs" % (os.path.basename(crate), profile, time.time() - t0))
    return binary(profile, crate)


def _unused():
    pass


def binary(profile="release", crate=HARNESS, name="drive"):
    if ALT_REPO:
        return os.path.join(WORK, "target-" + os.path.basename(crate), profile, name)
    return os.path.join(crate, "target", profile, name)


def run_drive(sub, job, wd, profile="release", timeout=1800, crate=HARNESS, env=None, tag=None):
    """Writes the job file, runs `drive <sub> job.json`, returns parsed stdout JSON (last line)."""
    exe = build_harness(profile, crate)
    jp = os.path.join(wd, "job_%s_%s.json" % (sub, tag or hashlib.md5(json.dumps(job, sort_keys=True).encode()).hexdigest()[:8]))
    with open(jp, "w") as f:
        json.dump(job, f)
    e = dict(os.environ)
    e["VERIF_SEED"] = str(seed())
    if env:
        e.update(env)
    try:
        p = subprocess.run([exe, sub, jp], capture_output=True, text=True, timeout=timeout, env=e)
    except subprocess.TimeoutExpired:
        raise ToolError("driver %s timed out after %ss" % (sub, timeout))
    if p.returncode == 4:
        m = re.search(r"VERIF-OOM id=(\d+) size=(\d+)", p.stderr)
        if m:
            raise CodeAborted(sub, jp, int(m.group(2)), int(m.group(1)))
    if p.returncode != 0:
        sys.stderr.write(p.stdout[-2000:] + p.stderr[-4000:])
        raise ToolError("driver %s exited %s" % (sub, p.returncode))
    last = [ln for ln in p.stdout.strip().splitlines() if ln.startswith("{")]
    return json.loads(last[-1]) if last else {}


def run_drive_items(sub, job, wd, profile="release", tag=None, timeout=3000):
    """For drivers that feed untrusted inputs item by item (ids increasing in job order, `skip_upto` honoured): a single allocation
    request beyond 4 GiB ends the process on purpose (exit 4, "VERIF-OOM id= size=", see harness/src/alloc.rs).  That is DATA about
    the code under test, not a tool failure: the item is returned as an incident and the driver is restarted after it.
    Returns (trace paths, incidents = [(id, size)])."""
    exe = build_harness(profile)
    out = job["out"]
    jp = os.path.join(wd, "job_%s_%s.json" % (sub, tag or "x"))
    traces, incidents = [], []
    job = dict(job)
    while True:
        with open(jp, "w") as f:
            json.dump(job, f)
        e = dict(os.environ, VERIF_SEED=str(seed()))
        try:
            p = subprocess.run([exe, sub, jp], capture_output=True, text=True, timeout=timeout, env=e)
        except subprocess.TimeoutExpired:
            raise ToolError("driver %s timed out after %ss" % (sub, timeout))
        if p.returncode == 0:
            traces.append(out)
            return traces, incidents
        m = re.search(r"VERIF-OOM id=(\d+) size=(\d+)", p.stderr)
        if p.returncode == 4 and m:
            incidents.append((int(m.group(1)), int(m.group(2))))
            part = "%s.part%d" % (out, len(incidents))
            os.rename(out, part)
            traces.append(part)
            job["skip_upto"] = int(m.group(1))
            continue
        sys.stderr.write(p.stdout[-2000:] + p.stderr[-4000:])
        raise ToolError("driver %s exited %s" % (sub, p.returncode))


# ----------------------------------------------------------------------------- TLC
def _tlc_cmd(module, cfg, metadir, workers, extra):
    return ["java", "-XX:+UseParallelGC", "-XX:ParallelGCThreads=%d" % (2 if workers <= 2 else 8), "-Xss1g", "-cp", TLA_CP + ":" + SPEC + ":" + os.path.dirname(module),
            "tlc2.TLC", "-workers", str(workers), "-noGenerateSpecTE", "-metadir", metadir, "-cleanup",
            "-config", cfg] + extra + [module]


_STATS = re.compile(r"(\d+) states generated, (\d+) distinct states found")


def tlc(module, cfg, wd, workers=1, env=None, timeout=1800, extra=None, deque=False, xmx="4g"):
    """Runs TLC; returns dict(out, generated, distinct, errors)."""
    md = os.path.join(wd, "states_" + hashlib.md5((module + cfg + json.dumps(env or {}, sort_keys=True)).encode()).hexdigest()[:10])
    cmd = _tlc_cmd(module, cfg, md, workers, extra or [])
    cmd.insert(4, "-Xmx" + xmx)
    # TLC unpacks its standard modules into java.io.tmpdir on every start: keep that litter inside the work directory
    jt = tempfile.mkdtemp(prefix="jtmp", dir=wd)
    cmd.insert(4, "-Djava.io.tmpdir=" + jt)
    if deque:
        cmd.insert(4, "-Dtlc2.tool.queue.IStateQueue=StateDeque")
    e = dict(os.environ)
    e.pop("JAVA_TOOL_OPTIONS", None)
    if env:
        e.update(env)
    t0 = time.time()
    try:
        p = subprocess.run(cmd, capture_output=True, text=True, timeout=timeout, env=e, cwd=wd)
    except subprocess.TimeoutExpired:
        raise ToolError("TLC timed out after %ss on %s" % (timeout, os.path.basename(module)))
    finally:
        shutil.rmtree(md, ignore_errors=True)
        shutil.rmtree(jt, ignore_errors=True)
    out = p.stdout
    m = _STATS.findall(out)
    gen, dist = (int(m[-1][0]), int(m[-1][1])) if m else (0, 0)
    errors = [ln for ln in out.splitlines() if ln.startswith("Error:")]
    return dict(out=out, generated=gen, distinct=dist, errors=errors, rc=p.returncode, wall=time.time() - t0)


def tlc_model_check(module, cfg, wd, workers=4, timeout=1800, what=""):
    """A repo-independent model check: any failure is a tooling error (exit 2), never a violation."""
    r = tlc(module, cfg, wd, workers=workers, timeout=timeout)
    if r["errors"] or "Model checking completed. No error has been found." not in r["out"]:
        sys.stderr.write(r["out"][-6000:])
        raise ToolError("model check failed: %s %s" % (os.path.basename(module), what))
    return r


def expect_model_violation(module, cfg, wd, workers=1, timeout=600, what=""):
    """Non-vacuity: the same model with a defect re-enabled MUST fail."""
    r = tlc(module, cfg, wd, workers=workers, timeout=timeout)
    if not any("is violated" in e for e in r["errors"]):
        sys.stderr.write(r["out"][-4000:])
        raise ToolError("non-vacuity check: expected a violation (%s)" % what)
    return r


_TUPLE = re.compile(r'^<<"(GEN|REJECT|REPLAY|NOTE|DRIFT|TRACE-DONE|TRACE-INCOMPLETE|STAT)"')


def tlc_tuples(out):
    """All tuples TLC printed (PrintT), with multi-line pretty-printing undone: one string per tuple."""
    res = []
    cur = None
    depth = 0
    for ln in out.splitlines():
        st = ln.strip()
        if cur is None:
            if not st.startswith("<<"):
                continue
            cur = []
            depth = 0
        cur.append(st)
        # bracket depth outside string literals
        i = 0
        instr = False
        while i < len(st):
            c = st[i]
            if instr:
                if c == "\\":
                    i += 1
                elif c == '"':
                    instr = False
            else:
                if c == '"':
                    instr = True
                elif st.startswith("<<", i):
                    depth += 1
                    i += 1
                elif st.startswith(">>", i):
                    depth -= 1
                    i += 1
            i += 1
        if depth <= 0:
            joined = " ".join(cur)
            joined = re.sub(r"<< ", "<<", joined)
            joined = re.sub(r" >>", ">>", joined)
            res.append(joined)
            cur = None
    return res


def tlc_lines(out, tag):
    """TLC prints tuples as <<"TAG", ...>> (possibly wrapped over several lines); returns them one per string."""
    pre = '<<"%s"' % tag
    return [t for t in tlc_tuples(out) if t.startswith(pre)]


def parse_tlc_string(tok):
    """Un-escapes a TLA+ string literal body as printed by TLC."""
    return tok.replace('\\"', '"').replace("\\\\", "\\")


_GEN = re.compile(r'^<<"GEN", "(.*)">>$')


def gen_payloads(out):
    res = []
    for ln in tlc_lines(out, "GEN"):
        m = _GEN.match(ln)
        if m:
            res.append(json.loads(parse_tlc_string(m.group(1))))
    return res


def tlc_trace(trace_spec, cfg, trace_path, wd, timeout=1800, env=None, xmx="6g"):
    """Validates one ndjson trace. Returns dict(done, rejects=[raw line,...], generated, out)."""
    e = {"TRACE": trace_path}
    if env:
        e.update(env)
    r = tlc(trace_spec, cfg, wd, workers=1, env=e, timeout=timeout, deque=True, xmx=xmx)
    done = bool(tlc_lines(r["out"], "TRACE-DONE"))
    hard = [x for x in r["errors"] if "postcondition" not in x.lower()]
    if not done or hard:
        sys.stderr.write(r["out"][-6000:])
        raise ToolError("trace validation did not run to the end of %s (%s)" % (trace_path, hard[:1]))
    r["rejects"] = tlc_lines(r["out"], "REJECT")
    r["drifts"] = tlc_lines(r["out"], "DRIFT")
    return r


def parallel(fn, items, n=8):
    with ThreadPoolExecutor(max_workers=n) as ex:
        return list(ex.map(fn, items))


# ----------------------------------------------------------------------------- findings / verdicts
def load_known():
    p = os.path.join(VERIF, "known_findings.json")
    if not os.path.exists(p):
        return {"open": [], "fixed": []}
    with open(p) as f:
        return json.load(f)


class Verdict:
    """Collects violations for one property, matches them against known findings."""

    def __init__(self, pid):
        self.pid = pid
        self.violations = []  # (signature, description, replay payload)
        self.known_hits = {}
        self.notes = []
        self.drift = []
        self.known = [k for k in load_known().get("open", []) if k["property"] == pid]
        os.makedirs(REPLAYS, exist_ok=True)
        for f in os.listdir(REPLAYS):
            if f.startswith(pid + "-"):
                os.remove(os.path.join(REPLAYS, f))

    def violation(self, signature, description, replay):
        """signature: stable string identifying input/call site/history class."""
        for k in self.known:
            if re.search(k["match"], signature):
                self.known_hits.setdefault(k["id"], (k, 0))
                kk, n = self.known_hits[k["id"]]
                self.known_hits[k["id"]] = (kk, n + 1)
                return
        self.violations.append((signature, description, replay))

    def note(self, s):
        self.notes.append(s)

    def finish(self):
        for kid, (k, n) in sorted(self.known_hits.items()):
            log("KNOWN-FINDING: property=%s %s (%d occurrence(s) this run)" % (self.pid, k["what"], n))
        os.makedirs(REPLAYS, exist_ok=True)
        seen = set()
        for sig, desc, replay in self.violations:
            h = hashlib.md5(sig.encode()).hexdigest()[:10]
            path = os.path.join(REPLAYS, "%s-%s.json" % (self.pid, h))
            if h not in seen:
                with open(path, "w") as f:
                    json.dump({"property": self.pid, "signature": sig, "description": desc, "replay": replay,
                               "seed": seed(), "tier": tier()}, f, indent=1)
                log("VIOLATION property=%s replay=%s" % (self.pid, path))
                log("  " + desc[:600])
                seen.add(h)
        return 1 if self.violations else 0


def write_evidence(pid, level, coverage, wall, violations, assumptions=None):
    os.makedirs(EVID, exist_ok=True)
    ev = {
        "property_id": pid,
        "tier": tier() if tier() in ("quick", "thorough") else "quick",
        "seed": seed(),
        "level": level,
        "coverage": coverage,
        "assumptions": assumptions or [],
        "wall_s": round(wall, 2),
        "violations": violations,
    }
    with open(os.path.join(EVID, pid + ".json"), "w") as f:
        json.dump(ev, f, indent=1)


def write_text(path, text):
    with open(path, "w") as f:
        f.write(text)
    return path


def tla_seq(xs):
    return "<<" + ", ".join(tla_val(x) for x in xs) + ">>"


def tla_set(xs):
    return "{" + ", ".join(tla_val(x) for x in xs) + "}"


def tla_val(x):
    if isinstance(x, bool):
        return "TRUE" if x else "FALSE"
    if isinstance(x, int):
        return str(x)
    if isinstance(x, str):
        return '"%s"' % x
    if isinstance(x, (list, tuple)):
        return tla_seq(x)
    if isinstance(x, (set, frozenset)):
        return tla_set(sorted(x, key=repr))
    raise TypeError(x)


def read_ndjson(path):
    with open(path) as f:
        return [json.loads(ln) for ln in f if ln.strip()]


def tlaps_proof(wd, module, needs, theorem):
    """Runs the TLA+ proof system on spec/<module>.tla (copied with the modules it extends into a scratch directory).  A statement about
    the specification alone: failure is a tool error, never a violation."""
    import shutil
    pd = os.path.join(wd, "tlaps_" + module)
    shutil.rmtree(pd, ignore_errors=True)
    os.makedirs(pd)
    for m in list(needs) + [module]:
        shutil.copy(os.path.join(SPEC, m + ".tla"), pd)
    try:
        p = subprocess.run(["tlapm", "--nofp", "--threads", "4", module + ".tla"], cwd=pd, capture_output=True, text=True, timeout=900)
    except (subprocess.TimeoutExpired, FileNotFoundError) as e:
        raise ToolError("tlapm did not finish: %s" % e)
    m = re.search(r"All (\d+) obligations proved", p.stdout + p.stderr)
    if not m:
        sys.stderr.write((p.stdout + p.stderr)[-2000:])
        raise ToolError("%s.tla: unproved obligations" % module)
    return {"module": module, "theorem": theorem, "obligations_proved": int(m.group(1)), "engine": "tlapm (SMT, PTL)"}
