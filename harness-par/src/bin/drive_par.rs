//! C18: the same encoder jobs through the rayon build under a pool of N threads with seeded
//! schedule perturbation; records output digests and the observed task schedule.
use serde_json::{Value, json};
use vharness::*;

fn main() {
    install_panic_hook();
    let args: Vec<String> = std::env::args().collect();
    let job: Value = serde_json::from_str(&std::fs::read_to_string(&args[2]).expect("job")).expect("json");
    let mut t = Trace::create(job["out"].as_str().unwrap());
    let threads = job["threads"].as_u64().unwrap_or(1) as usize;
    let pool = rayon::ThreadPoolBuilder::new().num_threads(threads).build().expect("pool");
    let mut runs = 0;
    for j in job["jobs"].as_array().unwrap() {
        for rep in 0..job["reps"].as_u64().unwrap_or(1) {
            runs += 1;
            let perturb = job["perturb"].as_u64().unwrap_or(0);
            flac_codec::verif::set_perturb(if perturb == 0 { 0 } else { perturb.wrapping_mul(rep + 1).wrapping_add(runs as u64) | 1 });
            let mut scratch = Trace::create("/dev/null");
            let mut events = vec![];
            let res = pool.install(|| {
                // run_writer installs / takes the sink itself; task events are collected by wrapping it
                vharness::par::encode_with_tasks(j, &mut scratch, runs, &mut events)
            });
            flac_codec::verif::set_perturb(0);
            let sched: Vec<Value> = events.iter().map(|(s, kind, key, th)| json!([*s as i64, kind, (*key % 1_000_003) as i64, *th as i64])).collect();
            t.emit(json!({"ev": "par", "job": j["job_id"], "threads": threads as i64, "rep": rep as i64,
                "ok": res.is_some(), "len": res.as_ref().map(|b| b.len() as i64).unwrap_or(-1),
                "md5": res.as_ref().map(|b| vharness::writers::md5_hex(b)).unwrap_or_default(), "sched": sched}));
        }
    }
    let lines = t.finish();
    println!("{}", json!({"runs": runs, "events": lines}));
}
