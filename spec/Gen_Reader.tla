--------------------------- MODULE Gen_Reader ---------------------------
(***************************************************************************)
(* Behaviour generator for the spec -> impl direction of C06 / C07.        *)
(* Breadth-first exploration of ReaderImpl with the operation history as   *)
(* an extra variable hidden by VIEW: TLC visits every distinct             *)
(* (state, last operation, last result) once, by a shortest path, and      *)
(* prints that path.  With EmitEdges as CONSTRAINT every generated         *)
(* transition (edge of the state graph) is printed instead.                *)
(***************************************************************************)
EXTENDS ReaderImpl, Json

VARIABLE hist
gvars == <<s, out, hist>>

GInit == Init /\ hist = <<>>
GNext == \E o \in Ops :
            /\ Enabled(s, o)
            /\ LET r == Step(s, o) IN s' = r.st /\ out' = [op |-> o, res |-> r.out]
            /\ hist' = Append(hist, o)
GSpec == GInit /\ [][GNext]_gvars
View == <<s, out>>
EmitStates == hist = <<>> \/ PrintT(<<"GEN", ToJson(hist)>>)
=======================================================================
