--------------------------- MODULE Codec ---------------------------
(***************************************************************************)
(* (A) C01: the codec as a lossless store.  `written` is everything handed *)
(* to a writer; after Finalize every reader front-end must hand back       *)
(* exactly WholeFrames(written), once, in order, with the same stream      *)
(* parameters.  Any other outcome (an error, a panic, different data) has  *)
(* no action.                                                              *)
(***************************************************************************)
EXTENDS Integers, Sequences

CONSTANTS Channels, Samples        \* alphabet for the model-checking configuration
VARIABLES written, closed, readback
vars == <<written, closed, readback>>

WholeFrames(s) == SubSeq(s, 1, Len(s) - (Len(s) % Channels))

Init == written = <<>> /\ closed = FALSE /\ readback = <<>>
Write(chunk) == ~closed /\ written' = written \o chunk /\ UNCHANGED <<closed, readback>>
FinalizeOK == ~closed /\ Len(WholeFrames(written)) > 0
Finalize == FinalizeOK /\ closed' = TRUE /\ UNCHANGED <<written, readback>>
\* the only read-back step: the data is exactly what was written
ReadBackOK(data) == closed /\ data = WholeFrames(written)
ReadBack(data) == ReadBackOK(data) /\ readback' = data /\ UNCHANGED <<written, closed>>

Next == (\E v \in Samples : Write(<<v>>)) \/ Finalize \/ ReadBack(WholeFrames(written))
Spec == Init /\ [][Next]_vars
Lossless == readback # <<>> => readback = WholeFrames(written)
=======================================================================
