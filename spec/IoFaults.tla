--------------------------- MODULE IoFaults ---------------------------
(***************************************************************************)
(* C13: success is only reported when the output really reached the        *)
(* underlying stream.                                                      *)
(*                                                                         *)
(* (A) level: the environment is an underlying stream whose n-th call      *)
(* fails (permanently, once, with a short count, or with Interrupted).     *)
(* Return(r) is the only way an operation ends:                            *)
(*      r = "ok"   =>  delivered = reference (every byte of the complete   *)
(*                     result is in the underlying stream)                 *)
(*      r = "panic"    has no action.                                      *)
(*      a failed read that was not retried => r = "err".                   *)
(*                                                                         *)
(* (B) level: a library routine that writes Total bytes in chunks through  *)
(* a std::io::BufWriter of capacity Cap and then either flushes (errors    *)
(* propagate) or just drops it (errors are swallowed by Drop) - the shape  *)
(* of update_file's in-place branch.  With "drop_without_flush" in Defects *)
(* (the pinned tree) TLC finds Return(ok) with bytes missing.              *)
(***************************************************************************)
EXTENDS Integers, Sequences, TLC

CONSTANTS Total, Cap, Chunks, MaxFail, Defects

VARIABLES todo,        \* bytes the routine still has to hand to the BufWriter
          pending,     \* bytes sitting in the BufWriter
          delivered,   \* bytes that reached the underlying stream
          calls,       \* underlying calls so far
          failAt,      \* the call that fails (0 = none), permanent from then on
          result       \* "run" | "ok" | "err"
vars == <<todo, pending, delivered, calls, failAt, result>>

Init == /\ todo = Total /\ pending = 0 /\ delivered = 0 /\ calls = 0
        /\ failAt \in 0..MaxFail /\ result = "run"

Fails(c) == failAt # 0 /\ c >= failAt

(* BufWriter::write(n): buffer if it fits, else flush the buffer first; a  *)
(* chunk at least as large as the capacity is written through              *)
Write(n) ==
    /\ result = "run" /\ todo >= n /\ n > 0
    /\ IF pending + n <= Cap /\ n < Cap
       THEN pending' = pending + n /\ todo' = todo - n /\ UNCHANGED <<delivered, calls, result>>
       ELSE \* flush_buf (one underlying call if anything is pending) ...
            LET c1 == IF pending > 0 THEN calls + 1 ELSE calls IN
            IF pending > 0 /\ Fails(c1)
            THEN result' = "err" /\ calls' = c1 /\ UNCHANGED <<todo, pending, delivered>>
            ELSE IF n >= Cap
                 THEN \* ... then the big chunk goes straight through
                      IF Fails(c1 + 1)
                      THEN /\ result' = "err" /\ calls' = c1 + 1 /\ delivered' = delivered + pending
                           /\ pending' = 0 /\ UNCHANGED todo
                      ELSE /\ delivered' = delivered + pending + n /\ pending' = 0 /\ calls' = c1 + 1
                           /\ todo' = todo - n /\ UNCHANGED result
                 ELSE /\ delivered' = delivered + pending /\ pending' = n /\ calls' = c1
                      /\ todo' = todo - n /\ UNCHANGED result
    /\ UNCHANGED failAt

(* end of the routine                                                       *)
Finish ==
    /\ result = "run" /\ todo = 0
    /\ UNCHANGED <<todo, failAt>>
    /\ IF "drop_without_flush" \in Defects
       THEN \* returns Ok, then Drop flushes and swallows any error
            /\ result' = "ok"
            /\ IF pending > 0 /\ Fails(calls + 1)
               THEN UNCHANGED <<delivered, pending>> /\ calls' = calls + 1
               ELSE delivered' = delivered + pending /\ pending' = 0 /\ calls' = IF pending > 0 THEN calls + 1 ELSE calls
       ELSE \* explicit flush: BufWriter::flush = flush_buf + underlying flush
            LET c1 == IF pending > 0 THEN calls + 1 ELSE calls IN
            IF pending > 0 /\ Fails(c1)
            THEN result' = "err" /\ calls' = c1 /\ UNCHANGED <<delivered, pending>>
            ELSE IF Fails(c1 + 1)
                 THEN result' = "err" /\ calls' = c1 + 1 /\ delivered' = delivered + pending /\ pending' = 0
                 ELSE result' = "ok" /\ calls' = c1 + 1 /\ delivered' = delivered + pending /\ pending' = 0

Next == (\E n \in Chunks : Write(n)) \/ Finish
Spec == Init /\ [][Next]_vars

(* C13 *)
SuccessMeansDelivered == result = "ok" => delivered = Total
NothingInvented == delivered <= Total
=======================================================================
