--------------------------- MODULE Trace_Writer ---------------------------
(***************************************************************************)
(* Trace validation of real writer runs (C08, C09, C15).                   *)
(* A run = new, write*, finalize, file.  The monitor accumulates the run   *)
(* and judges it at the "file" event with the (A)-level statements of      *)
(* Writer.tla (composition independence, length contract) and Encoder.tla  *)
(* (truthful STREAMINFO / SEEKTABLE, neutral header rewrite); the file     *)
(* description was parsed by the harness' own parser, not by the crate.    *)
(* PROP (environment) selects the rule family.  Rule failures are printed  *)
(* as REJECT with the rule name; (B)-level disagreements as DRIFT.         *)
(***************************************************************************)
EXTENDS Integers, Sequences, FiniteSets, TLC, Json, IOUtils

Rec == ndJsonDeserialize(IOEnv.TRACE)
Prop == IOEnv.PROP

M == INSTANCE MD5

VARIABLES l, cur, groups
tvars == <<l, cur, groups>>

HL(p) == p[1] * 16777216 + p[2]            \* [hi, lo] pairs (values used here stay below 2^31)
Has(r, k) == k \in DOMAIN r
\* werr: some write was refused; wunexp: a write was refused although it did not pass a declared total (nothing entitles a writer to that)
NoRun == [new |-> [ret |-> "none"], units |-> 0, werr |-> FALSE, wunexp |-> FALSE, wpanic |-> FALSE, fin |-> [ret |-> "none"]]

Min2(a, b) == IF a < b THEN a ELSE b
RECURSIVE Canon(_, _)
Canon(f, bs) == IF f = 0 THEN <<>> ELSE IF f <= bs THEN <<f>> ELSE <<bs>> \o Canon(f - bs, bs)

\* two's complement little-endian bytes: TLA+ \div floors and % is non-negative, so this is
\* correct for negative samples at every width without special cases
SampleBytes(v, w) == [k \in 1..w |-> (v \div (2^(8 * (k - 1)))) % 256]
PcmBytes(pcm, w) == LET RECURSIVE G(_, _)
                        G(i, acc) == IF i > Len(pcm) THEN acc ELSE G(i + 1, acc \o SampleBytes(pcm[i], w))
                    IN G(1, <<>>)
Hex(bs) == LET d == <<"0","1","2","3","4","5","6","7","8","9","a","b","c","d","e","f">>
               RECURSIVE H(_, _)
               H(i, acc) == IF i > Len(bs) THEN acc ELSE H(i + 1, acc \o d[(bs[i] \div 16) + 1] \o d[(bs[i] % 16) + 1])
           IN H(1, "")

-----------------------------------------------------------------------------
(* the facts of one finished run                                            *)
Frames(f) ==      \* [first, off, len, bytes] per encoded frame, from the EncodeBegin hook
    LET n == Len(f.enc)
        endb == HL(f.fin.bytes)
    IN [i \in 1..n |-> [first |-> HL(f.enc[i][1]), len |-> f.enc[i][2], off |-> HL(f.enc[i][3]),
                        bytes |-> (IF i < n THEN HL(f.enc[i + 1][3]) ELSE endb) - HL(f.enc[i][3])]]

Point(p) == [first |-> HL(p[1]), off |-> HL(p[2]), len |-> p[3]]
FrameAsPoint(fr) == [first |-> fr.first, off |-> fr.off, len |-> fr.len]

MinOf(S) == CHOOSE x \in S : \A y \in S : x <= y
MaxOf(S) == CHOOSE x \in S : \A y \in S : x >= y

DeclaredFrames(new) ==      \* declared total in PCM frames, -1 if none (unit conversion as documented)
    IF new.declared = <<>> THEN -1
    ELSE IF new.declared[1] >= 100 THEN 2147483647      \* astronomically large: beyond anything written
    ELSE HL(new.declared) \div new.upf

\* ---- C08
KeyOf(r, f) == <<r.new.pcm_id, r.new.opts_id, r.new.rate, r.new.bps, r.new.channels,
                 DeclaredFrames(r.new) # -1, f.whole_frames>>
C08Rules(r, f) ==
    LET whole == f.whole_frames
        decl  == DeclaredFrames(r.new)
        key   == KeyOf(r, f)
    IN << <<"C08.no-panic", r.fin.ret # "panic" /\ ~r.wpanic>>,
          <<"C08.finalize-succeeds", (r.new.ret = "ok" /\ whole >= 1 /\ ~r.werr /\ ~r.wpanic /\ (decl = -1 \/ decl = whole))
                                        => r.fin.ret = "ok">>,
          <<"C08.same-bytes", (r.fin.ret = "ok" /\ key \in DOMAIN groups) => groups[key] = <<f.len - r.new.start, f.md5s>> >>,
          <<"C08.prefix-untouched", f.prefix_intact>>,
          \* the path-taking constructors (create + overwrite over an existing longer file) are front ends like the others
          <<"C08.path-front-end-same-bytes", Has(f, "path_same") => f.path_same>> >>
C08Drift(r, f) ==
    r.fin.ret = "ok" => [i \in 1..Len(f.enc) |-> f.enc[i][2]] = Canon(f.whole_frames, r.new.bs)

\* ---- C09
C09Rules(r, f) ==
    IF r.fin.ret # "ok" THEN << <<"C09.no-panic", r.fin.ret # "panic">> >>
    \* a finished file the harness' own parser cannot read: nothing else can be evaluated on it
    ELSE IF f.desc.parse # "ok" \/ ~Has(f.desc, "si") THEN << <<"C09.parse", FALSE>> >>
    ELSE IF f.light      \* very long runs: frame list not logged, only the cheap statements
    THEN << <<"C09.parse", f.desc.parse = "ok" /\ Has(f.desc, "si")>>,
            <<"C09.total", HL(f.desc.si.total) = f.whole_frames>>,
            <<"C09.md5", f.desc.si.md5 = f.pcm_md5>>,
            <<"C09.rewrite-neutral", /\ f.fs_before = f.desc.frames_start /\ f.audio_prefix_intact /\ f.prefix_intact
                                     /\ f.len = f.desc.frames_start + HL(f.fin.bytes)>>,
            <<"C09.finished-file-can-be-walked", ~Has(f, "regen_failed")>>,
            \* a sparse table over a very long run is short enough to compare point by point
            <<"C09.regenerates", (Has(f, "regen") /\ ~Has(f, "regen_failed") /\ Has(f.desc, "seektable") /\ Len(f.desc.seektable) <= 20000) =>
                  SelectSeq(f.desc.seektable, LAMBDA p : p # <<>>) = f.regen>> >>
    ELSE
    LET d == f.desc
        fr == Frames(f)
        n == Len(fr)
        sizes == {fr[i].bytes : i \in 1..n}
        tb == IF Has(d, "seektable") THEN d.seektable ELSE <<>>
        def == {k \in 1..Len(tb) : tb[k] # <<>>}
        AllDef == SelectSeq(tb, LAMBDA p : p # <<>>)
    IN << <<"C09.parse", d.parse = "ok" /\ Has(d, "si")>>,
          <<"C09.total", HL(d.si.total) = f.whole_frames /\ f.whole_frames = (IF n = 0 THEN 0 ELSE fr[n].first + fr[n].len)>>,
          <<"C09.params", d.si.rate = r.new.rate /\ d.si.channels = r.new.channels /\ d.si.bps = r.new.bps>>,
          <<"C09.frame-size-extrema", n > 0 /\ d.si.min_fs = MinOf(sizes) /\ d.si.max_fs = MaxOf(sizes)>>,
          <<"C09.block-size", /\ d.si.min_bs = d.si.max_bs
                              /\ \A i \in 1..(n - 1) : fr[i].len = d.si.max_bs
                              /\ fr[n].len <= d.si.max_bs>>,
          <<"C09.md5", d.si.md5 = f.pcm_md5>>,
          <<"C09.md5-by-spec", Has(f, "pcm") => d.si.md5 = Hex(M!Digest(PcmBytes(f.pcm, (r.new.bps + 7) \div 8)))>>,
          <<"C09.points-are-frames", \A k \in def : \E i \in 1..n : Point(tb[k]) = FrameAsPoint(fr[i])>>,
          <<"C09.points-ascending", \A j, k \in 1..Len(tb) :
                (j < k /\ k \in def) => (j \in def /\ HL(tb[j][1]) < HL(tb[k][1]))>>,
          <<"C09.table-size", Has(d, "seektable_rem") => d.seektable_rem = 0>>,
          <<"C09.rewrite-neutral", /\ f.fs_before = d.frames_start
                                   /\ f.audio_prefix_intact /\ f.prefix_intact
                                   /\ f.len = d.frames_start + HL(f.fin.bytes)>>,
          <<"C09.finished-file-can-be-walked", ~Has(f, "regen_failed")>>,
          <<"C09.regenerates", (Has(f, "regen") /\ ~Has(f, "regen_failed") /\ Has(d, "seektable")) =>
                LET rg == f.regen IN
                /\ Len(rg) >= 0          \* (a string here = generate_seektable failed: comparison error is a tooling error)
                \* the same defined points: none missing at the end, none extra
                /\ AllDef = rg>> >>

\* ---- C15
\* WriterApi: the documented parameter ranges (constructor docs and Options setters)
Opt(o, k, dflt) == IF k \in DOMAIN o THEN o[k] ELSE dflt
ValidOpts(o) ==
    /\ Opt(o, "block_size", 4096) \in 16..65535
    /\ Opt(o, "max_lpc", 8) \in {-1} \cup (1..32)         \* -1 = None
    /\ Opt(o, "max_po", 5) \in 0..15
    /\ Opt(o, "padding", 4096) \in -1..16777215            \* -1 = no padding
ValidTotal(new) ==
    \/ new.declared = <<>>
    \/ (new.declared[1] = 0 /\ new.declared[2] > 0 /\ new.declared[2] % new.upf = 0)
    \/ (new.declared[1] > 0 /\ new.declared[1] <= 4095 /\ new.upf = 1)
ValidParams(new) ==
    /\ new.rate >= 0 /\ new.rate < 1048576
    /\ new.bps >= 1 /\ new.bps <= 32
    /\ new.channels >= 1 /\ new.channels <= 8
    /\ ValidOpts(new.opts)
    /\ ValidTotal(new)
\* the total recorded in the finished file, -1 when the file cannot be parsed (so that the rule fails instead of TLC)
TotalIn(f) == IF "desc" \in DOMAIN f /\ f.desc.parse = "ok" /\ Has(f.desc, "si") THEN HL(f.desc.si.total) ELSE -1
C15Rules(r, f) ==
    LET decl == DeclaredFrames(r.new)
        whole == f.whole_frames
        anyerr == r.werr \/ r.fin.ret = "err"
    IN << <<"C15.new-no-panic", r.new.ret # "panic">>,
          <<"C15.valid-accepted", ValidParams(r.new) => r.new.ret = "ok">>,
          <<"C15.no-panic", r.fin.ret # "panic" /\ ~r.wpanic>>,
          <<"C15.valid-works", (ValidParams(r.new) /\ r.new.ret = "ok" /\ whole >= 1 /\ ~r.werr /\ ~r.wpanic /\ (decl = -1 \/ decl = whole))
                                  => (r.fin.ret = "ok" /\ Has(f, "roundtrip") /\ f.roundtrip = "ok")>>,
          \* a writer made from documented values takes what it is given as long as a declared total is not passed
          <<"C15.valid-writes-accepted", (ValidParams(r.new) /\ r.new.ret = "ok") => ~r.wunexp>>,
          <<"C15.overfill-reported", (r.new.ret = "ok" /\ decl > 0 /\ whole > decl) => anyerr>>,
          <<"C15.underfill-reported", (r.new.ret = "ok" /\ decl > 0 /\ whole < decl /\ ~r.wpanic) => r.fin.ret = "err">>,
          \* the same in the front end's own unit (bytes, samples): whatever total a constructor took, finishing with fewer units than it is an error
          <<"C15.underfill-reported-in-units", (r.new.ret = "ok" /\ r.new.declared # <<>> /\ r.new.declared[1] < 100 /\ HL(r.new.declared) > 0
                                                /\ r.units < HL(r.new.declared) /\ ~r.wpanic) => r.fin.ret = "err">>,
          <<"C15.exact-ok", (r.new.ret = "ok" /\ decl > 0 /\ whole = decl /\ ~r.werr /\ ~r.wpanic) =>
                               (r.fin.ret = "ok" /\ TotalIn(f) = decl)>>,
          <<"C15.count-recorded", (r.new.ret = "ok" /\ decl = -1 /\ whole >= 1 /\ r.fin.ret = "ok") =>
                               TotalIn(f) = whole>> >>

Rules(r, f) == CASE Prop = "C08" -> C08Rules(r, f)
                 [] Prop = "C09" -> C09Rules(r, f)
                 [] Prop = "C15" -> C15Rules(r, f)

Judge(r, f) ==
    LET rs == Rules(r, f)
        bad == {i \in 1..Len(rs) : ~rs[i][2]}
    IN /\ \A i \in bad : PrintT(<<"REJECT", r.new.run, l, rs[i][1]>>)
       /\ IF Prop = "C08" /\ ~C08Drift(r, f)
          THEN PrintT(<<"DRIFT", r.new.run, l, "encode lengths are not the canonical blocking">>) ELSE TRUE

Init == l = 1 /\ cur = NoRun /\ groups = <<>>

Next ==
    /\ l <= Len(Rec)
    /\ l' = l + 1
    /\ LET e == Rec[l] IN
       CASE e.ev = "new" ->
              /\ cur' = [NoRun EXCEPT !.new = e]
              /\ UNCHANGED groups
              \* a run that ends at "new" (constructor refused / panicked) is judged right away
              /\ IF e.ret # "ok" /\ Prop = "C15"
                 THEN \A i \in {1, 2} : LET rs == C15Rules([NoRun EXCEPT !.new = e], [whole_frames |-> 0]) IN
                                        IF rs[i][2] THEN TRUE ELSE PrintT(<<"REJECT", e.run, l, rs[i][1]>>)
                 ELSE TRUE
         [] e.ev = "write" ->
              /\ cur' = [cur EXCEPT !.units = @ + (IF e.ret = "ok" THEN e.n ELSE 0), !.werr = @ \/ e.ret = "err",
                                     !.wunexp = @ \/ (e.ret = "err" /\ ~cur.werr
                                                      /\ (cur.new.declared = <<>> \/ cur.new.declared[1] >= 100          \* (declared beyond 2^30: never reached here)
                                                          \/ cur.units + e.n <= HL(cur.new.declared)))]
              /\ UNCHANGED groups
         [] e.ev = "panic" -> cur' = [cur EXCEPT !.wpanic = TRUE] /\ UNCHANGED groups
         [] e.ev = "finalize" -> cur' = [cur EXCEPT !.fin = e] /\ UNCHANGED groups
         [] e.ev = "file" ->
              LET f == [e EXCEPT !.md5 = e.md5] @@ [md5s |-> e.md5]
                  key == KeyOf(cur, f)
              IN /\ Judge(cur, f)
                 /\ groups' = IF Prop = "C08" /\ cur.fin.ret = "ok" /\ key \notin DOMAIN groups
                              THEN groups @@ (key :> <<e.len - cur.new.start, e.md5>>) ELSE groups
                 /\ cur' = NoRun
         [] OTHER -> UNCHANGED <<cur, groups>>

Spec == Init /\ [][Next]_tvars
Post == IF TLCGet("stats").diameter - 1 = Len(Rec) THEN PrintT(<<"TRACE-DONE", Len(Rec)>>)
        ELSE PrintT(<<"TRACE-INCOMPLETE", TLCGet("stats").diameter, Len(Rec)>>)
=======================================================================
