--------------------------- MODULE ReaderAbs ---------------------------
(***************************************************************************)
(* (A)-level specification of every FLAC reader front-end (C06, C07).      *)
(*                                                                         *)
(* The only state the properties talk about: `pos`, the position (in the   *)
(* front-end's unit: bytes / interleaved samples / PCM frames) of the next *)
(* unit owed to the caller, and `eos`, whether end-of-stream was           *)
(* signalled by the last call.  No buffer, no frame granularity, no seek   *)
(* table: the property must survive refactoring of the code.               *)
(*                                                                         *)
(* `total` (stream length in units, what the file really holds) and        *)
(* `known` (whether STREAMINFO declares it) are configuration: variables   *)
(* that never change, so that one trace can hold runs over many files.     *)
(*                                                                         *)
(* `Unknown` is the position after a FAILED seek: the property only says   *)
(* that no stale or misplaced data may follow, so the next observation     *)
(* reveals where the reader really is and from then on delivery is         *)
(* contiguous again (weakest reading; see DESIGN.md C06).                  *)
(*                                                                         *)
(* Every action is written as  pos' \in <Action>Succ(pos, args)  so that   *)
(* the trace specification can run the same operators over the set of      *)
(* positions consistent with the observations so far.                      *)
(***************************************************************************)
EXTENDS Integers

Unknown == -1

VARIABLES pos, eos, total, known
avars == <<pos, eos, total, known>>
Config == UNCHANGED <<total, known>>

TypeOK == pos \in (0..total) \cup {Unknown} /\ eos \in BOOLEAN /\ total \in Nat /\ known \in BOOLEAN

(* A call returned `len` units which occur in the decoded PCM at every     *)
(* position in the set `at` (computed from the returned data; usually a    *)
(* singleton).  Result: the positions the reader can consistently be at    *)
(* afterwards; empty = the observation has no explanation.                 *)
DeliverSucc(p, at, len) ==
    IF len <= 0 THEN {}
    ELSE IF p = Unknown THEN {q + len : q \in {x \in at : x + len <= total}}
    ELSE IF p \in at /\ p + len <= total THEN {p + len} ELSE {}
Deliver(at, len) == pos' \in DeliverSucc(pos, at, len) /\ eos' = FALSE /\ Config

(* fill_buf-style peek: data is exposed but not consumed                   *)
PeekSucc(p, at, len) ==
    IF len <= 0 THEN {}
    ELSE IF p = Unknown THEN {x \in at : x + len <= total}
    ELSE IF p \in at /\ p + len <= total THEN {p} ELSE {}
Peek(at, len) == pos' \in PeekSucc(pos, at, len) /\ eos' = FALSE /\ Config

(* consume(k): after a failed seek the position stays unspecified          *)
ConsumeSucc(p, k) ==
    IF k < 0 THEN {} ELSE IF p = Unknown THEN {Unknown}
    ELSE IF p + k <= total THEN {p + k} ELSE {}
Consume(k) == pos' \in ConsumeSucc(pos, k) /\ UNCHANGED eos /\ Config

(* End of stream may only be signalled at the very end: never early.       *)
EosSucc(p) == IF p = Unknown \/ p = total THEN {total} ELSE {}
Eos == pos' \in EosSucc(pos) /\ eos' = TRUE /\ Config

(* Seek request resolved to the absolute target t (may be negative or      *)
(* beyond the end).  ret is the returned position for the byte reader, or  *)
(* t itself for readers that return nothing.                               *)
SeekValid(t) == 0 <= t /\ t <= total
SeekOkSucc(p, t, ret) == IF SeekValid(t) /\ ret = t THEN {t} ELSE {}
SeekOk(t, ret) == pos' \in SeekOkSucc(pos, t, ret) /\ eos' = FALSE /\ Config
\* a failing seek is only allowed for an invalid target, or for an
\* end-relative request when the reader cannot know the length
SeekErrSucc(p, t, endRelative) ==
    IF ~SeekValid(t) \/ (endRelative /\ ~known) THEN {Unknown} ELSE {}
SeekErr(t, endRelative) == pos' \in SeekErrSucc(pos, t, endRelative) /\ eos' = FALSE /\ Config

(* Tell (Current(0) on the byte reader): must report the position          *)
TellSucc(p, q) == IF 0 <= q /\ q <= total /\ (p # Unknown => q = p) THEN {q} ELSE {}
Tell(q) == pos' \in TellSucc(pos, q) /\ UNCHANGED eos /\ Config

AInit(T, K) == pos = 0 /\ eos = FALSE /\ total = T /\ known = K

ANext ==
    \/ \E at \in SUBSET (0..total), len \in 1..total : Deliver(at, len) \/ Peek(at, len)
    \/ \E k \in 0..total : Consume(k)
    \/ Eos
    \/ \E t \in -1..(total + 1) : SeekOk(t, t) \/ SeekErr(t, FALSE) \/ SeekErr(t, TRUE)
    \/ \E q \in 0..total : Tell(q)

(* The listed properties, as properties of this specification              *)
\* C06/C07: the position never leaves the stream
InRange == pos = Unknown \/ (0 <= pos /\ pos <= total)
\* end of stream is only signalled at the end
EosOnlyAtEnd == eos => pos = total
\* C07: once end-of-stream is signalled the position is the end, and at the
\* end no Deliver / Peek is enabled for any data: a further read-type call
\* can only be explained by Eos again (idempotent end-of-stream).
NoDataAtEnd == pos = total => \A len \in 1..total :
                   DeliverSucc(pos, {pos}, len) = {} /\ PeekSucc(pos, {pos}, len) = {}
\* C07 exactly-once, in-order: a delivery from a known position starts
\* exactly there (no gap, no repeat) - by construction of DeliverSucc:
ContiguousLemma == \A p \in 0..total, len \in 1..total : \A at \in {{p}, {p, 0}} :
                      DeliverSucc(p, at, len) \subseteq {p + len}
=======================================================================
