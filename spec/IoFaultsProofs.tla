--------------------------- MODULE IoFaultsProofs ---------------------------
(***************************************************************************)
(* Unbounded safety of the buffered-writer model of C13, checked by the    *)
(* TLA+ proof system: for EVERY total, buffer capacity, set of chunk sizes *)
(* and failing call, the repaired routine (explicit flush) reports success *)
(* only when every byte has reached the underlying stream.  TLC explores   *)
(* IoFaults only for Total <= 12.                                          *)
(***************************************************************************)
EXTENDS IoFaults, TLAPS

ASSUME Params == /\ Total \in Nat /\ Cap \in Nat /\ MaxFail \in Nat
                 /\ Chunks \subseteq Nat
                 /\ "drop_without_flush" \notin Defects

Inv == /\ todo \in Nat /\ pending \in Nat /\ delivered \in Nat /\ calls \in Nat
       /\ failAt \in 0..MaxFail
       /\ result \in {"run", "ok", "err"}
       /\ todo + pending + delivered = Total
       /\ result = "ok" => (todo = 0 /\ pending = 0)

LEMMA InitInv == Init => Inv
  BY Params DEF Init, Inv

LEMMA NextInv == Inv /\ [Next]_vars => Inv'
<1> SUFFICES ASSUME Inv, [Next]_vars PROVE Inv'
  OBVIOUS
<1>1. CASE UNCHANGED vars
  BY <1>1 DEF Inv, vars
<1>2. ASSUME NEW n \in Chunks, Write(n) PROVE Inv'
  <2> n \in Nat
    BY Params
  <2> QED
    BY <1>2, Params DEF Inv, Write, Fails
<1>3. CASE Finish
  BY <1>3, Params DEF Inv, Finish, Fails
<1> QED
  BY <1>1, <1>2, <1>3 DEF Next

THEOREM Safety == Spec => []SuccessMeansDelivered
<1>1. Inv => SuccessMeansDelivered
  BY DEF Inv, SuccessMeansDelivered
<1>2. Spec => []Inv
  BY InitInv, NextInv, PTL DEF Spec
<1> QED
  BY <1>1, <1>2, PTL
=======================================================================
