--------------------------- MODULE Writer ---------------------------
(***************************************************************************)
(* Writer front-ends (src/encode.rs): FlacByteWriter / FlacSampleWriter /  *)
(* FlacChannelWriter over one Encoder.                                     *)
(*                                                                         *)
(* (A) level (C08, C15): the stream is a function of WholeFrames(input)    *)
(*     and the options only - not of how the input was split into write    *)
(*     calls; a trailing partial PCM frame is dropped; the declared-length *)
(*     contract.                                                           *)
(* (B) level: carry-over buffer, whole-block draining, MD5 feeding,        *)
(*     Encoder::encode's sample accounting, finalize's tail handling.      *)
(*                                                                         *)
(* Units: the front-end's unit (byte / interleaved sample / PCM frame);    *)
(* UPF = units per PCM frame; BS = block size in PCM frames.               *)
(* TLC explores ALL compositions of the input into write calls up to       *)
(* MaxUnits units (every split point).                                     *)
(***************************************************************************)
EXTENDS Integers, Sequences, TLC

CONSTANTS UPF, BS, MaxUnits, WriteSizes,
          Declared,     \* -1 = no total declared, else total in PCM frames (> 0)
          Defects       \* {"tail_zero_frame"} re-enables the pinned tree's finalize panic

VARIABLES carry,      \* units buffered in the front-end
          total,      \* units handed to write() so far (history)
          encoded,    \* sequence of frame lengths (PCM frames) given to Encoder::encode
          md5fed,     \* units fed to the running MD5
          written,    \* Encoder.samples_written
          status      \* "open" | "failed" (a write returned Err) | "ok" | "err" | "panic"
vars == <<carry, total, encoded, md5fed, written, status>>

Init == carry = 0 /\ total = 0 /\ encoded = <<>> /\ md5fed = 0 /\ written = 0 /\ status = "open"

(* Encoder::encode(len): push seek point, add to samples_written, refuse    *)
(* when more than the declared total has been written                       *)
EncodeOK(len) == Declared = -1 \/ written + len <= Declared

RECURSIVE Drain(_, _, _, _)
\* drain whole blocks out of the carry: returns [carry, enc, fed, wr, ok]
Drain(c, enc, fed, wr) ==
    IF c < BS * UPF THEN [carry |-> c, enc |-> enc, fed |-> fed, wr |-> wr, ok |-> TRUE]
    ELSE IF Declared # -1 /\ wr + BS > Declared
         \* MD5 was fed and the seek point pushed before encode() refuses
         THEN [carry |-> c, enc |-> enc, fed |-> fed + BS * UPF, wr |-> wr + BS, ok |-> FALSE]
         ELSE Drain(c - BS * UPF, Append(enc, BS), fed + BS * UPF, wr + BS)

Write(n) ==
    /\ status = "open"
    /\ total + n <= MaxUnits
    /\ LET d == Drain(carry + n, encoded, md5fed, written) IN
       /\ carry' = d.carry /\ encoded' = d.enc /\ md5fed' = d.fed /\ written' = d.wr
       /\ status' = IF d.ok THEN "open" ELSE "failed"
    /\ total' = total + n

(* finalize: truncate the carry to whole PCM frames, encode the tail (if     *)
(* any), then Encoder::finalize_inner checks / records the sample count      *)
Finalize ==
    /\ status \in {"open", "failed"}
    /\ LET tail == carry - (carry % UPF)          \* units in whole PCM frames
           tf   == tail \div UPF
       IN
       IF carry > 0 /\ tf = 0 /\ "tail_zero_frame" \in Defects
       THEN status' = "panic" /\ UNCHANGED <<carry, encoded, md5fed, written>>
       ELSE IF tf > 0 /\ ~EncodeOK(tf)
       THEN /\ status' = "err" /\ md5fed' = md5fed + tail /\ written' = written + tf
            /\ UNCHANGED <<carry, encoded>>
       ELSE LET wr == written + tf IN
            /\ encoded' = IF tf > 0 THEN Append(encoded, tf) ELSE encoded
            /\ md5fed' = md5fed + tail
            /\ written' = wr
            /\ carry' = carry
            /\ status' = IF Declared # -1 THEN (IF wr = Declared THEN "ok" ELSE "err")
                         ELSE (IF wr > 0 THEN "ok" ELSE "err")     \* NoSamples
    /\ UNCHANGED total

Next == (\E n \in WriteSizes : Write(n)) \/ Finalize
Spec == Init /\ [][Next]_vars

-----------------------------------------------------------------------------
(* (A)-level statements                                                     *)
Whole == total \div UPF                     \* whole PCM frames handed in
RECURSIVE Canon(_)
Canon(f) == IF f = 0 THEN <<>> ELSE IF f <= BS THEN <<f>> ELSE <<BS>> \o Canon(f - BS)

\* C08: on success the frame structure and the MD5 input depend on the content only
Deterministic ==
    status = "ok" => /\ encoded = Canon(Whole)
                     /\ md5fed = Whole * UPF
                     /\ written = Whole
\* C08: a trailing partial PCM frame never causes a panic
NoPanic == status # "panic"
\* C08/C15: with no declared total, any input holding at least one whole PCM frame finalizes
UndeclaredSucceeds == (status \in {"ok", "err"} /\ Declared = -1 /\ Whole >= 1) => status = "ok"
\* C15: the declared-length contract
LengthContract ==
    (status \in {"ok", "err"} /\ Declared # -1) =>
        /\ (Whole = Declared => status = "ok")
        /\ (Whole # Declared => status = "err")
\* C15: writing more than declared is reported no later than finalize (and once a write
\* has failed the writer never reports success)
OverfillReported == (Declared # -1 /\ Whole > Declared) => status \in {"open", "failed", "err"}
\* while writing, every drained block is a full block and the carry is short of a block
Draining == status = "open" => /\ carry < BS * UPF
                               /\ \A i \in 1..Len(encoded) : encoded[i] = BS
                               /\ md5fed = Len(encoded) * BS * UPF
                               /\ carry + md5fed = total
=======================================================================
