--------------------------- MODULE MetaUpdate ---------------------------
(***************************************************************************)
(* metadata::update_file (src/metadata/mod.rs): read blocks (old size      *)
(* measured while reading), apply the caller's edit, validate + measure    *)
(* the new size by a dry-run serialisation, then                           *)
(*    equal   -> overwrite in place                                        *)
(*    smaller -> grow the FIRST padding block by the difference, else      *)
(*               rebuild                                                   *)
(*    larger  -> shrink the FIRST padding block by the difference, else    *)
(*               rebuild.                                                  *)
(*                                                                         *)
(* The file is <<blocks, audio>>; a block is [k |-> kind, n |-> body size].*)
(* (A)-level statements of C10 are the invariants at the bottom; they do   *)
(* not say WHEN the update is in place, only what each outcome guarantees. *)
(***************************************************************************)
EXTENDS Integers, Sequences, FiniteSets, TLC

CONSTANTS InitFiles,      \* set of initial block sequences
          Edits,          \* set of edit records
          MaxEdits,       \* history bound
          MaxBlock        \* 2^24 - 1

VARIABLES blocks,         \* the original file's block list
          outcome,        \* result of the last update: [res, len, blocks, rebuilt]
          nedits
vars == <<blocks, outcome, nedits>>

Size(bs) == 4 + (LET RECURSIVE S(_) S(i) == IF i > Len(bs) THEN 0 ELSE 4 + bs[i].n + S(i + 1) IN S(1))
Count(bs, k) == Cardinality({i \in 1..Len(bs) : bs[i].k = k})
Valid(bs) == /\ Len(bs) >= 1 /\ bs[1].k = "si" /\ Count(bs, "si") = 1
             /\ Count(bs, "vc") <= 1 /\ Count(bs, "icon") <= 1
             /\ \A i \in 1..Len(bs) : bs[i].n <= MaxBlock
FirstOf(bs, k) == IF Count(bs, k) = 0 THEN 0 ELSE CHOOSE i \in 1..Len(bs) : bs[i].k = k /\ \A j \in 1..(i - 1) : bs[j].k # k
Without(bs, k) == SelectSeq(bs, LAMBDA b : b.k # k)

(* the caller's edits, as the BlockList API performs them                   *)
Apply(e, bs) ==
    CASE e.op = "add_app"  -> Append(bs, [k |-> "app", n |-> e.n])            \* insert(): MULTIPLE block, pushed at the end
      [] e.op = "rm_app"   -> Without(bs, "app")
      [] e.op = "set_vc"   -> IF FirstOf(bs, "vc") = 0 THEN Append(bs, [k |-> "vc", n |-> e.n])
                              ELSE [bs EXCEPT ![FirstOf(bs, "vc")].n = e.n]
      [] e.op = "rm_vc"    -> Without(bs, "vc")
      [] e.op = "set_pad"  -> IF FirstOf(bs, "pad") = 0 THEN Append(bs, [k |-> "pad", n |-> e.n])
                              ELSE [bs EXCEPT ![FirstOf(bs, "pad")].n = e.n]       \* update::<Padding>: first instance
      [] e.op = "rm_pad"   -> Without(bs, "pad")
      [] e.op = "add_pad"  -> Append(bs, [k |-> "pad", n |-> e.n])
      [] e.op = "add_icon" -> Append(bs, [k |-> "icon", n |-> e.n])               \* Picture is MULTIPLE; two PNG icons are invalid
      [] OTHER -> bs                    \* "fail": the callback returns Err; "edit_si": STREAMINFO alone is edited (no size changes)

InPlace(ed)  == [res |-> "inplace", blocks |-> ed]
Rebuilt(ed)  == [res |-> "rebuilt", blocks |-> ed]
Failed       == [res |-> "err", blocks |-> blocks]

Update(e) ==
    LET old == Size(blocks)
        ed  == Apply(e, blocks)
    IN IF e.op = "fail" \/ ~Valid(ed) THEN Failed
       ELSE LET new == Size(ed)
                fp  == FirstOf(ed, "pad")
            IN CASE new = old -> InPlace(ed)
                 [] new < old -> IF fp # 0 /\ ed[fp].n + (old - new) <= MaxBlock
                                 THEN InPlace([ed EXCEPT ![fp].n = @ + (old - new)])
                                 ELSE Rebuilt(ed)
                 [] new > old -> IF fp # 0 /\ ed[fp].n >= new - old
                                 THEN InPlace([ed EXCEPT ![fp].n = @ - (new - old)])
                                 ELSE Rebuilt(ed)

Init == blocks \in InitFiles /\ outcome = [res |-> "init", blocks |-> <<>>] /\ nedits = 0

Next == /\ nedits < MaxEdits
        /\ \E e \in Edits :
             LET o == Update(e) IN
             /\ outcome' = o @@ [edit |-> e, old |-> blocks]
             \* the next edit works on the file as it now is (the rebuilt file replaces the original)
             /\ blocks' = IF o.res = "err" THEN blocks ELSE o.blocks
             /\ nedits' = nedits + 1
Spec == Init /\ [][Next]_vars

-----------------------------------------------------------------------------
(* C10                                                                      *)
EditedExceptFirstPad(newbs, ed) ==
    /\ Len(newbs) = Len(ed)
    /\ \A i \in 1..Len(ed) : newbs[i].k = ed[i].k /\ (i # FirstOf(ed, "pad") => newbs[i].n = ed[i].n)
SizeNeutral ==
    outcome.res = "inplace" =>
        /\ Size(outcome.blocks) = Size(outcome.old)
        /\ EditedExceptFirstPad(outcome.blocks, Apply(outcome.edit, outcome.old))
RebuildExact == outcome.res = "rebuilt" => outcome.blocks = Apply(outcome.edit, outcome.old)
FailureIsClean == outcome.res = "err" => blocks = outcome.old
AlwaysValid == outcome.res \in {"inplace", "rebuilt"} => Valid(outcome.blocks)
=======================================================================
