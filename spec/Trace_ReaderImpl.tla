--------------------------- MODULE Trace_ReaderImpl ---------------------------
(***************************************************************************)
(* (B)-level binding: the recorded runs are replayed through ReaderImpl's  *)
(* Step function and the hook-exposed state (current_sample, buffered /    *)
(* consumed, decoder frame length) and the shape of every result are       *)
(* compared.  A mismatch means the MODEL no longer mirrors the code: it is *)
(* printed as DRIFT (a note for the maintainer of /verif), never a         *)
(* violation - verdicts come from Trace_Reader / ReaderAbs only.           *)
(***************************************************************************)
EXTENDS ReaderImpl, Json, IOUtils

Rec == ndJsonDeserialize(IOEnv.TRACE)

VARIABLES l, skp, nsteps, saved
tvars == <<l, s, out, skp, nsteps, saved>>

ToSet(sq) == {sq[i] : i \in 1..Len(sq)}

OutMatches(e, o) ==
    CASE e.ev \in {"read", "fill"} /\ e.ret = "data" ->
            o.kind \in {"data", "peek"} /\ o.len = e.len /\ o.lo \in ToSet(e.at)
      [] e.ev \in {"read", "fill"} /\ e.ret = "eos" -> o.kind = "eos"
      [] e.ev = "consume" -> o.kind = "consume"
      [] e.ev = "seek" /\ e.ret = "ok" -> o.kind = "seekok" /\ ("rp" \in DOMAIN e => e.rp = o.ret)
      [] e.ev = "seek" /\ e.ret = "err" -> o.kind = "seekerr"
      [] e.ev = "tell" -> o.kind = "tell" /\ o.p = e.p
      [] OTHER -> FALSE

StMatches(e, st) ==
    "st" \in DOMAIN e =>
        /\ e.st[1] = st.cur
        /\ e.st[2] = (IF FrontEnd = "channel" THEN st.consumed ELSE st.bhi - st.blo)
        /\ e.st[3] = st.dhi - st.dlo

TInit == l = 1 /\ Init /\ skp = TRUE /\ nsteps = 0 /\ saved = [s |-> Init0, skp |-> TRUE]

TNext ==
    /\ l <= Len(Rec)
    /\ l' = l + 1
    /\ LET e == Rec[l] IN
       IF e.ev = "open" THEN s' = Init0 /\ skp' = FALSE /\ UNCHANGED <<out, nsteps, saved>>
       ELSE IF e.ev = "push" THEN saved' = [s |-> s, skp |-> skp] /\ UNCHANGED <<s, out, skp, nsteps>>
       ELSE IF e.ev = "pop" THEN s' = saved.s /\ skp' = saved.skp /\ UNCHANGED <<out, nsteps, saved>>
       ELSE IF skp THEN UNCHANGED <<s, out, skp, nsteps, saved>>
       ELSE IF "op" \notin DOMAIN e THEN skp' = TRUE /\ UNCHANGED <<s, out, nsteps, saved>>
       ELSE IF e.ev = "skip"
            THEN /\ (IF Enabled(s, e.op) THEN PrintT(<<"DRIFT", l, "harness skipped an operation the model enables", ToJson(e)>>) ELSE TRUE)
                 /\ UNCHANGED <<s, out, skp, nsteps, saved>>
       ELSE IF ~Enabled(s, e.op)
            THEN /\ PrintT(<<"DRIFT", l, "operation not enabled in the model", ToJson(e), s>>)
                 /\ skp' = TRUE /\ UNCHANGED <<s, out, nsteps, saved>>
       ELSE LET r == Step(s, e.op) IN
            IF OutMatches(e, r.out) /\ StMatches(e, r.st)
            THEN s' = r.st /\ out' = [op |-> e.op, res |-> r.out] /\ nsteps' = nsteps + 1 /\ UNCHANGED <<skp, saved>>
            ELSE /\ PrintT(<<"DRIFT", l, ToJson(e), "model", r.out, r.st>>)
                 /\ skp' = TRUE /\ UNCHANGED <<s, out, nsteps, saved>>

TSpec == TInit /\ [][TNext]_tvars
Post == IF TLCGet("stats").diameter - 1 = Len(Rec) THEN PrintT(<<"TRACE-DONE", Len(Rec)>>)
        ELSE PrintT(<<"TRACE-INCOMPLETE", TLCGet("stats").diameter, Len(Rec)>>)
=======================================================================
