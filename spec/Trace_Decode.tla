--------------------------- MODULE Trace_Decode ---------------------------
(***************************************************************************)
(* Judging what the decoding entry points returned for byte strings made   *)
(* by the format model (C03, C04) - the (A)-level Decoder contract:        *)
(*   a call ends in data or an error; "panic" / "timeout" have no action;  *)
(*   on a VALID stream (valid by construction, self-checked by FlacFormat) *)
(*   every reader returns exactly the samples the format defines, and      *)
(*   verification reports MD5 agreement truthfully;                        *)
(*   peak allocation is bounded by 16 MiB + 64 x input length.             *)
(***************************************************************************)
EXTENDS Integers, Sequences, TLC, Json, IOUtils
Rec == ndJsonDeserialize(IOEnv.TRACE)
Prop == IOEnv.PROP
VARIABLES l, item
tvars == <<l, item>>
Has(r, k) == k \in DOMAIN r
Readers == {"byte-le", "byte-be", "byte-wave", "sample", "iter", "channel", "path"}     \* "path": the readers opened by file name; "byte-wave": a caller-defined byte order
Rej(rule, e) == PrintT(<<"REJECT", item.id, l, rule, e.api>>)

Expected(m) == CASE m = "good" -> "MD5Match" [] m = "bad" -> "MD5Mismatch" [] OTHER -> "NoMD5"
C03Rules(e) ==
    /\ IF e.api \in Readers /\ (e.ret # "ok" \/ ~e.eq) THEN Rej("C03.decodes-valid-stream-exactly", e) ELSE TRUE
    /\ IF e.api \in Readers /\ e.ret = "ok" /\ Has(e, "data") /\ Has(item, "pcm") /\ e.data # item.pcm
       THEN Rej("C03.decodes-valid-stream-exactly", e) ELSE TRUE
    /\ IF e.api = "verify" /\ (e.ret # "ok" \/ e.msg # Expected(item.md5mode)) THEN Rej("C03.md5-verdict", e) ELSE TRUE
    /\ IF e.api = "stream" /\ item.subset /\ (e.ret # "ok" \/ ~e.eq) THEN Rej("C03.stream-reader-decodes-subset-frames", e) ELSE TRUE
    /\ IF e.api \in {"frameiter", "seektable"} /\ e.ret # "ok" THEN Rej("C03.frame-parser-accepts-valid-stream", e) ELSE TRUE
\* Growth beyond the listed properties (non-gating, "growth." rules): the frame iterator's absolute offsets and block sizes, and the
\* regenerated every-frame seek table (sample number, offset relative to the first frame, block size), against the layout the format
\* model derived for the same valid stream: item.layout[i] = <<absolute offset, first sample, block size>>
GrowthRules(e) ==
    /\ IF e.api = "frameiter" /\ e.ret = "ok" /\ Has(e, "layout") /\ e.layout # [i \in 1..Len(item.layout) |-> <<item.layout[i][1], item.layout[i][3]>>]
       THEN Rej("growth.frameiter-offsets-are-the-frame-starts", e) ELSE TRUE
    /\ IF e.api = "seektable" /\ e.ret = "ok" /\ Has(e, "layout")
          /\ e.layout # [i \in 1..Len(item.layout) |-> <<item.layout[i][2], item.layout[i][1] - item.metaLen, item.layout[i][3]>>]
       THEN Rej("growth.regenerated-seek-points-are-the-frames", e) ELSE TRUE
C04Rules(e) ==
    /\ IF e.ret \notin {"ok", "err"} THEN Rej("C04.no-panic", e) ELSE TRUE
    /\ IF e.peak_kib > 16384 + (64 * e.input_len) \div 1024 THEN Rej("C04.bounded-allocation", e) ELSE TRUE

Init == l = 1 /\ item = [id |-> 0]
Next == /\ l <= Len(Rec) /\ l' = l + 1
        /\ LET e == Rec[l] IN
           IF e.ev = "item" THEN item' = e
           ELSE IF e.ev = "dec"
           THEN /\ UNCHANGED item
                /\ IF Prop = "C03" /\ item.valid THEN C03Rules(e) ELSE TRUE
                /\ IF Prop = "C03" /\ item.valid /\ Has(item, "layout") THEN GrowthRules(e) ELSE TRUE
                /\ IF Prop \in {"C03", "C04"} THEN C04Rules(e) ELSE TRUE
           ELSE UNCHANGED item
Spec == Init /\ [][Next]_tvars
Post == IF TLCGet("stats").diameter - 1 = Len(Rec) THEN PrintT(<<"TRACE-DONE", Len(Rec)>>)
        ELSE PrintT(<<"TRACE-INCOMPLETE", TLCGet("stats").diameter, Len(Rec)>>)
=======================================================================
