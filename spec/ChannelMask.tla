--------------------------- MODULE ChannelMask ---------------------------
(***************************************************************************)
(* Growth beyond the listed properties: the channel mask                   *)
(* (WAVEFORMATEXTENSIBLE_CHANNEL_MASK in a VORBIS_COMMENT block).          *)
(*   text form      "0x" followed by hexadecimal digits of either case     *)
(*                  whose value fits 32 bits (leading zeros are allowed);  *)
(*   Display        "0x" + at least four lower-case hex digits;            *)
(*   channels()     the 18 speaker positions of the WAVE format in bit     *)
(*                  order, those whose bit is set; higher bits are ignored;*)
(*   default masks  for 1..8 channels the masks of FLAC's fixed channel    *)
(*                  assignments as the reference tools spell them          *)
(*                  (4, 3, 7, 0x33, 0x607, 0x60f, 0x70f, 0x63f);           *)
(*   Metadata::channel_mask()  the comment's mask when its value is a      *)
(*                  well-formed text, else the default for the channel     *)
(*                  count.                                                 *)
(* Masks are kept below 2^31 (TLC integers); texts are sequences of        *)
(* one-character strings over a small alphabet that TLC enumerates.        *)
(* Named deviation of the crate: Rust's from_str_radix accepts one leading *)
(* "+" sign, so "0x+3f" parses (PlusAccepted).                             *)
(***************************************************************************)
EXTENDS Integers, Sequences, Bitwise, TLC, Json

CONSTANTS Alphabet, MaxLen, Masks, PlusAccepted

Names == <<"FrontLeft", "FrontRight", "FrontCenter", "Lfe", "BackLeft", "BackRight", "FrontLeftOfCenter", "FrontRightOfCenter",
           "BackCenter", "SideLeft", "SideRight", "TopCenter", "TopFrontLeft", "TopFrontCenter", "TopFrontRight",
           "TopRearLeft", "TopRearCenter", "TopRearRight">>
ChannelsOf(m) == LET idx == SelectSeq([i \in 1..18 |-> i], LAMBDA i : (m & (2 ^ (i - 1))) # 0) IN [j \in 1..Len(idx) |-> Names[idx[j]]]
DefaultMask(n) == <<4, 3, 7, 51, 1543, 1551, 1807, 1599>>[n]

HexDigits == <<"0", "1", "2", "3", "4", "5", "6", "7", "8", "9", "a", "b", "c", "d", "e", "f">>
UpperOf == [c \in {"a", "b", "c", "d", "e", "f"} |-> CASE c = "a" -> "A" [] c = "b" -> "B" [] c = "c" -> "C" [] c = "d" -> "D" [] c = "e" -> "E" [] OTHER -> "F"]
DigitVal(c) == IF \E i \in 1..16 : HexDigits[i] = c THEN (CHOOSE i \in 1..16 : HexDigits[i] = c) - 1
               ELSE IF \E l \in DOMAIN UpperOf : UpperOf[l] = c THEN 9 + (CHOOSE i \in 1..6 : UpperOf[HexDigits[10 + i]] = c)
               ELSE -1
RECURSIVE HexVal(_, _)
HexVal(s, acc) == IF s = <<>> THEN acc ELSE HexVal(Tail(s), acc * 16 + DigitVal(Head(s)))
RECURSIVE Strip(_)
Strip(s) == IF s # <<>> /\ Head(s) = "0" THEN Strip(Tail(s)) ELSE s
\* -1 = not a mask
Parse(s) == IF Len(s) < 3 \/ s[1] # "0" \/ s[2] # "x" THEN -1
            ELSE LET body == SubSeq(s, 3, Len(s))
                     digits == IF PlusAccepted /\ body[1] = "+" THEN Tail(body) ELSE body IN
                 IF digits = <<>> \/ \E i \in 1..Len(digits) : DigitVal(digits[i]) < 0 THEN -1
                 ELSE LET sig == Strip(digits) IN
                      IF Len(sig) > 8 \/ (Len(sig) = 8 /\ DigitVal(sig[1]) > 7) THEN -2      \* beyond this model's integers: not judged
                      ELSE HexVal(sig, 0)
RECURSIVE HexOf(_)
HexOf(m) == IF m < 16 THEN <<HexDigits[m + 1]>> ELSE Append(HexOf(m \div 16), HexDigits[(m % 16) + 1])
Display(m) == LET h == HexOf(m) IN <<"0", "x">> \o [i \in 1..(IF Len(h) < 4 THEN 4 - Len(h) ELSE 0) |-> "0"] \o h
Effective(text, channels) == IF Parse(text) >= 0 THEN Parse(text) ELSE DefaultMask(channels)

Texts == UNION {[1..n -> Alphabet] : n \in 0..MaxLen}

(* laws *)
RoundTrip == \A m \in Masks : Parse(Display(m)) = m
DefaultsHaveTheirChannelCount == \A n \in 1..8 : Len(ChannelsOf(DefaultMask(n))) = n
ChannelsAscending == \A m \in Masks : LET c == ChannelsOf(m) IN
                        \A i \in 1..(Len(c) - 1) : (CHOOSE k \in 1..18 : Names[k] = c[i]) < (CHOOSE k \in 1..18 : Names[k] = c[i + 1])
CaseInsensitiveDigits == \A m \in Masks : LET d == Display(m) IN
                        Parse([i \in 1..Len(d) |-> IF i > 2 /\ d[i] \in DOMAIN UpperOf THEN UpperOf[d[i]] ELSE d[i]]) = m

(* generator: every text over the alphabet, every mask, what the crate must answer *)
VARIABLE x
Init == x = 0
Next == x' = x
Cases == [texts |-> [t \in Texts |-> Parse(t)]]
=======================================================================
