--------------------------- MODULE Trace_Sniff ---------------------------
(* Growth (non-gating): every observed Picture::new call against PictureSniff.  *)
EXTENDS PictureSniff, Json, IOUtils
Rec == ndJsonDeserialize(IOEnv.TRACE)
VARIABLE l
Init == l = 1
Next == /\ l <= Len(Rec) /\ l' = l + 1
        /\ LET e == Rec[l] IN
           IF e.ev = "sniff" /\ ~Agrees(e.bytes, e)
           THEN PrintT(<<"REJECT", e.id, l, "growth.sniff", Sniff(e.bytes).kind, e.class>>)
           ELSE IF e.ev = "sniff" /\ FillDeviation(e.bytes, e) THEN PrintT(<<"NOTE", e.id, l, "jpeg-fill-bytes-refused">>) ELSE TRUE
Spec == Init /\ [][Next]_l
Post == IF TLCGet("stats").diameter - 1 = Len(Rec) THEN PrintT(<<"TRACE-DONE", Len(Rec)>>)
        ELSE PrintT(<<"TRACE-INCOMPLETE", TLCGet("stats").diameter, Len(Rec)>>)
=======================================================================
