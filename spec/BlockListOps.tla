--------------------------- MODULE BlockListOps ---------------------------
(***************************************************************************)
(* Growth beyond the listed properties: the editing interface of BlockList *)
(* (insert / remove / extract / sort_by / get / get_all / get_pair_mut).   *)
(* The list holds the optional blocks in file order (STREAMINFO is kept    *)
(* apart and always first).  Kinds in Multi may occur several times        *)
(* (PADDING, APPLICATION, PICTURE, CUESHEET - the format limits only the   *)
(* two below): insert appends.  SEEKTABLE and VORBIS_COMMENT occur at most *)
(* once: insert                                                             *)
(* replaces the existing block IN PLACE and hands back the old one, else   *)
(* appends.  remove deletes every block of the kind; extract does the same *)
(* and returns them in order; sort_by is a STABLE sort by a key on kinds.  *)
(* A block is <<kind, tag>>; tags tell instances apart.                    *)
(***************************************************************************)
EXTENDS Integers, Sequences, TLC, Json

CONSTANTS Kinds, Multi, Orders, MaxOps     \* Orders: a set of key functions [Kinds -> Nat]

VARIABLES list, hist, tag
vars == <<list, hist, tag>>

FirstAt(l, k) == IF \E i \in 1..Len(l) : l[i][1] = k THEN CHOOSE i \in 1..Len(l) : l[i][1] = k /\ \A j \in 1..(i - 1) : l[j][1] # k ELSE 0
Get(l, k) == IF FirstAt(l, k) = 0 THEN 0 ELSE l[FirstAt(l, k)][2]           \* tag of the first block of the kind, 0 = none
GetAll(l, k) == LET s == SelectSeq(l, LAMBDA b : b[1] = k) IN [i \in 1..Len(s) |-> s[i][2]]
Without(l, k) == SelectSeq(l, LAMBDA b : b[1] # k)
\* stable insertion sort by key
RECURSIVE InsertSorted(_, _, _)
InsertSorted(s, b, key) == IF s = <<>> THEN <<b>>
                           ELSE IF key[s[Len(s)][1]] <= key[b[1]] THEN Append(s, b)
                           ELSE Append(InsertSorted(SubSeq(s, 1, Len(s) - 1), b, key), s[Len(s)])
RECURSIVE StableSort(_, _)
StableSort(l, key) == IF l = <<>> THEN <<>> ELSE InsertSorted(StableSort(SubSeq(l, 1, Len(l) - 1), key), l[Len(l)], key)

\* [list, ret]: ret = tag handed back by insert (0 = none) / tags returned by extract
Apply(l, o) ==
    CASE o.op = "insert" ->
           IF o.k \in Multi \/ FirstAt(l, o.k) = 0 THEN [list |-> Append(l, <<o.k, o.t>>), ret |-> <<>>]
           ELSE [list |-> [l EXCEPT ![FirstAt(l, o.k)] = <<o.k, o.t>>], ret |-> <<Get(l, o.k)>>]
      [] o.op = "remove" -> [list |-> Without(l, o.k), ret |-> <<>>]
      [] o.op = "extract" -> [list |-> Without(l, o.k), ret |-> GetAll(l, o.k)]
      [] o.op = "sort" -> [list |-> StableSort(l, o.key), ret |-> <<>>]

Ops(t) == {[op |-> "insert", k |-> k, t |-> t] : k \in Kinds}
          \cup {[op |-> "remove", k |-> k] : k \in Kinds}
          \cup {[op |-> "extract", k |-> k] : k \in Kinds}
          \cup {[op |-> "sort", key |-> key] : key \in Orders}
Init == list = <<>> /\ hist = <<>> /\ tag = 1
Next == /\ Len(hist) < MaxOps
        /\ \E o \in Ops(tag) : /\ list' = Apply(list, o).list
                               /\ tag' = tag + 1
                               /\ hist' = Append(hist, [op |-> o])
Spec == Init /\ [][Next]_vars
View == <<list, Len(hist)>>
Emit == hist = <<>> \/ PrintT(<<"GEN", ToJson(hist)>>)

(* laws *)
SingleKindsStaySingle == \A k \in Kinds \ Multi : Len(GetAll(list, k)) <= 1
InsertThenGet == \A k \in Kinds : LET a == Apply(list, [op |-> "insert", k |-> k, t |-> 99]).list IN
                    IF k \in Multi THEN GetAll(a, k) = Append(GetAll(list, k), 99) ELSE GetAll(a, k) = <<99>>
InsertKeepsOthersInPlace == \A k, j \in Kinds : j # k =>
                    GetAll(Apply(list, [op |-> "insert", k |-> k, t |-> 99]).list, j) = GetAll(list, j)
ReplaceKeepsPosition == \A k \in Kinds \ Multi : FirstAt(list, k) # 0 =>
                    FirstAt(Apply(list, [op |-> "insert", k |-> k, t |-> 99]).list, k) = FirstAt(list, k)
ExtractIsRemovePlusResult == \A k \in Kinds : Apply(list, [op |-> "extract", k |-> k]).list = Apply(list, [op |-> "remove", k |-> k]).list
SortIsStablePermutation == \A key \in Orders : LET s == StableSort(list, key) IN
                    /\ Len(s) = Len(list)
                    /\ \A k \in Kinds : GetAll(s, k) = GetAll(list, k)
                    /\ \A i \in 1..(Len(s) - 1) : key[s[i][1]] <= key[s[i + 1][1]]
=======================================================================
