--------------------------- MODULE Trace_ChannelMask ---------------------------
(* replay of ChannelMask's cases on the real type: every text over the alphabet through FromStr, every mask through Display and  *)
(* channels(), and Metadata::channel_mask() of block lists with and without a mask field (non-gating growth report inside C12) *)
EXTENDS ChannelMask, IOUtils, FiniteSets
Rec == ndJsonDeserialize(IOEnv.TRACE)
VARIABLES l
Rej(e, rule) == PrintT(<<"REJECT", l, l, rule, e.ev>>)
TInit == l = 1 /\ x = 0
TNext == /\ l <= Len(Rec) /\ l' = l + 1 /\ UNCHANGED x
         /\ LET e == Rec[l] IN
            CASE e.ev = "parse" -> IF Parse(e.text) # -2 /\ e.mask # Parse(e.text) THEN Rej(e, "X.mask-text-is-parsed-as-specified") ELSE TRUE
              [] e.ev = "mask" -> /\ IF e.display # Display(e.mask) THEN Rej(e, "X.mask-display") ELSE TRUE
                                  /\ IF e.channels # ChannelsOf(e.mask) THEN Rej(e, "X.mask-channels") ELSE TRUE
                                  /\ IF e.reparsed # e.mask THEN Rej(e, "X.mask-display-parses-back") ELSE TRUE
              [] e.ev = "effective" -> IF e.mask # (IF e.has_field THEN Effective(e.text, e.channels) ELSE DefaultMask(e.channels))
                                          /\ ~(e.has_field /\ Parse(e.text) = -2)
                                       THEN Rej(e, "X.block-list-channel-mask") ELSE TRUE
              [] e.ev = "count" -> IF e.texts # Cardinality(Texts) \/ e.masks # Cardinality(Masks) THEN Rej(e, "X.every-case-was-run") ELSE TRUE
              [] OTHER -> TRUE
TSpec == TInit /\ [][TNext]_<<l, x>>
Post == IF TLCGet("stats").diameter - 1 = Len(Rec) THEN PrintT(<<"TRACE-DONE", Len(Rec)>>)
        ELSE PrintT(<<"TRACE-INCOMPLETE", TLCGet("stats").diameter, Len(Rec)>>)
=======================================================================
