--------------------------- MODULE BlockSeq ---------------------------
(***************************************************************************)
(* C11 (B): the two block-sequence acceptors transcribed from              *)
(* BlockIterator::next (reader) and write_blocks (writer).  TLC checks     *)
(* that they accept the same sequences of block kinds and that neither     *)
(* has a panic state.  Kinds: si, pad, app, seek, vc, cue, pic (any other  *)
(* picture), png (32x32 PNG icon), icon (general file icon).               *)
(***************************************************************************)
EXTENDS Integers, Sequences, FiniteSets, TLC
CONSTANTS Kinds, MaxLen
VARIABLE seq
Init == seq = <<>>
Next == Len(seq) < MaxLen /\ \E k \in Kinds : seq' = Append(seq, k)
Spec == Init /\ [][Next]_seq

Single == {"seek", "vc", "png", "icon"}
RECURSIVE Acc(_, _, _)
\* generic single-instance acceptor: returns "ok" | "err"
Acc(s, i, seen) ==
    IF i > Len(s) THEN "ok"
    ELSE IF s[i] = "si" THEN "err"                                    \* a second STREAMINFO
    ELSE IF s[i] \in Single /\ s[i] \in seen THEN "err"
    ELSE Acc(s, i + 1, IF s[i] \in Single THEN seen \cup {s[i]} ELSE seen)
ReaderAccepts(s) == IF s = <<>> \/ s[1] # "si" THEN "err" ELSE Acc(s, 2, {})
WriterAccepts(s) == IF s = <<>> \/ s[1] # "si" THEN "err" ELSE Acc(s, 2, {})
\* the format's own rule (MetaFormat.ValidList restricted to kinds)
Valid(s) == /\ s # <<>> /\ s[1] = "si"
            /\ \A k \in Single \cup {"si"} : Cardinality({i \in 1..Len(s) : s[i] = k}) <= 1
SameLanguage == ReaderAccepts(seq) = WriterAccepts(seq)
MatchesFormat == (ReaderAccepts(seq) = "ok") <=> Valid(seq)
=======================================================================
