--------------------------- MODULE Gen_StreamSync ---------------------------
(* arrangements (garbage before / between / after the frames) with the      *)
(* frames the model predicts to be returned                                 *)
EXTENDS StreamSync, Json
VARIABLE gsel
GInit == /\ gsel \in [1..(NFrames + 1) -> GarbageStrings]
         /\ input = Build(gsel, 1) /\ cur = 1 /\ returned = <<>> /\ status = "run"
         /\ faults = MaxFaults /\ injected = 0 /\ reported = 0
GNext == Read /\ UNCHANGED gsel
GSpec == GInit /\ [][GNext]_<<vars, gsel>>
Emit == status # "eof" \/ PrintT(<<"GEN", ToJson([garbage |-> gsel, pred |-> returned])>>)
=======================================================================
