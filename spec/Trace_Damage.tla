--------------------------- MODULE Trace_Damage ---------------------------
(* C05 on real runs: every single-bit flip / truncation / must-reject class.    *)
(* A decode that ends without an error must be the decode of ANOTHER valid      *)
(* stream (decided by FlacFormat on the damaged bytes); a decode that ends in   *)
(* an error must have delivered a genuine whole-frame prefix of the original.   *)
EXTENDS FlacFormat, Json, IOUtils
Rec == ndJsonDeserialize(IOEnv.TRACE)
VARIABLES l, base
tvars == <<l, base>>
Has(r, k) == k \in DOMAIN r
RECURSIVE Bounds(_, _, _)
Bounds(fs, i, acc) == IF i > Len(fs) THEN {acc} ELSE {acc} \cup Bounds(fs, i + 1, acc + fs[i])
Rej(rule, e) == PrintT(<<"REJECT", base.id, l, rule, e.kind, e.at>>)
IsPrefixOf(a, c) == Len(a) <= Len(c) /\ a = SubSeq(c, 1, Len(a))
\* flips and cuts of a base file: a single-bit flip cannot turn a frame into another valid one (CRC),
\* so whatever was delivered must be a whole-frame prefix of the ORIGINAL audio
JudgeExhaustive(e) ==
    /\ IF e.end = "panic" THEN Rej("C05.no-panic", e) ELSE TRUE
    /\ IF e.end = "err" /\ ~(e.prefix_ok /\ e.whole /\ e.delivered \in Bounds(base.frameSamples, 1, 0))
       THEN Rej("C05.delivered-is-a-genuine-whole-frame-prefix", e) ELSE TRUE
    /\ IF e.end = "eos"
       THEN LET st == ParseStreamT(e.bytes, Lenient)
                errs == MustRejectErrorsOf(e.bytes, st)
            IN IF errs # {} THEN PrintT(<<"REJECT", base.id, l, "C05.invalid-stream-decoded-silently", e.kind, e.at, errs>>)
               ELSE IF Pcm(SubSeq(st.frames, 1, FramesWithinTotal(st))) # e.data THEN Rej("C05.altered-valid-stream-decodes-to-its-own-pcm", e) ELSE TRUE
       ELSE TRUE
\* must-reject classes made by FlacGen (valid checksums): the altered stream may legitimately decode
\* differently, so the reference is the model's own decode of the altered bytes
JudgeExplicit(e) ==
    LET st == ParseStreamT(e.bytes, Lenient)
        errs == MustRejectErrorsOf(e.bytes, st)
        okFrames == SelectSeq(SubSeq(st.frames, 1, FramesWithinTotal(st)), LAMBDA f : f.errs \ Lenient = {})
        rangeIssue == \E i \in 1..Len(st.frames) : st.frames[i].errs \cap {"sample exceeds subframe depth", "decoded sample exceeds bit depth"} # {}
        spec == Pcm(okFrames)
        bounds == Bounds([i \in 1..Len(okFrames) |-> okFrames[i].bs * Len(okFrames[i].ch)], 1, 0)
    IN /\ IF e.end = "panic" THEN Rej("C05.no-panic", e) ELSE TRUE
       /\ IF e.end = "eos" /\ errs # {}
          THEN PrintT(<<"REJECT", base.id, l, "C05.invalid-stream-decoded-silently", e.kind, e.at, errs>>) ELSE TRUE
       /\ IF ~rangeIssue /\ e.end \in {"eos", "err"} /\ ~(IsPrefixOf(e.data, spec) /\ Len(e.data) \in bounds)
          THEN Rej("C05.delivered-is-a-genuine-whole-frame-prefix", e) ELSE TRUE
       /\ IF ~rangeIssue /\ e.end = "eos" /\ errs = {} /\ e.data # spec
          THEN Rej("C05.altered-valid-stream-decodes-to-its-own-pcm", e) ELSE TRUE
\* verify_reader delivers no samples: finishing with any verdict is "no error reported", allowed only when nothing must be rejected
JudgeVerifyRun(e) ==
    /\ IF e.end = "panic" THEN Rej("C05.no-panic", e) ELSE TRUE
    /\ IF e.end = "eos"
       THEN LET st == ParseStreamT(e.bytes, Lenient)
                errs == MustRejectErrorsOf(e.bytes, st)
            IN IF errs # {} THEN PrintT(<<"REJECT", base.id, l, "C05.invalid-stream-decoded-silently", e.kind, e.at, errs>>) ELSE TRUE
       ELSE TRUE
\* a caller that goes on after an error (the per-channel reader, asked three more times): a frame that was refused is not handed out
\* afterwards - whatever comes after the error is a run of the original audio from a later frame start, or nothing
JudgeRetry(e) ==
    IF "after_error_genuine" \in DOMAIN e /\ e.kind \in {"flip", "cut"} /\ ~e.after_error_genuine
    THEN Rej("C05.refused-frame-is-not-handed-out-later", e) ELSE TRUE
Judge(e) == /\ JudgeRetry(e)
            /\ IF e.reader = "verify" THEN JudgeVerifyRun(e) ELSE IF e.kind \in {"flip", "cut"} THEN JudgeExhaustive(e) ELSE JudgeExplicit(e)
JudgeVerify(e) ==
    LET want == CASE e.md5mode = "zero" -> "NoMD5"
                  [] e.md5mode = "good" /\ ~e.pcm_altered -> "MD5Match"
                  [] OTHER -> "MD5Mismatch"
    IN IF e.verdict # want THEN PrintT(<<"REJECT", base.id, l, "C05.md5-verdict", e.verdict, want>>) ELSE TRUE
Init == l = 1 /\ base = [id |-> 0]
Next == /\ l <= Len(Rec) /\ l' = l + 1
        /\ LET e == Rec[l] IN
           IF e.ev = "base" THEN base' = e
           ELSE IF e.ev = "dmg" THEN Judge(e) /\ UNCHANGED base
           ELSE IF e.ev = "verify" THEN JudgeVerify(e) /\ UNCHANGED base
           ELSE UNCHANGED base
Spec == Init /\ [][Next]_tvars
Post == IF TLCGet("stats").diameter - 1 = Len(Rec) THEN PrintT(<<"TRACE-DONE", Len(Rec)>>)
        ELSE PrintT(<<"TRACE-INCOMPLETE", TLCGet("stats").diameter, Len(Rec)>>)
=======================================================================
