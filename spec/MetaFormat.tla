--------------------------- MODULE MetaFormat ---------------------------
(***************************************************************************)
(* (C) Metadata blocks of RFC 9639 as byte strings: the serialisation      *)
(* (MetaSerialize) of an abstract block value, its size, and the list-     *)
(* level rules (STREAMINFO first and only once, at most one SEEKTABLE /    *)
(* VORBIS_COMMENT / PNG-icon / general-icon picture, 24-bit body sizes).   *)
(* Written from the format description, independent of the crate.          *)
(* 64-bit quantities are [hi, lo] pairs with a 24-bit lo (TLC integers are *)
(* 32-bit); byte strings are sequences of 0..255.                          *)
(***************************************************************************)
EXTENDS Integers, Sequences, FiniteSets, SequencesExt, TLC

P2m(n) == 2^n
BE(v, n) == [k \in 1..n |-> IF 8 * (n - k) >= 31 THEN 0 ELSE (v \div P2m(8 * (n - k))) % 256]      \* v < 2^31
LE(v, n) == [k \in 1..n |-> IF 8 * (k - 1) >= 31 THEN 0 ELSE (v \div P2m(8 * (k - 1))) % 256]
\* [hi, lo] (value = hi * 2^24 + lo, hi < 2^40 is not needed: hi < 2^31) as n >= 4 big-endian bytes
BE64(p, n) == BE(p[1], n - 3) \o BE(p[2], 3)
Zeros(n) == [k \in 1..n |-> 0]
Concat(ss) == FoldLeft(LAMBDA a, x : a \o x, <<>>, ss)

(* bit-packed STREAMINFO: 16+16+24+24 bits, then 20 rate, 3 channels-1, 5 bps-1, 36 total, 128 md5 *)
StreamInfoBody(s) ==
    LET x1 == s.rate                              \* 20 bits
        x2 == s.channels - 1                      \* 3 bits
        x3 == s.bps - 1                           \* 5 bits
        thi == s.total[1]  tlo == s.total[2]      \* 36 = 12 + 24
    IN BE(s.minbs, 2) \o BE(s.maxbs, 2) \o BE(s.minfs, 3) \o BE(s.maxfs, 3)
       \o << x1 \div 4096, (x1 \div 16) % 256, (x1 % 16) * 16 + x2 * 2 + (x3 \div 16), (x3 % 16) * 16 + (thi \div 256), thi % 256 >>
       \o BE(tlo, 3) \o s.md5

SeekPointBytes(p) == IF p[1] = "p" THEN [k \in 1..8 |-> 255] \o Zeros(10)
                     ELSE BE64(p[2], 8) \o BE64(p[3], 8) \o BE(p[4], 2)

CueIndexBytes(i) == BE64(i.offset, 8) \o <<i.number>> \o Zeros(3)
CueTrackBytes(t) == BE64(t.offset, 8) \o <<t.number>> \o t.isrc \o <<(IF t.nonaudio THEN 128 ELSE 0) + (IF t.pre THEN 64 ELSE 0)>> \o Zeros(13)
                    \o <<Len(t.index)>> \o Concat([k \in 1..Len(t.index) |-> CueIndexBytes(t.index[k])])

(* body of a block value b = [kind |-> ..., ...] *)
Body(b) ==
    CASE b.kind = "streaminfo" -> StreamInfoBody(b)
      [] b.kind = "padding" -> Zeros(b.size)
      [] b.kind = "application" -> BE(b.id[1], 2) \o BE(b.id[2], 2) \o b.data
      [] b.kind = "seektable" -> Concat([k \in 1..Len(b.points) |-> SeekPointBytes(b.points[k])])
      [] b.kind = "comment" -> LE(Len(b.vendor), 4) \o b.vendor \o LE(Len(b.fields), 4)
                               \o Concat([k \in 1..Len(b.fields) |-> LE(Len(b.fields[k]), 4) \o b.fields[k]])
      [] b.kind = "picture" -> BE(b.ptype, 4) \o BE(Len(b.mime), 4) \o b.mime \o BE(Len(b.desc), 4) \o b.desc
                               \o BE(b.width, 4) \o BE(b.height, 4) \o BE(b.depth, 4) \o BE(b.colors, 4) \o BE(Len(b.data), 4) \o b.data
      [] b.kind = "cuesheet" -> b.catalog \o Zeros(128 - Len(b.catalog)) \o BE64(b.leadin, 8) \o <<IF b.cdda THEN 128 ELSE 0>> \o Zeros(258)
                                \o <<Len(b.tracks)>> \o Concat([k \in 1..Len(b.tracks) |-> CueTrackBytes(b.tracks[k])])
TypeCode(b) == CASE b.kind = "streaminfo" -> 0 [] b.kind = "padding" -> 1 [] b.kind = "application" -> 2 [] b.kind = "seektable" -> 3
                 [] b.kind = "comment" -> 4 [] b.kind = "cuesheet" -> 5 [] OTHER -> 6
BlockSize(b) == Len(Body(b))
BlockBytes(b, last) == LET body == Body(b) IN <<(IF last THEN 128 ELSE 0) + TypeCode(b)>> \o BE(Len(body), 3) \o body
MetaSerialize(bs) == <<102, 76, 97, 67>> \o Concat([k \in 1..Len(bs) |-> BlockBytes(bs[k], k = Len(bs))])

(* list-level validity: what a writer must refuse and a reader must reject *)
Count(bs, P(_)) == Cardinality({k \in 1..Len(bs) : P(bs[k])})
ValidList(bs) ==
    /\ Len(bs) >= 1 /\ bs[1].kind = "streaminfo"
    /\ Count(bs, LAMBDA b : b.kind = "streaminfo") = 1
    /\ Count(bs, LAMBDA b : b.kind = "seektable") <= 1
    /\ Count(bs, LAMBDA b : b.kind = "comment") <= 1
    /\ Count(bs, LAMBDA b : b.kind = "picture" /\ b.ptype = 1) <= 1
    /\ Count(bs, LAMBDA b : b.kind = "picture" /\ b.ptype = 2) <= 1
    /\ \A k \in 1..Len(bs) : bs[k].kind = "picture" => bs[k].ptype <= 20
    \* fixed-width fields of a cue sheet: at most 128 catalog digits, an ISRC of exactly 12 bytes (zeros when absent) - a value of another
    \* width is no block value (it must be refused when the block is built or written, never cut or padded behind the caller's back)
    /\ \A k \in 1..Len(bs) : bs[k].kind = "cuesheet" =>
          Len(bs[k].catalog) <= 128 /\ \A i \in 1..Len(bs[k].tracks) : Len(bs[k].tracks[i].isrc) = 12
=======================================================================
