--------------------------- MODULE FlacGen ---------------------------
(***************************************************************************)
(* The inverse direction of FlacFormat: from an abstract frame plan (every *)
(* syntactic alternative of the frame grammar chosen independently) and    *)
(* target PCM, derive residuals (target - prediction, in the same exact    *)
(* arithmetic as FlacFormat.Predict), serialise, add CRC-8 / CRC-16, and   *)
(* wrap the frames into a stream with a STREAMINFO whose MD5 is computed   *)
(* by the TLA+ MD5 module.  The stream is valid by construction; `ov`      *)
(* overrides push single fields to illegal / extreme values AFTER the      *)
(* consistent derivation (checksums are still recomputed), which is how    *)
(* the malformed-but-checksummed inputs of C04 / C05 / C17 are made.       *)
(***************************************************************************)
EXTENDS FlacFormat

M5 == INSTANCE MD5

Has(r, k) == k \in DOMAIN r
Get(r, k, d) == IF k \in DOMAIN r THEN r[k] ELSE d

(* bit strings are sequences of 0/1 *)
RECURSIVE PutUAcc(_, _, _)
PutUAcc(v, n, acc) == IF n = 0 THEN acc ELSE PutUAcc(v \div 2, n - 1, <<v % 2>> \o acc)
PutU(v, n) == PutUAcc(v, n, <<>>)                       \* n bits of a non-negative value
\* two's complement in n <= 32 bits: floor division / non-negative modulo do the work
PutS(v, n) == [k \in 1..n |-> IF n - k >= 31 THEN (IF v < 0 THEN 1 ELSE 0) ELSE (v \div P2(n - k)) % 2]
PutUnary(q) == [k \in 1..q |-> 0] \o <<1>>
PadToByte(bits) == bits \o [k \in 1..((8 - (Len(bits) % 8)) % 8) |-> 0]
Pack(bits) == [i \in 1..(Len(bits) \div 8) |->
                 bits[8*i-7]*128 + bits[8*i-6]*64 + bits[8*i-5]*32 + bits[8*i-4]*16 + bits[8*i-3]*8 + bits[8*i-2]*4 + bits[8*i-1]*2 + bits[8*i]]

-----------------------------------------------------------------------------
(* residual coding                                                          *)
Fold(r) == IF r >= 0 THEN [half |-> r, odd |-> 0] ELSE [half |-> -(r + 1), odd |-> 1]    \* v = 2*half + odd
RiceBits(r, k) ==
    LET f == Fold(r)
        \* v = 2*half + odd;  q = v >> k ; low = v mod 2^k  (computed without forming v)
        q == IF k = 0 THEN 2 * f.half + f.odd ELSE f.half \div P2(k - 1)
        low == IF k = 0 THEN 0 ELSE (f.half % P2(k - 1)) * 2 + f.odd
    IN PutUnary(q) \o PutU(low, k)
RiceFits(r, k) == LET f == Fold(r) IN (IF k = 0 THEN f.half < 200 ELSE f.half \div P2(k - 1) < 400)
EscFits(r, w) == IF w = 0 THEN r = 0 ELSE IF w >= 32 THEN FALSE ELSE r >= -P2(w - 1) /\ r < P2(w - 1)    \* a 5-bit width field: 0..31

\* res = residuals (bs - order of them); method 0/1; po; params = per-partition <<"rice", k>> | <<"esc", w>>
ResidualBits(res, bs, order, method, po, params) ==
    LET np == P2(po)
        psz == bs \div np
        pbits == IF method = 0 THEN 4 ELSE 5
        esc == IF method = 0 THEN 15 ELSE 31
        Start(k) == IF k = 1 THEN 0 ELSE psz * (k - 1) - order
        Count(k) == IF k = 1 THEN psz - order ELSE psz
        Part(k) == LET pr == params[((k - 1) % Len(params)) + 1]
                       rs == SubSeq(res, Start(k) + 1, Start(k) + Count(k))
                   IN IF pr[1] = "rice"
                      THEN PutU(pr[2], pbits) \o FoldLeft(LAMBDA a, r : a \o RiceBits(r, pr[2]), <<>>, rs)
                      \* <<"rawrice", k, q, low>>: every residual of the partition written as the Rice code (q zeros, a one, low in k bits),
                      \* whatever value that stands for - q * 2^k + low may need more than 32 bits, which no residual can
                      ELSE IF pr[1] = "rawrice"
                      THEN PutU(pr[2], pbits) \o FoldLeft(LAMBDA a, r : a \o PutUnary(pr[3]) \o PutU(pr[4], pr[2]), <<>>, rs)
                      ELSE PutU(esc, pbits) \o PutU(pr[2], 5) \o FoldLeft(LAMBDA a, r : a \o PutS(r, pr[2]), <<>>, rs)
        \* (balanced concatenation: with 2^15 partitions a left fold would copy the growing bit string 32768 times)
        RECURSIVE Cat(_, _)
        Cat(lo, hi) == IF lo > hi THEN <<>> ELSE IF lo = hi THEN Part(lo) ELSE LET m == (lo + hi) \div 2 IN Cat(lo, m) \o Cat(m + 1, hi)
    IN PutU(method, 2) \o PutU(po, 4) \o Cat(1, np)
ResidualFits(res, bs, order, method, po, params) ==
    LET np == P2(po)
        psz == bs \div np
        Start(k) == IF k = 1 THEN 0 ELSE psz * (k - 1) - order
        Count(k) == IF k = 1 THEN psz - order ELSE psz
    IN /\ bs % np = 0 /\ psz >= order
       /\ \A k \in 1..np :
            LET pr == params[((k - 1) % Len(params)) + 1] IN
            /\ (pr[1] \in {"rice", "rawrice"} => pr[2] < (IF method = 0 THEN 15 ELSE 31))
            /\ \A i \in (Start(k) + 1)..(Start(k) + Count(k)) :
                  IF pr[1] = "rice" THEN RiceFits(res[i], pr[2]) ELSE IF pr[1] = "rawrice" THEN TRUE ELSE EscFits(res[i], pr[2])

-----------------------------------------------------------------------------
(* residuals of a channel for a predictor: res[i] = s[ord+i] - pred          *)
Residuals(s, coef, shift, bps, allowMin) ==
    LET ord == Len(coef)
        native == ord = 0 \/ (bps <= 30 /\ SumAbs(coef) <= P2(30 - bps))
        R(i) == LET n == ord + i - 1
                    isWide == ord # 0 /\ ~native
                    pw == IF ord = 0 \/ isWide THEN <<TRUE, 0>> ELSE <<TRUE, PredNative(s, n, coef, ord, shift)>>
                    x == s[ord + i]
                    \* the prediction may leave the 32-bit range; the residual itself must be a 32-bit value other than -2^31
                    wide == IF isWide THEN SubWide(x, PredWidePair(s, n, coef, ord, shift), shift) ELSE <<FALSE, 0>>
                    ok == IF isWide THEN wide[1] /\ (allowMin \/ wide[2] # (-2147483647) - 1)
                          ELSE (IF x >= 0 /\ pw[2] < 0 THEN x <= 2147483647 + pw[2]
                                ELSE IF x < 0 /\ pw[2] > 0 THEN x >= (IF allowMin THEN (-2147483647) - 1 ELSE -2147483647) + pw[2]
                                ELSE allowMin \/ pw[2] # 0 \/ x # (-2147483647) - 1)
                IN IF ~ok THEN <<FALSE, 0>> ELSE IF isWide THEN <<TRUE, wide[2]>> ELSE <<TRUE, x - pw[2]>>
        all == [i \in 1..(Len(s) - ord) |-> R(i)]
    IN [ok |-> \A i \in 1..Len(all) : all[i][1], res |-> [i \in 1..Len(all) |-> all[i][2]]]

-----------------------------------------------------------------------------
(* one subframe: sub = plan record, ch = channel values at depth bps0        *)
RECURSIVE TrailingZeros(_, _)
TrailingZeros(v, cap) == IF cap = 0 \/ v % 2 = 1 THEN 0 ELSE 1 + TrailingZeros(v \div 2, cap - 1)
MinSeq(s) == FoldLeft(LAMBDA a, x : IF x < a THEN x ELSE a, s[1], s)
SubframeBits(sub, ch0, bs, bps0) ==
    LET ov == Get(sub, "ov", [none |-> 0])
        \* "samples" override: arbitrary channel values (e.g. a side channel unrelated to left / right)
        ch == IF Has(ov, "samples") THEN [i \in 1..bs |-> ov.samples[((i - 1) % Len(ov.samples)) + 1]] ELSE ch0
        nz == {i \in 1..bs : ch[i] # 0}
        avail == IF nz = {} THEN 0 ELSE MinSeq([i \in 1..bs |-> IF ch[i] = 0 THEN 32 ELSE TrailingZeros(ch[i], 32)])
        w0 == Get(sub, "wasted", 0)
        w == IF w0 > avail THEN avail ELSE IF w0 >= bps0 THEN 0 ELSE w0
        bps == bps0 - w
        s == IF w = 0 THEN ch ELSE [i \in 1..bs |-> IF w <= 30 THEN ch[i] \div P2(w) ELSE IF ch[i] < 0 THEN -1 ELSE 0]
        ty == sub.type
        ord == IF ty \in {"fixed", "lpc"} THEN sub.order ELSE 0
        coef == IF ty = "fixed" THEN FixedC[ord + 1] ELSE IF ty = "lpc" THEN sub.coefs ELSE <<>>
        shift == IF ty = "lpc" THEN sub.shift ELSE 0
        \* "res" override: arbitrary residuals unrelated to the target samples (prediction + residual may then leave 32 bits)
        rr == IF ty \in {"fixed", "lpc"} /\ ord <= bs /\ Has(ov, "res")
              THEN [ok |-> TRUE, res |-> [i \in 1..(bs - ord) |-> ov.res[((i - 1) % Len(ov.res)) + 1]]]
              ELSE IF ty \in {"fixed", "lpc"} /\ ord <= bs THEN Residuals(s, coef, shift, bps, Has(ov, "minneg")) ELSE [ok |-> ty \in {"constant", "verbatim"}, res |-> <<>>]
        method == Get(sub, "method", 0)
        po == Get(sub, "po", 0)
        params == Get(sub, "params", << <<"esc", 31>> >>)
        tycode == CASE ty = "constant" -> 0 [] ty = "verbatim" -> 1 [] ty = "fixed" -> 8 + ord [] OTHER -> 31 + ord
        hdr == <<0>> \o PutU(Get(ov, "subtype", tycode), 6)
               \o (IF Has(ov, "wasted_unary") THEN <<1>> \o PutUnary(ov.wasted_unary - 1)
                   ELSE IF w = 0 THEN <<0>> ELSE <<1>> \o PutUnary(w - 1))
        warm == FoldLeft(LAMBDA a, i : a \o PutS(s[i], bps), <<>>, [i \in 1..ord |-> i])
        resb == IF ty \in {"fixed", "lpc"} /\ rr.ok
                THEN ResidualBits(rr.res, bs, ord, Get(ov, "method", method), po, params) ELSE <<>>
        \* the partition-order field can be overridden after the (consistent) layout was written
        resb2 == IF Has(ov, "po") /\ Len(resb) >= 6 THEN SubSeq(resb, 1, 2) \o PutU(ov.po, 4) \o SubSeq(resb, 7, Len(resb)) ELSE resb
        body == CASE ty = "constant" -> PutS(s[1], bps)
                  [] ty = "verbatim" -> FoldLeft(LAMBDA a, x : a \o PutS(x, bps), <<>>, s)
                  [] ty = "fixed" -> warm \o resb2
                  [] OTHER -> warm \o PutU(Get(ov, "precision_code", sub.precision - 1), 4) \o PutS(Get(ov, "shift_raw", shift), 5)
                              \o FoldLeft(LAMBDA a, c : a \o PutS(c, sub.precision), <<>>, coef) \o resb2
        valid == /\ rr.ok
                 /\ (ty = "constant" => \A i \in 1..bs : ch[i] = ch[1])
                 /\ (ty \in {"fixed", "lpc"} => ord <= bs /\ ResidualFits(rr.res, bs, ord, method, po, params))
                 /\ (ty = "lpc" => \A c \in 1..Len(coef) : EscFits(coef[c], sub.precision))
                 /\ \A i \in 1..bs : InRange(s[i], bps)
    IN [bits |-> IF valid THEN hdr \o body ELSE <<>>, ok |-> valid]

(* the 33-bit side channel of 32-bit audio, CONSTANT or VERBATIM: l - r without ever forming it *)
Side33(l, r) == WSub(WOf(l), WOf(r))
Put33(p) == PutS(p[1], 17) \o PutU(p[2], 16)
\* residuals of a predictor on pair-valued samples: each must be a 32-bit value other than -2^31
ResidualsW(ws, coef, shift) ==
    LET ord == Len(coef)
        R(i) == LET pw == IF ord = 0 THEN <<TRUE, <<0, 0>> >> ELSE PredPairs(ws, ord + i - 1, coef, ord, shift)
                    d == WSub(ws[ord + i], pw[2])
                IN IF pw[1] /\ WFits32(d) /\ d # <<-32768, 0>> THEN <<TRUE, WInt(d)>> ELSE <<FALSE, 0>>
        all == [i \in 1..(Len(ws) - ord) |-> R(i)]
    IN [ok |-> \A i \in 1..Len(all) : all[i][1], res |-> [i \in 1..Len(all) |-> all[i][2]]]
WShr(a, w) == <<a[1] \div P2(w), (a[1] % P2(w)) * P2(16 - w) + (a[2] \div P2(w))>>        \* floor(a / 2^w), w <= 16
WideSideBits(sub, L, R, bs) ==
    LET ov == Get(sub, "ov", [none |-> 0])
        \* "wide" override: arbitrary <<hi, lo>> side values unrelated to left / right
        side == IF Has(ov, "wide") THEN [i \in 1..bs |-> ov.wide[((i - 1) % Len(ov.wide)) + 1]] ELSE [i \in 1..bs |-> Side33(L[i], R[i])]
        \* a predictor given directly by its fields (warm-up pairs "wide", residuals "res"): nothing ties the residuals to samples, the
        \* values may grow past 33 bits at every step - such frames serve the must-not-panic / bounded-memory contract
        raw == sub.type \in {"fixed", "lpc"} /\ Has(ov, "wide") /\ Has(ov, "res") /\ sub.order <= bs
        pred == sub.type \in {"fixed", "lpc"} /\ "order" \in DOMAIN sub /\ sub.order <= bs
        \* wasted bits (the plan's count, when every value really has them): the subframe is then an ordinary one of 33 - w bits
        w0 == Get(sub, "wasted", 0)
        w == IF ~raw /\ w0 \in 1..16 /\ (\A i \in 1..bs : side[i][2] % P2(w0) = 0) THEN w0 ELSE 0
        ty == IF pred THEN sub.type ELSE IF sub.type = "constant" THEN "constant" ELSE "verbatim"
        ord == IF pred THEN sub.order ELSE 0
        coef == IF ~pred THEN <<>> ELSE IF ty = "fixed" THEN FixedC[ord + 1] ELSE sub.coefs
        shift == IF ty = "lpc" THEN sub.shift ELSE 0
        rr == IF raw THEN [ok |-> TRUE, res |-> [i \in 1..(bs - ord) |-> ov.res[((i - 1) % Len(ov.res)) + 1]]]
              ELSE IF pred /\ w = 0 THEN ResidualsW(side, coef, shift) ELSE [ok |-> TRUE, res |-> <<>>]
        method == Get(sub, "method", 0)
        po == Get(sub, "po", 0)
        params == Get(sub, "params", << <<"esc", 31>> >>)
        valid == /\ (ty = "constant" => \A i \in 1..bs : side[i] = side[1])
                 /\ rr.ok
                 /\ (pred /\ w = 0 => ResidualFits(rr.res, bs, ord, method, po, params))
                 /\ (ty = "lpc" /\ w = 0 => \A c \in 1..Len(coef) : EscFits(coef[c], sub.precision))
        warm == FoldLeft(LAMBDA a, i : a \o Put33(side[i]), <<>>, [i \in 1..ord |-> i])
        pbody == warm \o (IF ty = "lpc" THEN PutU(sub.precision - 1, 4) \o PutS(shift, 5)
                                            \o FoldLeft(LAMBDA a, c : a \o PutS(c, sub.precision), <<>>, coef) ELSE <<>>)
                      \o ResidualBits(rr.res, bs, ord, method, po, params)
        \* with wasted bits: the narrow machinery on the shifted values, its "no wasted bits" flag replaced by the unary count
        nsub == [k \in DOMAIN sub |-> IF k = "wasted" THEN 0 ELSE sub[k]]
        nr == SubframeBits(nsub, [i \in 1..bs |-> WInt(WShr(side[i], w))], bs, 33 - w)
    IN IF w >= 1
       THEN [bits |-> IF nr.ok /\ Len(nr.bits) >= 8 /\ nr.bits[8] = 0
                      THEN SubSeq(nr.bits, 1, 7) \o <<1>> \o PutUnary(w - 1) \o SubSeq(nr.bits, 9, Len(nr.bits)) ELSE <<>>,
             ok |-> nr.ok /\ Len(nr.bits) >= 8 /\ nr.bits[8] = 0]
       ELSE
       [bits |-> IF ~valid THEN <<>>
                 ELSE IF pred THEN <<0>> \o PutU(IF ty = "fixed" THEN 8 + ord ELSE 31 + ord, 6) \o <<0>> \o pbody
                 ELSE <<0>> \o PutU(IF ty = "constant" THEN 0 ELSE 1, 6) \o <<0>>
                      \o (IF ty = "constant" THEN Put33(side[1]) ELSE FoldLeft(LAMBDA a, x : a \o Put33(x), <<>>, side)),
        ok |-> valid]
MidOf(l, r) == (l \div 2) + (r \div 2) + (((l % 2) + (r % 2)) \div 2)          \* floor((l + r) / 2) without overflow

-----------------------------------------------------------------------------
(* frame header                                                             *)
CodedNumber(v, extra) ==      \* UTF-8-like coding of v < 2^31 using (minimal + extra) bytes
    LET minimal == IF v < 128 THEN 1 ELSE IF v < 2048 THEN 2 ELSE IF v < 65536 THEN 3 ELSE IF v < 2097152 THEN 4
                   ELSE IF v < 67108864 THEN 5 ELSE 6
        n == IF minimal + extra > 7 THEN 7 ELSE IF minimal + extra < 2 /\ extra > 0 THEN 2 ELSE minimal + extra
    IN IF n = 1 THEN <<v>>
       ELSE LET lead == (256 - P2(8 - n)) + (IF n >= 7 THEN 0 ELSE (v \div P2(6 * (n - 1))) % P2(7 - n))
            IN <<lead>> \o [k \in 1..(n - 1) |-> 128 + ((v \div P2(6 * (n - 1 - k))) % 64)]

BsCode(bs, how) ==      \* [code, extra bytes]
    LET tab == CASE bs = 192 -> 1 [] bs = 576 -> 2 [] bs = 1152 -> 3 [] bs = 2304 -> 4 [] bs = 4608 -> 5
                 [] bs = 256 -> 8 [] bs = 512 -> 9 [] bs = 1024 -> 10 [] bs = 2048 -> 11 [] bs = 4096 -> 12
                 [] bs = 8192 -> 13 [] bs = 16384 -> 14 [] bs = 32768 -> 15 [] OTHER -> 0
    IN IF how = "auto" /\ tab # 0 THEN [code |-> tab, extra |-> <<>>]
       ELSE IF bs <= 256 /\ how # "16" THEN [code |-> 6, extra |-> <<bs - 1>>]
       ELSE [code |-> 7, extra |-> <<(bs - 1) \div 256, (bs - 1) % 256>>]
RateCode(rate, how) ==
    LET idx == IF \E i \in 1..11 : RateTab[i + 1] = rate THEN CHOOSE i \in 1..11 : RateTab[i + 1] = rate ELSE 12
    IN CASE how = "si" -> [code |-> 0, extra |-> <<>>]
         [] how = "khz" -> [code |-> 12, extra |-> <<rate \div 1000>>]
         [] how = "hz" -> [code |-> 13, extra |-> <<rate \div 256, rate % 256>>]
         [] how = "tenhz" -> [code |-> 14, extra |-> <<(rate \div 10) \div 256, (rate \div 10) % 256>>]
         [] OTHER -> IF idx <= 11 /\ idx >= 1 THEN [code |-> idx, extra |-> <<>>] ELSE [code |-> 0, extra |-> <<>>]
BpsCode(bps, how) ==
    IF how = "si" THEN 0
    ELSE CASE bps = 8 -> 1 [] bps = 12 -> 2 [] bps = 16 -> 4 [] bps = 20 -> 5 [] bps = 24 -> 6 [] bps = 32 -> 7 [] OTHER -> 0

(* a whole frame: st = stream plan, fr = frame plan, L/R.. = target channels (sequence of channel sequences) *)
FrameBytes(st, fr, chans, number) ==
    LET ov == Get(fr, "ov", [none |-> 0])
        bs == fr.bs
        nch == st.channels
        assign == Get(fr, "chassign", "indep")
        chcode == CASE assign = "ls" -> 8 [] assign = "sr" -> 9 [] assign = "ms" -> 10 [] OTHER -> nch - 1
        L == chans[1]
        R == IF nch >= 2 THEN chans[2] ELSE chans[1]
        wide == st.bps = 32 /\ assign # "indep"
        side == IF wide THEN L ELSE [i \in 1..bs |-> L[i] - R[i]]        \* (wide: placeholder, see WideSideBits)
        mid == [i \in 1..bs |-> MidOf(L[i], R[i])]
        vals == CASE assign = "ls" -> <<L, side>> [] assign = "sr" -> <<side, R>> [] assign = "ms" -> <<mid, side>> [] OTHER -> chans
        isSide(c) == (assign = "ls" /\ c = 2) \/ (assign = "sr" /\ c = 1) \/ (assign = "ms" /\ c = 2)
        depth(c) == st.bps + (IF isSide(c) THEN 1 ELSE 0)
        subs == [c \in 1..nch |-> IF wide /\ isSide(c) THEN WideSideBits(fr.subs[((c - 1) % Len(fr.subs)) + 1], L, R, bs)
                                  ELSE SubframeBits(fr.subs[((c - 1) % Len(fr.subs)) + 1], vals[c], bs, depth(c))]
        bsc == BsCode(bs, Get(fr, "bscode", "auto"))
        rc == RateCode(st.rate, Get(st, "ratecode", "table"))
        hdr0 == Pack(PutU(Get(ov, "sync", 16382), 14) \o <<Get(ov, "reserved1", 0)>> \o <<IF Get(st, "variable", FALSE) THEN 1 ELSE 0>>
                     \o PutU(Get(ov, "bscode", bsc.code), 4) \o PutU(Get(ov, "srcode", rc.code), 4)
                     \o PutU(Get(ov, "chcode", chcode), 4) \o PutU(Get(ov, "bpscode", BpsCode(st.bps, Get(st, "bpscode", "hdr"))), 3)
                     \o <<Get(ov, "reserved2", 0)>>)
                \o (LET cn == CodedNumber(number, Get(fr, "overlong", 0))
                        \* "contxor" <<k, x>>: the k-th continuation byte of the coded number XORed with x (its two marker bits 10 become 11, 00, 01)
                        cx == Get(fr, "contxor", <<0, 0>>)
                    IN IF cx[1] >= 1 /\ cx[1] + 1 <= Len(cn) THEN [cn EXCEPT ![cx[1] + 1] = @ ^^ cx[2]] ELSE cn)
                \o bsc.extra \o rc.extra
        crc8 == Crc8(hdr0, 0, Len(hdr0)) ^^ Get(ov, "crc8xor", 0)
        hdr == Append(hdr0, crc8)
        bodybits == FoldLeft(LAMBDA a, c : a \o subs[c].bits, <<>>, [c \in 1..nch |-> c])
        padded == IF Get(ov, "padbits", 0) = 1 /\ Len(bodybits) % 8 # 0
                  THEN bodybits \o [k \in 1..((8 - (Len(bodybits) % 8)) % 8) |-> 1] ELSE PadToByte(bodybits)
        pre == hdr \o Pack(padded)
        crc16 == Crc16(pre, 0, Len(pre)) ^^ Get(ov, "crc16xor", 0)
        all == pre \o <<crc16 \div 256, crc16 % 256>>
    IN [bytes |-> IF Has(ov, "truncate") THEN SubSeq(all, 1, IF ov.truncate < Len(all) THEN Len(all) - ov.truncate ELSE 1) ELSE all,
        ok |-> \A c \in 1..nch : subs[c].ok]

-----------------------------------------------------------------------------
(* the stream: plan.pcm = sequence of channels (each a sequence of samples for the whole stream) *)
StreamInfoBytes(st, minbs, maxbs, total, md5) ==
    \* "total_hi": the upper 12 bits of the 36-bit total (units of 2^24 samples): a total beyond what the file holds
    \* "si_rate" / "si_channels" / "si_bps": a STREAMINFO that disagrees with what the (self-describing) frame headers say
    Pack(PutU(minbs, 16) \o PutU(maxbs, 16) \o PutU(0, 24) \o PutU(0, 24) \o PutU(Get(st, "si_rate", st.rate), 20)
         \o PutU(Get(st, "si_channels", st.channels) - 1, 3)
         \o PutU(Get(st, "si_bps", st.bps) - 1, 5) \o PutU(Get(st, "total_hi", 0), 12) \o PutU(total, 24)) \o md5

SerializeStream(plan) ==
    LET st == plan
        nf == Len(plan.frames)
        RECURSIVE StartOf(_)
        StartOf(i) == IF i <= 1 THEN 0 ELSE StartOf(i - 1) + plan.frames[i - 1].bs
        total == StartOf(nf + 1)
        ChansOf(i) == [c \in 1..st.channels |-> SubSeq(plan.pcm[c], StartOf(i) + 1, StartOf(i) + plan.frames[i].bs)]
        frs == [i \in 1..nf |-> FrameBytes(st, plan.frames[i], ChansOf(i),
                                           Get(plan.frames[i], "number", IF Get(st, "variable", FALSE) THEN StartOf(i) ELSE i - 1))]
        inter == [k \in 1..(total * st.channels) |-> plan.pcm[((k - 1) % st.channels) + 1][((k - 1) \div st.channels) + 1]]
        md5mode == Get(st, "md5", "good")
        good == M5!Digest(PcmBytes(inter, st.bps))
        md5 == CASE md5mode = "zero" -> [k \in 1..16 |-> 0]
                 [] md5mode = "bad" -> [good EXCEPT ![7] = (@ + 1) % 256]
                 [] OTHER -> good
        maxbs == Get(st, "maxbs", FoldLeft(LAMBDA a, f : IF f.bs > a THEN f.bs ELSE a, 0, plan.frames))
        minbs == Get(st, "minbs", IF Get(st, "variable", FALSE) THEN FoldLeft(LAMBDA a, f : IF f.bs < a THEN f.bs ELSE a, 65535, plan.frames) ELSE maxbs)
        si == StreamInfoBytes(st, minbs, maxbs, IF Get(st, "total_known", TRUE) THEN Get(st, "total", total) ELSE 0, md5)
        meta == <<102, 76, 97, 67, 128, 0, 0, 34>> \o si
        audio == FoldLeft(LAMBDA a, i : a \o frs[i].bytes, <<>>, [i \in 1..nf |-> i])
    IN [bytes |-> meta \o audio, frames |-> [i \in 1..nf |-> frs[i].bytes], ok |-> \A i \in 1..nf : frs[i].ok, pcm |-> inter,
        metaLen |-> Len(meta)]
=======================================================================
