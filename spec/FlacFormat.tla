--------------------------- MODULE FlacFormat ---------------------------
(***************************************************************************)
(* (C) An executable model of the FLAC bitstream (RFC 9639), written from  *)
(* the format description - NOT from the crate.  TLC evaluates these       *)
(* operators on concrete byte strings: it is the independent decoder of    *)
(* C02 / C05 / C17 and (through FlacGen) the generator of C03 / C04.       *)
(*                                                                         *)
(* All operators take the byte sequence `b` (values 0..255) explicitly.    *)
(* Positions `p` are absolute bit indices; reads beyond the end yield 0    *)
(* bits and are reported as "truncated" by the callers that compare the    *)
(* final position with 8 * Len(b).                                         *)
(*                                                                         *)
(* Deliberate leniencies (accepted, never flagged): bit depths 1-3 through *)
(* the STREAMINFO code, sample rate 0, over-long coded numbers, the        *)
(* reserved header bit, an empty first partition (bs/2^po = order).        *)
(* 33-bit side channels of 32-bit stereo are modelled in pair arithmetic    *)
(* (TLC integers being 32-bit): CONSTANT, VERBATIM, FIXED and LPC           *)
(* subframes, the predictor sums in three 16-bit limbs; with wasted bits    *)
(* the subframe is an ordinary one of <= 32 bits whose values are widened.  *)
(***************************************************************************)
EXTENDS Integers, Sequences, FiniteSets, Bitwise, SequencesExt, TLC

P2(n) == 2^n
BitLen(b) == 8 * Len(b)
B(b, i) == IF i < Len(b) THEN b[i + 1] ELSE 0          \* 0-based byte, 0 beyond the end
Bit(b, p) == (B(b, p \div 8) \div P2(7 - (p % 8))) % 2

RECURSIVE UAcc(_, _, _, _)
UAcc(b, p, n, acc) ==
    IF n = 0 THEN acc
    ELSE LET off == p % 8
             avail == 8 - off
             k == IF n < avail THEN n ELSE avail
             chunk == (B(b, p \div 8) % P2(avail)) \div P2(avail - k)
         IN UAcc(b, p + k, n - k, acc * P2(k) + chunk)
U(b, p, n) == UAcc(b, p, n, 0)                          \* unsigned, n <= 31

\* signed two's complement, 0 <= n <= 32
S(b, p, n) ==
    IF n = 0 THEN 0
    ELSE LET sign == Bit(b, p)
             rest == U(b, p + 1, n - 1)
         IN IF sign = 0 THEN rest
            ELSE IF n = 32 THEN (rest - 2147483647) - 1 ELSE rest - P2(n - 1)

Log2Floor(x) == CASE x >= 128 -> 7 [] x >= 64 -> 6 [] x >= 32 -> 5 [] x >= 16 -> 4
                  [] x >= 8 -> 3 [] x >= 4 -> 2 [] x >= 2 -> 1 [] OTHER -> 0
\* number of 0 bits before the next 1 bit (stops at the end of the data)
RECURSIVE Unary(_, _, _)
Unary(b, p, acc) ==
    IF p >= BitLen(b) THEN acc
    ELSE LET avail == 8 - (p % 8)
             rest == B(b, p \div 8) % P2(avail)
         IN IF rest = 0 THEN Unary(b, p + avail, acc + avail)
            ELSE acc + (avail - 1 - Log2Floor(rest))

-----------------------------------------------------------------------------
(* CRC-8 (poly 0x07) and CRC-16 (poly 0x8005), both MSB first, init 0       *)
RECURSIVE CrcBits(_, _, _, _)
CrcBits(x, k, top, poly) == IF k = 0 THEN x
                            ELSE CrcBits(IF x >= top THEN ((x * 2) % (2 * top)) ^^ poly ELSE (x * 2) % (2 * top), k - 1, top, poly)
Crc8Table  == [i \in 0..255 |-> CrcBits(i, 8, 128, 7)]
Crc16Table == [i \in 0..255 |-> CrcBits(i * 256, 8, 32768, 32773)]
Crc8(b, from, to) ==        \* bytes from..to-1
    FoldLeft(LAMBDA c, i : Crc8Table[c ^^ B(b, i)], 0, [k \in 1..(to - from) |-> from + k - 1])
Crc16(b, from, to) ==
    FoldLeft(LAMBDA c, i : ((c % 256) * 256) ^^ Crc16Table[(c \div 256) ^^ B(b, i)], 0, [k \in 1..(to - from) |-> from + k - 1])

-----------------------------------------------------------------------------
(* Metadata                                                                 *)
RECURSIVE BlocksFrom(_, _, _)
\* list of [type, off (of body), len, last]; stops at the last-block flag or when data runs out
BlocksFrom(b, o, acc) ==
    IF o + 4 > Len(b) THEN [blocks |-> acc, end |-> o, ok |-> FALSE]
    ELSE LET last == B(b, o) \div 128
             ty == B(b, o) % 128
             len == B(b, o + 1) * 65536 + B(b, o + 2) * 256 + B(b, o + 3)
             blk == [type |-> ty, off |-> o + 4, len |-> len, last |-> last = 1]
         IN IF o + 4 + len > Len(b) THEN [blocks |-> Append(acc, blk), end |-> o + 4 + len, ok |-> FALSE]
            ELSE IF last = 1 THEN [blocks |-> Append(acc, blk), end |-> o + 4 + len, ok |-> TRUE]
            ELSE BlocksFrom(b, o + 4 + len, Append(acc, blk))
HasTag(b) == Len(b) >= 4 /\ SubSeq(b, 1, 4) = <<102, 76, 97, 67>>      \* "fLaC"
Meta(b) == IF HasTag(b) THEN BlocksFrom(b, 4, <<>>) ELSE [blocks |-> <<>>, end |-> 0, ok |-> FALSE]

\* STREAMINFO body at byte offset o. total as [hi, lo] (lo = low 24 bits)
StreamInfo(b, o) ==
    [ minbs |-> B(b, o) * 256 + B(b, o + 1), maxbs |-> B(b, o + 2) * 256 + B(b, o + 3),
      minfs |-> U(b, (o + 4) * 8, 24), maxfs |-> U(b, (o + 7) * 8, 24),
      rate |-> U(b, (o + 10) * 8, 20), ch |-> U(b, (o + 10) * 8 + 20, 3) + 1, bps |-> U(b, (o + 10) * 8 + 23, 5) + 1,
      totalHi |-> U(b, (o + 10) * 8 + 28, 12), totalLo |-> U(b, (o + 10) * 8 + 40, 24),
      md5 |-> [k \in 1..16 |-> B(b, o + 18 + k - 1)] ]
\* total samples as an integer when it fits (streams used here are far below 2^31)
TotalOf(si) == IF si.totalHi < 64 THEN si.totalHi * 16777216 + si.totalLo ELSE 2147483647

-----------------------------------------------------------------------------
(* Frame header                                                             *)
BsTab == <<0, 192, 576, 1152, 2304, 4608, -8, -16, 256, 512, 1024, 2048, 4096, 8192, 16384, 32768>>
RateTab == <<0, 88200, 176400, 192000, 8000, 16000, 22050, 24000, 32000, 44100, 48000, 96000>>
BpsTab == <<0, 8, 12, -1, 16, 20, 24, 32>>

\* the UTF-8-like coded number starting at byte o: [len, ok, val (when it fits 31 bits), big]
Coded(b, o) ==
    LET b0 == B(b, o)
        n == IF b0 < 128 THEN 1 ELSE IF b0 < 192 THEN 0 ELSE IF b0 < 224 THEN 2 ELSE IF b0 < 240 THEN 3
             ELSE IF b0 < 248 THEN 4 ELSE IF b0 < 252 THEN 5 ELSE IF b0 < 254 THEN 6 ELSE IF b0 = 254 THEN 7 ELSE 0
        lead == IF n = 1 THEN b0 ELSE IF n = 0 THEN 0 ELSE b0 % P2(7 - n)
        contOk == \A k \in 1..(n - 1) : B(b, o + k) \div 64 = 2
        big == n = 7                                      \* 36 payload bits: beyond TLC integers (6 bytes carry 31 bits, which fit)
        val == IF big \/ n = 0 THEN 0
               ELSE FoldLeft(LAMBDA a, k : a * 64 + (B(b, o + k) % 64), lead, [k \in 1..(n - 1) |-> k])
    IN [len |-> IF n = 0 THEN 1 ELSE n, ok |-> n # 0 /\ contOk, val |-> val, big |-> big]

\* si = STREAMINFO record or a record with bps = 0, rate = -1 when none is available (raw frame streams)
Header(b, o, si) ==
    LET p == o * 8
        sync == U(b, p, 14)
        reserved1 == Bit(b, p + 14)
        variable == Bit(b, p + 15)
        bscode == U(b, p + 16, 4)   srcode == U(b, p + 20, 4)
        chcode == U(b, p + 24, 4)   bpscode == U(b, p + 28, 3)
        reserved2 == Bit(b, p + 31)
        num == Coded(b, o + 4)
        p1 == o + 4 + num.len
        bsx == IF bscode = 6 THEN 1 ELSE IF bscode = 7 THEN 2 ELSE 0
        bs == IF bscode = 6 THEN B(b, p1) + 1 ELSE IF bscode = 7 THEN B(b, p1) * 256 + B(b, p1 + 1) + 1 ELSE BsTab[bscode + 1]
        p2 == p1 + bsx
        srx == IF srcode = 12 THEN 1 ELSE IF srcode \in {13, 14} THEN 2 ELSE 0
        rate == CASE srcode = 0 -> si.rate
                  [] srcode = 12 -> B(b, p2) * 1000
                  [] srcode = 13 -> B(b, p2) * 256 + B(b, p2 + 1)
                  [] srcode = 14 -> (B(b, p2) * 256 + B(b, p2 + 1)) * 10
                  [] srcode = 15 -> -1
                  [] OTHER -> RateTab[srcode + 1]
        crcAt == p2 + srx
        nch == IF chcode < 8 THEN chcode + 1 ELSE 2
        bps == IF bpscode = 0 THEN si.bps ELSE BpsTab[bpscode + 1]
        errs == (IF sync # 16382 THEN {"sync"} ELSE {})
                \cup (IF bscode = 0 THEN {"reserved block size code"} ELSE {})
                \cup (IF srcode = 15 THEN {"invalid sample rate code"} ELSE {})
                \cup (IF chcode > 10 THEN {"reserved channel assignment"} ELSE {})
                \cup (IF bpscode = 3 THEN {"reserved bit depth code"} ELSE {})
                \cup (IF ~num.ok THEN {"malformed coded number"} ELSE {})
                \cup (IF bscode = 7 /\ bs = 65536 THEN {"block size 65536"} ELSE {})
                \cup (IF Crc8(b, o, crcAt) # B(b, crcAt) THEN {"crc8"} ELSE {})
    IN [ errs |-> errs, bs |-> bs, rate |-> rate, chcode |-> chcode, nch |-> nch, bps |-> bps, variable |-> variable = 1,
         num |-> num, body |-> (crcAt + 1) * 8, bscode |-> bscode, srcode |-> srcode, bpscode |-> bpscode,
         reserved |-> reserved1 + reserved2, hdrLen |-> crcAt + 1 - o ]

-----------------------------------------------------------------------------
(* Residual coding.  Returns [pos, out, errs, po, method, params]           *)
Unfold(v) == IF v % 2 = 1 THEN -(v \div 2) - 1 ELSE v \div 2
Residual(b, p, bs, order) ==
    LET method == U(b, p, 2)
        pbits == IF method = 0 THEN 4 ELSE 5
        esc == IF method = 0 THEN 15 ELSE 31
        po == U(b, p + 2, 4)
        np == P2(po)
        psz == bs \div np
        shapeErrs == (IF method > 1 THEN {"reserved residual coding method"} ELSE {})
                     \cup (IF bs % np # 0 THEN {"partition order does not divide the block"} ELSE {})
                     \cup (IF psz < order THEN {"predictor order exceeds partition"} ELSE {})
        Part(acc, k) ==
            LET n == IF k = 1 THEN psz - order ELSE psz
                rp == U(b, acc.pos, pbits)
            IN IF rp = esc
               THEN LET w == U(b, acc.pos + pbits, 5)
                    IN [pos |-> acc.pos + pbits + 5 + n * w,
                        out |-> acc.out \o [j \in 1..n |-> S(b, acc.pos + pbits + 5 + (j - 1) * w, w)],
                        errs |-> acc.errs, params |-> Append(acc.params, <<"esc", w>>)]
               ELSE LET R2(a, j) == LET q == Unary(b, a.pos, 0)
                                        r == U(b, a.pos + q + 1, rp)
                                        \* folded value v = q * 2^rp + r may need 32 bits: unfold without forming it.
                                        \* A residual must fit 32-bit signed (|res| < 2^31): q < 2^(32 - rp)
                                        big == IF rp = 0 THEN FALSE ELSE (q \div 2) >= P2(31 - rp)
                                        half == IF big THEN 0 ELSE IF rp = 0 THEN q \div 2 ELSE q * P2(rp - 1) + (r \div 2)
                                        odd == (IF rp = 0 THEN q ELSE r) % 2
                                        \* RFC 9639 9.2.7.3: the most negative 32-bit value is not a legal residual
                                        minneg == ~big /\ odd = 1 /\ half = 2147483647
                                    IN [pos |-> a.pos + q + 1 + rp, out |-> Append(a.out, IF odd = 1 THEN (-half) - 1 ELSE half),
                                        errs |-> IF big THEN a.errs \cup {"residual out of range"}
                                                 ELSE IF minneg THEN a.errs \cup {"residual is the most negative value"} ELSE a.errs]
                        r0 == FoldLeft(R2, [pos |-> acc.pos + pbits, out |-> acc.out, errs |-> acc.errs], [j \in 1..n |-> j])
                    IN [pos |-> r0.pos, out |-> r0.out, errs |-> r0.errs, params |-> Append(acc.params, <<"rice", rp>>)]
    IN IF shapeErrs # {} THEN [pos |-> p + 6, out |-> <<>>, errs |-> shapeErrs, po |-> po, method |-> method, params |-> <<>>]
       ELSE LET r == FoldLeft(Part, [pos |-> p + 6, out |-> <<>>, errs |-> {}, params |-> <<>>], [k \in 1..np |-> k])
            IN [pos |-> r.pos, out |-> r.out, errs |-> r.errs, po |-> po, method |-> method, params |-> r.params]

-----------------------------------------------------------------------------
(* Prediction.  Native 32-bit arithmetic when it cannot overflow, otherwise *)
(* a three-limb (base 2^12) accumulator: exact, never truncated.            *)
Abs(x) == IF x < 0 THEN -x ELSE x
InRange(v, bits) == IF bits >= 32 THEN TRUE ELSE v >= -P2(bits - 1) /\ v < P2(bits - 1)
SumAbs(c) == FoldLeft(LAMBDA a, x : a + Abs(x), 0, c)
FixedC == << <<>>, <<1>>, <<2, -1>>, <<3, -3, 1>>, <<4, -6, 4, -1>> >>

PredNative(s, n, coef, ord, shift) ==
    FoldLeft(LAMBDA a, j : a + coef[j] * s[n + 1 - j], 0, [j \in 1..ord |-> j]) \div P2(shift)

\* exact floor((sum_j coef[j] * s[n+1-j]) / 2^shift), |coef| < 2^15, |s| < 2^31, 0 <= shift <= 15, as a pair <<h, l>> in base
\* U = 2^(24 - shift): value = h * U + l, 0 <= l < U.  The prediction itself may leave the 32-bit range (a signal that runs into the
\* rail: 2 x[n-1] - x[n-2] overshoots); only the SAMPLE (prediction + residual) and the RESIDUAL are 32-bit values.
PredWidePair(s, n, coef, ord, shift) ==
    LET Step(a, j) ==
            LET c == coef[j]  x == s[n + 1 - j]
                x0 == x % 4096  x1 == (x \div 4096) % 4096  x2 == x \div 16777216
                a0 == a[1] + c * x0
                a1 == a[2] + c * x1 + (a0 \div 4096)
                a2 == a[3] + c * x2 + (a1 \div 4096)
            IN <<a0 % 4096, a1 % 4096, a2>>
        acc == FoldLeft(Step, <<0, 0, 0>>, [j \in 1..ord |-> j])
        low == acc[2] * 4096 + acc[1]                     \* 0 <= low < 2^24
    IN <<acc[3], low \div P2(shift)>>
\* residual + prediction / sample - prediction in that base: <<ok, value>>, ok iff the result is a 32-bit value
AddWide(pw, r, shift) ==
    LET Un == P2(24 - shift)
        l == pw[2] + (r % Un)
        h == pw[1] + (r \div Un) + (l \div Un)
    IN IF h < -P2(7 + shift) \/ h >= P2(7 + shift) THEN <<FALSE, 0>> ELSE <<TRUE, h * Un + (l % Un)>>
SubWide(x, pw, shift) ==
    LET Un == P2(24 - shift)
        l == (x % Un) - pw[2]
        h == (x \div Un) - pw[1] + (l \div Un)
    IN IF h < -P2(7 + shift) \/ h >= P2(7 + shift) THEN <<FALSE, 0>> ELSE <<TRUE, h * Un + (l % Un)>>

\* warm = first `ord` samples, res = residuals, bps = the subframe's effective depth.
\* Every produced sample must fit bps bits (RFC 9639: samples of a subframe fit its depth);
\* a sample that does not is replaced by 0 and reported, which also keeps the arithmetic bounded.
\* Returns [s, bad].
Predict(warm, res, coef, shift, bps) ==
    LET ord == Len(coef)
        native == ord = 0 \/ (bps <= 30 /\ SumAbs(coef) <= P2(30 - bps))
        Step(st, r) ==
            LET s == st.s
                n == Len(s)
                pw == IF ord = 0 THEN <<TRUE, 0>> ELSE IF native THEN <<TRUE, PredNative(s, n, coef, ord, shift)>> ELSE <<TRUE, 0>>
                wide == IF ord # 0 /\ ~native THEN AddWide(PredWidePair(s, n, coef, ord, shift), r, shift) ELSE <<FALSE, 0>>
                addOk == IF ord # 0 /\ ~native THEN wide[1]
                         ELSE (IF r >= 0 /\ pw[2] >= 0 THEN r <= 2147483647 - pw[2]
                               ELSE IF r < 0 /\ pw[2] < 0 THEN r >= ((-2147483647) - 1) - pw[2] ELSE TRUE)
                v == IF ~addOk THEN 0 ELSE IF ord # 0 /\ ~native THEN wide[2] ELSE r + pw[2]
                ok == addOk /\ InRange(v, bps)
            IN [s |-> Append(s, IF ok THEN v ELSE 0), bad |-> st.bad \/ ~ok]
    IN FoldLeft(Step, [s |-> warm, bad |-> FALSE], res)

-----------------------------------------------------------------------------
(* 33-bit values (the side channel of 32-bit audio) as <<hi, lo>> with      *)
(* value = hi * 65536 + lo and 0 <= lo < 65536.                             *)
WNorm(h, l) == <<h + (l \div 65536), l % 65536>>
WOf(x) == <<x \div 65536, x % 65536>>
WAdd(a, c) == WNorm(a[1] + c[1], a[2] + c[2])
WSub(a, c) == WNorm(a[1] - c[1], a[2] - c[2])
WFits32(a) == a[1] >= -32768 /\ a[1] <= 32767
WInt(a) == a[1] * 65536 + a[2]
WHalf(a) == <<a[1] \div 2, ((a[1] % 2) * 65536 + a[2]) \div 2>>        \* floor(a / 2)
W33(b, p) == <<S(b, p, 17), U(b, p + 17, 16)>>                          \* 33-bit two's complement at bit p
WFits33(a) == a[1] >= -65536 /\ a[1] <= 65535
RECURSIVE WShl(_, _)
WShl(a, w) == IF w = 0 THEN a ELSE WShl(WNorm(2 * a[1], 2 * a[2]), w - 1)      \* a * 2^w (the caller knows it stays within 33 bits)

\* Predictors on the 33-bit channel.  ws = samples as pairs (|value| < 2^32), |coef| < 2^15, 0 <= shift <= 15.
\* The sum of up to 32 products is kept in three limbs <<c, b, a>> = a * 2^32 + b * 2^16 + c (0 <= b, c < 2^16), so that no
\* intermediate value leaves TLC's 32-bit integers.  Returns <<ok, floor(sum / 2^shift) as a pair>>; ok = FALSE when that prediction
\* itself leaves the 33-bit range (no valid stream needs such a predictor step; the exact value is then not defined here).
PredPairs(ws, n, coef, ord, shift) ==
    LET Step(a, j) ==
            LET c == coef[j]  x == ws[n + 1 - j]
                a0 == a[1] + c * x[2]
                a1 == a[2] + c * x[1] + (a0 \div 65536)
                a2 == a[3] + (a1 \div 65536)
            IN <<a0 % 65536, a1 % 65536, a2>>
        acc == FoldLeft(Step, <<0, 0, 0>>, [j \in 1..ord |-> j])
    IN IF acc[3] < -P2(shift + 1) \/ acc[3] > P2(shift + 1) THEN <<FALSE, <<0, 0>> >>
       ELSE LET hi == acc[3] * P2(16 - shift) + (acc[2] \div P2(shift))
                lo == (acc[2] % P2(shift)) * P2(16 - shift) + (acc[1] \div P2(shift))
            IN <<WFits33(<<hi, lo>>), <<hi, lo>> >>
\* warm = first `ord` samples (pairs), res = residuals (32-bit integers).  Every produced sample must fit 33 bits; one that does not
\* is replaced by 0 and reported (as in Predict).  Returns [s, bad].
PredictW(warm, res, coef, shift) ==
    LET ord == Len(coef)
        Step(st, r) ==
            LET pw == IF ord = 0 THEN <<TRUE, <<0, 0>> >> ELSE PredPairs(st.s, Len(st.s), coef, ord, shift)
                v == WAdd(pw[2], WOf(r))
                ok == pw[1] /\ WFits33(v)
            IN [s |-> Append(st.s, IF ok THEN v ELSE <<0, 0>>), bad |-> st.bad \/ ~ok]
    IN FoldLeft(Step, [s |-> warm, bad |-> FALSE], res)

-----------------------------------------------------------------------------
(* Subframe at bit p with nominal depth bps0 (side channels: +1).           *)
(* Returns [pos, s, errs, info]                                             *)
Subframe(b, p, bs, bps0) ==
    LET pad == Bit(b, p)
        ty == U(b, p + 1, 6)
        hasw == Bit(b, p + 7)
        w == IF hasw = 1 THEN Unary(b, p + 8, 0) + 1 ELSE 0
        q == p + 8 + w
        bps == bps0 - w
        hdrErrs == (IF pad = 1 THEN {"subframe padding bit set"} ELSE {})
                   \cup (IF w >= bps0 THEN {"wasted bits >= depth"} ELSE {})
        \* undo wasted bits; bps + w <= 32 so the product fits, but 2^31 itself is not a TLC integer
        Shl1(x) == IF w <= 30 THEN x * P2(w) ELSE IF x = 0 THEN 0 ELSE (-2147483647) - 1
        Shl(s) == IF w = 0 \/ bps0 = 33 THEN s ELSE [i \in 1..Len(s) |-> Shl1(s[i])]      \* (33-bit channel: widened in pair arithmetic below)
        Bad(e) == [pos |-> q, s |-> [i \in 1..bs |-> 0], errs |-> hdrErrs \cup e, info |-> [type |-> "invalid", order |-> 0, wasted |-> w]]
        ZeroS == [i \in 1..bs |-> 0]
        \* the 33-bit side channel of 32-bit audio without wasted bits: every value is a pair, returned in info.wide
        Wide33 ==
            CASE ty = 0 ->
                   [pos |-> q + 33, s |-> ZeroS, errs |-> hdrErrs,
                    info |-> [type |-> "constant", order |-> 0, wasted |-> 0, wide |-> [i \in 1..bs |-> W33(b, q)]]]
              [] ty = 1 ->
                   [pos |-> q + bs * 33, s |-> ZeroS, errs |-> hdrErrs,
                    info |-> [type |-> "verbatim", order |-> 0, wasted |-> 0, wide |-> [i \in 1..bs |-> W33(b, q + (i - 1) * 33)]]]
              [] ty \in 8..12 ->
                   LET ord == ty - 8 IN
                   IF ord > bs THEN Bad({"fixed order exceeds block size"})
                   ELSE LET warm == [i \in 1..ord |-> W33(b, q + (i - 1) * 33)]
                            r == Residual(b, q + ord * 33, bs, ord)
                            ok == r.errs \subseteq {"residual is the most negative value"} /\ Len(r.out) = bs - ord
                            pr == IF ok THEN PredictW(warm, r.out, FixedC[ord + 1], 0) ELSE [s |-> [i \in 1..bs |-> <<0, 0>>], bad |-> FALSE]
                        IN [pos |-> r.pos, s |-> ZeroS, errs |-> hdrErrs \cup r.errs \cup (IF pr.bad THEN {"sample exceeds subframe depth"} ELSE {}),
                            info |-> [type |-> "fixed", order |-> ord, wasted |-> 0, po |-> r.po, method |-> r.method, params |-> r.params, wide |-> pr.s]]
              [] ty >= 32 ->
                   LET ord == ty - 31 IN
                   IF ord > bs THEN Bad({"lpc order exceeds block size"})
                   ELSE LET warm == [i \in 1..ord |-> W33(b, q + (i - 1) * 33)]
                            q2 == q + ord * 33
                            precc == U(b, q2, 4)
                            prec == precc + 1
                            shift == S(b, q2 + 4, 5)
                            coef == [i \in 1..ord |-> S(b, q2 + 9 + (i - 1) * prec, prec)]
                            r == Residual(b, q2 + 9 + ord * prec, bs, ord)
                            perr == (IF precc = 15 THEN {"reserved coefficient precision"} ELSE {})
                                    \cup (IF shift < 0 THEN {"negative lpc shift"} ELSE {})
                            ok == r.errs \subseteq {"residual is the most negative value"} /\ perr = {} /\ Len(r.out) = bs - ord
                            pr == IF ok THEN PredictW(warm, r.out, coef, shift) ELSE [s |-> [i \in 1..bs |-> <<0, 0>>], bad |-> FALSE]
                        IN [pos |-> r.pos, s |-> ZeroS, errs |-> hdrErrs \cup perr \cup r.errs \cup (IF pr.bad THEN {"sample exceeds subframe depth"} ELSE {}),
                            info |-> [type |-> "lpc", order |-> ord, wasted |-> 0, po |-> r.po, method |-> r.method, params |-> r.params,
                                      precision |-> prec, shift |-> shift, coef |-> coef, wide |-> pr.s]]
              [] OTHER -> Bad({"reserved subframe type"})
        \* every other case: at most 32 significant bits (a 33-bit channel WITH wasted bits included; its values are then widened below)
        Narrow ==
            CASE ty = 0 ->
              [pos |-> q + bps, s |-> Shl([i \in 1..bs |-> S(b, q, bps)]), errs |-> hdrErrs,
               info |-> [type |-> "constant", order |-> 0, wasted |-> w]]
         [] ty = 1 ->
              [pos |-> q + bs * bps, s |-> Shl([i \in 1..bs |-> S(b, q + (i - 1) * bps, bps)]), errs |-> hdrErrs,
               info |-> [type |-> "verbatim", order |-> 0, wasted |-> w]]
         [] ty \in 8..12 ->
              LET ord == ty - 8 IN
              IF ord > bs THEN Bad({"fixed order exceeds block size"})
              ELSE LET warm == [i \in 1..ord |-> S(b, q + (i - 1) * bps, bps)]
                       r == Residual(b, q + ord * bps, bs, ord)
                       ok == r.errs \subseteq {"residual is the most negative value"} /\ Len(r.out) = bs - ord
                       pr == IF ok THEN Predict(warm, r.out, FixedC[ord + 1], 0, bps) ELSE [s |-> [i \in 1..bs |-> 0], bad |-> FALSE]
                   IN [pos |-> r.pos, s |-> Shl(pr.s), errs |-> hdrErrs \cup r.errs
                                \cup (IF pr.bad THEN {"sample exceeds subframe depth"} ELSE {}),
                       info |-> [type |-> "fixed", order |-> ord, wasted |-> w, po |-> r.po, method |-> r.method, params |-> r.params]]
         [] ty >= 32 ->
              LET ord == ty - 31 IN
              IF ord > bs THEN Bad({"lpc order exceeds block size"})
              ELSE LET warm == [i \in 1..ord |-> S(b, q + (i - 1) * bps, bps)]
                       q2 == q + ord * bps
                       precc == U(b, q2, 4)
                       prec == precc + 1
                       shift == S(b, q2 + 4, 5)
                       coef == [i \in 1..ord |-> S(b, q2 + 9 + (i - 1) * prec, prec)]
                       r == Residual(b, q2 + 9 + ord * prec, bs, ord)
                       perr == (IF precc = 15 THEN {"reserved coefficient precision"} ELSE {})
                               \cup (IF shift < 0 THEN {"negative lpc shift"} ELSE {})
                       ok == r.errs \subseteq {"residual is the most negative value"} /\ perr = {} /\ Len(r.out) = bs - ord
                       pr == IF ok THEN Predict(warm, r.out, coef, shift, bps) ELSE [s |-> [i \in 1..bs |-> 0], bad |-> FALSE]
                   IN [pos |-> r.pos, s |-> Shl(pr.s), errs |-> hdrErrs \cup perr \cup r.errs
                                \cup (IF pr.bad THEN {"sample exceeds subframe depth"} ELSE {}),
                       info |-> [type |-> "lpc", order |-> ord, wasted |-> w, po |-> r.po, method |-> r.method, params |-> r.params,
                                 precision |-> prec, shift |-> shift, coef |-> coef]]
         [] OTHER -> Bad({"reserved subframe type"})
    IN IF w >= bps0 THEN Bad({})
       ELSE IF bps0 = 33 /\ w = 0 THEN Wide33
       ELSE IF bps0 = 33
       THEN LET nr == Narrow IN
            IF nr.info.type = "invalid" THEN nr
            ELSE [pos |-> nr.pos, s |-> ZeroS, errs |-> nr.errs,
                  info |-> [k \in DOMAIN nr.info \cup {"wide"} |-> IF k = "wide" THEN [i \in 1..bs |-> WShl(WOf(nr.s[i]), w)] ELSE nr.info[k]]]
       ELSE Narrow

-----------------------------------------------------------------------------
(* Frame at byte offset o.  [errs, next, ch, bs, hdr, subs, padOk]          *)
Frame(b, o, si) ==
    LET h == Header(b, o, si)
    IN IF h.errs # {} THEN [errs |-> h.errs, next |-> o + 1, ch |-> <<>>, bs |-> 0, hdr |-> h, subs |-> <<>>, bytes |-> 0]
       ELSE
       LET Sub(a, c) ==
              LET extra == IF (h.chcode = 8 /\ c = 2) \/ (h.chcode = 9 /\ c = 1) \/ (h.chcode = 10 /\ c = 2) THEN 1 ELSE 0
                  sf == Subframe(b, a.pos, h.bs, h.bps + extra)
              IN [pos |-> sf.pos, ch |-> Append(a.ch, sf.s), errs |-> a.errs \cup sf.errs, subs |-> Append(a.subs, sf.info)]
           subs == FoldLeft(Sub, [pos |-> h.body, ch |-> <<>>, errs |-> {}, subs |-> <<>>], [c \in 1..h.nch |-> c])
           endb == (subs.pos + 7) \div 8
           padBits == endb * 8 - subs.pos
           padOk == padBits = 0 \/ U(b, subs.pos, padBits) = 0
           trunc == endb + 2 > Len(b)
           crcok == ~trunc /\ Crc16(b, o, endb) = B(b, endb) * 256 + B(b, endb + 1)
           c1 == subs.ch[1]
           c2 == subs.ch[2]
           sideAt == IF h.chcode = 9 THEN 1 ELSE 2
           \* the forbidden residual value does not stop the arithmetic: decoding goes on with it
           soft == subs.errs \ {"residual is the most negative value"}
           isWide == h.chcode \in 8..10 /\ soft = {} /\ "wide" \in DOMAIN subs.subs[sideAt]
           \* Decorrelation in pair arithmetic throughout (a side channel unrelated to its partner can push the result past 32 bits,
           \* and 32-bit audio has a 33-bit side channel): a result outside 32 bits is reported and zeroed
           decor == h.chcode \in 8..10 /\ soft = {}
           wside == IF isWide THEN subs.subs[sideAt].wide ELSE [i \in 1..h.bs |-> WOf(subs.ch[sideAt][i])]
           wL == [i \in 1..h.bs |-> CASE h.chcode = 8 -> WOf(c1[i])
                                      [] h.chcode = 9 -> WAdd(wside[i], WOf(c2[i]))
                                      [] OTHER -> WAdd(WAdd(WOf(c1[i]), WHalf(wside[i])), <<0, wside[i][2] % 2>>)]
           wR == [i \in 1..h.bs |-> IF h.chcode = 9 THEN WOf(c2[i]) ELSE WSub(wL[i], wside[i])]
           wBad == \E i \in 1..h.bs : ~WFits32(wL[i]) \/ ~WFits32(wR[i])
           dec == IF decor
                  THEN << [i \in 1..h.bs |-> IF WFits32(wL[i]) THEN WInt(wL[i]) ELSE 0],
                          [i \in 1..h.bs |-> IF WFits32(wR[i]) THEN WInt(wR[i]) ELSE 0] >>
                  ELSE subs.ch
           rangeErr == IF soft = {} /\ ((decor /\ wBad) \/ \E c \in 1..Len(dec) : \E i \in 1..h.bs : ~InRange(dec[c][i], h.bps))
                       THEN {"decoded sample exceeds bit depth"} ELSE {}
       IN [errs |-> subs.errs \cup rangeErr \cup (IF trunc THEN {"truncated"} ELSE IF ~crcok THEN {"crc16"} ELSE {})
                    \cup (IF ~padOk THEN {"nonzero padding"} ELSE {}),
           next |-> endb + 2, ch |-> dec, bs |-> h.bs, hdr |-> h, subs |-> subs.subs, bytes |-> endb + 2 - o]

RECURSIVE FramesFromT(_, _, _, _, _)
\* all frames until the data ends or one has an error outside `tolerated`
FramesFromT(b, o, si, acc, tolerated) ==
    IF o >= Len(b) THEN acc
    ELSE LET f == Frame(b, o, si) IN
         IF f.errs \ tolerated # {} THEN Append(acc, f) ELSE FramesFromT(b, f.next, si, Append(acc, f), tolerated)
FramesFrom(b, o, si, acc) == FramesFromT(b, o, si, acc, {})

-----------------------------------------------------------------------------
(* Whole stream                                                             *)
NoSI == [minbs |-> 0, maxbs |-> 0, minfs |-> 0, maxfs |-> 0, rate |-> -1, ch |-> 0, bps |-> 0,
         totalHi |-> 0, totalLo |-> 0, md5 |-> [k \in 1..16 |-> 0]]
\* errors a decoder is not required to report (see MustRejectErrorsOf)
Lenient == {"partition order does not divide the block", "nonzero padding", "subframe padding bit set",
            "sample exceeds subframe depth", "decoded sample exceeds bit depth", "residual is the most negative value"}
ParseStreamT(b, tolerated) ==
    LET m == Meta(b)
        si == IF m.blocks # <<>> /\ m.blocks[1].type = 0 /\ m.blocks[1].len = 34 THEN StreamInfo(b, m.blocks[1].off) ELSE NoSI
        fs == IF m.ok /\ si.bps > 0 THEN FramesFromT(b, m.end, si, <<>>, tolerated) ELSE <<>>
    IN [meta |-> m, si |-> si, frames |-> fs, framesStart |-> m.end]
ParseStream(b) ==
    LET m == Meta(b)
        si == IF m.blocks # <<>> /\ m.blocks[1].type = 0 /\ m.blocks[1].len = 34 THEN StreamInfo(b, m.blocks[1].off) ELSE NoSI
        fs == IF m.ok /\ si.bps > 0 THEN FramesFrom(b, m.end, si, <<>>) ELSE <<>>
    IN [meta |-> m, si |-> si, frames |-> fs, framesStart |-> m.end]

\* interleaved PCM of the decoded frames
InterleaveFrame(f) == LET n == Len(f.ch) IN [k \in 1..(f.bs * n) |-> f.ch[((k - 1) % n) + 1][((k - 1) \div n) + 1]]
Pcm(fs) == FoldLeft(LAMBDA acc, f : acc \o InterleaveFrame(f), <<>>, fs)

\* little-endian sign-extended bytes of a sample sequence at ceil(bps/8) bytes (the MD5 input)
SampleBytes(v, w) == [k \in 1..w |-> (v \div (P2(8 * (k - 1)))) % 256]
PcmBytes(pcm, bps) == LET w == (bps + 7) \div 8 IN
                      FoldLeft(LAMBDA acc, v : acc \o SampleBytes(v, w), <<>>, pcm)

(* The MUST rules of a complete fixed-block-size stream as produced by an    *)
(* encoder (C02).  Returns the set of violated rules (empty = valid).        *)
StreamErrorsOf(b, st) ==
    LET fs == st.frames
        n == Len(fs)
        si == st.si
        frameErrs == UNION {{<<i, e>> : e \in fs[i].errs} : i \in 1..n}
        good == frameErrs = {}
        sizes == {fs[i].bytes : i \in 1..n}
        total == FoldLeft(LAMBDA a, f : a + f.bs, 0, fs)
    IN (IF ~HasTag(b) THEN {"no fLaC tag"} ELSE {})
       \cup (IF ~st.meta.ok THEN {"metadata truncated"} ELSE {})
       \cup (IF si.bps = 0 THEN {"no STREAMINFO first"} ELSE {})
       \cup frameErrs
       \cup (IF good /\ n = 0 THEN {"no frames"} ELSE {})
       \cup (IF good /\ n > 0 THEN
               (IF \E i \in 1..n : fs[i].hdr.variable THEN {"variable blocking flag"} ELSE {})
               \cup (IF \E i \in 1..n : fs[i].hdr.num.big \/ fs[i].hdr.num.val # i - 1 THEN {"frame numbers not consecutive from 0"} ELSE {})
               \cup (IF \E i \in 1..(n - 1) : fs[i].bs # si.maxbs THEN {"non-final block differs from advertised block size"} ELSE {})
               \cup (IF fs[n].bs > si.maxbs THEN {"final block larger than advertised"} ELSE {})
               \cup (IF si.minbs # si.maxbs THEN {"min/max block size differ in a fixed-size stream"} ELSE {})
               \cup (IF \E i \in 1..n : fs[i].hdr.nch # si.ch \/ fs[i].hdr.bps # si.bps \/ fs[i].hdr.rate # si.rate
                     THEN {"frame header disagrees with STREAMINFO"} ELSE {})
               \cup (IF TotalOf(si) # total THEN {"STREAMINFO total samples"} ELSE {})
               \cup (IF si.minfs # 0 /\ si.minfs # (CHOOSE x \in sizes : \A y \in sizes : x <= y) THEN {"STREAMINFO min frame size"} ELSE {})
               \cup (IF si.maxfs # 0 /\ si.maxfs # (CHOOSE x \in sizes : \A y \in sizes : x >= y) THEN {"STREAMINFO max frame size"} ELSE {})
             ELSE {})
StreamErrors(b) == StreamErrorsOf(b, ParseStream(b))

(* What a decoder must refuse (C05): grammar / checksum errors in any frame, frames that   *)
(* disagree with STREAMINFO, blocks larger than advertised, and - when the total is known - *)
(* a sample count different from it.  (Frame numbering, frame-size extrema, the blocking    *)
(* flag and a partition order that does not divide the block are NOT in this set: RFC 9639  *)
(* decoders, the reference one included, do not check them.)                                *)
\* With a known total T a decoder may stop as soon as it has delivered T samples: when some prefix of the frames holds exactly T
\* samples, whatever follows it (further frames, damaged or not) is beyond the stream and need not be looked at.
FramesWithinTotal(st) ==
    LET fs == st.frames
        n == Len(fs)
        si == st.si
        known == si.totalHi # 0 \/ si.totalLo # 0
        RECURSIVE Cum(_)
        Cum(i) == IF i = 0 THEN 0 ELSE Cum(i - 1) + fs[i].bs
        K == {i \in 0..n : Cum(i) = TotalOf(si)}
    IN IF known /\ K # {} THEN CHOOSE i \in K : \A j \in K : i <= j ELSE n
MustRejectErrorsOf(b, st) ==
    LET n == FramesWithinTotal(st)
        fs == SubSeq(st.frames, 1, n)
        si == st.si
        frameErrs == UNION {{<<i, e>> : e \in fs[i].errs \ Lenient} : i \in 1..n}
        total == FoldLeft(LAMBDA a, f : a + f.bs, 0, fs)
        known == si.totalHi # 0 \/ si.totalLo # 0
    IN (IF ~HasTag(b) THEN {"no fLaC tag"} ELSE {})
       \cup (IF ~st.meta.ok THEN {"metadata truncated"} ELSE {})
       \cup (IF si.bps = 0 THEN {"no STREAMINFO first"} ELSE {})
       \cup frameErrs
       \cup (IF frameErrs = {} /\ n > 0 THEN
               (IF \E i \in 1..n : fs[i].bs > si.maxbs THEN {"block larger than advertised"} ELSE {})
               \cup (IF \E i \in 1..n : fs[i].hdr.nch # si.ch \/ fs[i].hdr.bps # si.bps \/ fs[i].hdr.rate # si.rate
                     THEN {"frame header disagrees with STREAMINFO"} ELSE {})
               \cup (IF known /\ TotalOf(si) # total THEN {"STREAMINFO total samples"} ELSE {})
               \* the smallest legal block is 16 samples; only the block that completes a declared total may be shorter (the decoder
               \* draws the line at 14, and so does this rule; without a declared total no frame is known to be the last)
               \cup (IF known /\ \E i \in 1..(n - 1) : fs[i].bs <= 14 THEN {"short block before the last"} ELSE {})
             ELSE {})
       \cup (IF frameErrs = {} /\ n = 0 /\ known /\ Len(st.frames) = 0 THEN {"STREAMINFO total samples"} ELSE {})
=======================================================================
