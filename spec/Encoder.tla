--------------------------- MODULE Encoder ---------------------------
(***************************************************************************)
(* (B)-level model of Encoder::new / encode / finalize_inner               *)
(* (src/encode.rs): provisional metadata, one seek point per frame, frame  *)
(* size extrema, and the three SEEKTABLE layout cases at finalize          *)
(* (Refill a pre-reserved table, Carve one out of PADDING, NoRoom).        *)
(* Frame sizes are nondeterministic.  C09's statements are invariants of   *)
(* the finalized state; the header rewrite must keep the metadata region   *)
(* exactly as long as first written (it is rewritten in place in front of  *)
(* the audio).                                                             *)
(***************************************************************************)
EXTENDS Integers, Sequences, FiniteSets, TLC

CONSTANTS BS,           \* block size (PCM frames)
          MaxFrames,    \* bound on the number of frames
          FrameBytes,   \* set of possible frame sizes in bytes
          DeclaredSet,  \* each -1 or a declared total (PCM frames)
          IntervalSet,  \* each <<"off", 0>> | <<"frames", n>> | <<"samples", n>>  (seconds * rate)
          PaddingSet,   \* each -1 = no PADDING block, else its size
          ExtraSet,     \* each the total size (with headers) of other user blocks
          MaxPoints,    \* SeekTable::MAX_POINTS (small in the model)
          Defects       \* {"carve_unwrap"}: the pinned tree panics when > MaxPoints points are carved

SI == 4 + 34
TableBytes(n) == 4 + 18 * n

VARIABLES frames,      \* <<[first, off, len, bytes]>> as encoded so far
          table,       \* [present, pts]: the SEEKTABLE block; a point is a frame record or the placeholder PH
          pad,         \* current PADDING size or -1
          metaLen0,    \* metadata length as first written
          status,      \* "open" | "ok" | "err" | "panic"
          si,          \* STREAMINFO as rewritten: [total, minfs, maxfs]
          cfg          \* the configuration (never changes): one TLC run covers the whole grid
vars == <<frames, table, pad, metaLen0, status, si, cfg>>

Declared == cfg.declared
Interval == cfg.interval
Padding == cfg.padding
ExtraBytes == cfg.extra

Min2(a, b) == IF a < b THEN a ELSE b
PH == [first |-> -1, off |-> 0, len |-> 0, bytes |-> 0]
NoTable == [present |-> FALSE, pts |-> <<>>]
Tab(pts) == [present |-> TRUE, pts |-> pts]
MetaLen(tb, pd) == 4 + SI + ExtraBytes + (IF ~tb.present THEN 0 ELSE TableBytes(Len(tb.pts))) + (IF pd = -1 THEN 0 ELSE 4 + pd)

(* SeekTableInterval::filter, as the code does it: a sequential scan       *)
RECURSIVE FilterSamples(_, _, _)
FilterSamples(fs, step, offset) ==
    IF fs = <<>> THEN <<>>
    ELSE LET f == Head(fs) IN
         IF f.first <= offset /\ offset < f.first + f.len
         THEN <<f>> \o FilterSamples(Tail(fs), step, offset + step)
         ELSE FilterSamples(Tail(fs), step, offset)
FilterFrames(fs, n) == [k \in 1..((Len(fs) + n - 1) \div n) |-> fs[(k - 1) * n + 1]]
Filter(fs) ==
    CASE Interval[1] = "frames" -> FilterFrames(fs, Interval[2])
      [] Interval[1] = "samples" -> FilterSamples(fs, Interval[2], 0)
      [] OTHER -> <<>>
Take(sq, n) == SubSeq(sq, 1, Min2(n, Len(sq)))

(* placeholders(total, block_size): the frames the encoder expects         *)
Expected(totalF) ==
    [k \in 1..((totalF + BS - 1) \div BS) |->
        [first |-> (k - 1) * BS, len |-> Min2(BS, totalF - (k - 1) * BS), off |-> 0, bytes |-> 0]]

Init ==
    /\ cfg \in [declared : DeclaredSet, interval : IntervalSet, padding : PaddingSet, extra : ExtraSet]
    /\ frames = <<>>
    /\ pad = Padding
    /\ table = IF Declared # -1 /\ Interval[1] # "off"
               THEN Tab([i \in 1..Len(Take(Filter(Expected(Declared)), MaxPoints)) |-> PH])
               ELSE NoTable
    /\ metaLen0 = MetaLen(table, pad)
    /\ status = "open"
    /\ si = [total |-> -1, minfs |-> 0, maxfs |-> 0]

Written == IF frames = <<>> THEN 0 ELSE frames[Len(frames)].first + frames[Len(frames)].len
BytesSoFar == IF frames = <<>> THEN 0 ELSE frames[Len(frames)].off + frames[Len(frames)].bytes

(* Encoder::encode: full blocks, then at most one short final block        *)
Encode(len, bytes) ==
    /\ status = "open" /\ Len(frames) < MaxFrames
    /\ (frames # <<>> => frames[Len(frames)].len = BS)      \* a short block is the last one
    /\ frames' = Append(frames, [first |-> Written, off |-> BytesSoFar, len |-> len, bytes |-> bytes])
    /\ UNCHANGED <<table, pad, metaLen0, status, si, cfg>>

SizeSet == {frames[i].bytes : i \in 1..Len(frames)}
MinOf(S) == CHOOSE x \in S : \A y \in S : x <= y
MaxOf(S) == CHOOSE x \in S : \A y \in S : x >= y

Finish(tb, pd) ==       \* length check, then the header rewrite
    IF (Declared # -1 /\ Written # Declared) \/ (Declared = -1 /\ Written = 0)
    THEN status' = "err" /\ UNCHANGED <<table, pad, si>>
    ELSE /\ status' = "ok" /\ table' = tb /\ pad' = pd
         /\ si' = [total |-> Written, minfs |-> MinOf(SizeSet), maxfs |-> MaxOf(SizeSet)]

Finalize ==
    /\ status = "open"
    /\ UNCHANGED <<frames, metaLen0, cfg>>
    /\ LET pts == Filter(frames) IN
       IF Interval[1] = "off" THEN Finish(table, pad)
       ELSE IF table.present
            THEN \* Refill: same number of points as reserved, real points first
                 Finish(Tab([i \in 1..Len(table.pts) |-> IF i <= Len(pts) THEN pts[i] ELSE PH]), pad)
            ELSE IF pad # -1
                 THEN \* Carve
                      IF Len(pts) > MaxPoints /\ "carve_unwrap" \in Defects
                      THEN status' = "panic" /\ UNCHANGED <<table, pad, si>>
                      ELSE LET tb == Take(pts, MaxPoints) IN
                           IF pad >= TableBytes(Len(tb)) THEN Finish(Tab(tb), pad - TableBytes(Len(tb)))
                           ELSE Finish(NoTable, pad)            \* NoRoom
                 ELSE Finish(NoTable, -1)

Next == (\E len \in 1..BS, b \in FrameBytes : Encode(len, b)) \/ Finalize
Spec == Init /\ [][Next]_vars

-----------------------------------------------------------------------------
(* C09                                                                      *)
Defined(p) == p # PH
Truthful ==
    status = "ok" =>
       /\ si.total = Written
       /\ si.minfs = MinOf(SizeSet) /\ si.maxfs = MaxOf(SizeSet)
       /\ \A i \in 1..(Len(frames) - 1) : frames[i].len = BS
       /\ frames[Len(frames)].len <= BS
       /\ table.present =>
            /\ \A k \in 1..Len(table.pts) : Defined(table.pts[k]) => \E i \in 1..Len(frames) : table.pts[k] = frames[i]
            /\ \A j, k \in 1..Len(table.pts) :
                  (j < k /\ Defined(table.pts[k])) => (Defined(table.pts[j]) /\ table.pts[j].first < table.pts[k].first)
\* the rewrite neither moves nor overwrites audio: the metadata region keeps its length
HeaderRewriteIsNeutral == status = "ok" => MetaLen(table, pad) = metaLen0
NoPanic == status # "panic"
\* regenerating the table from the finished file gives the same defined points
Regenerates ==
    (status = "ok" /\ table.present) =>
        LET def == SelectSeq(table.pts, Defined) IN def = Take(Filter(frames), Len(def))
=======================================================================
