--------------------------- MODULE CueText ---------------------------
(***************************************************************************)
(* C20 (A level): what importing a well-formed cue sheet text must yield.  *)
(* An abstract sheet: 1..MaxTracks tracks, each with an optional pre-gap   *)
(* index 00, index 01 and up to MaxExtra further indices; absolute index   *)
(* positions (in CD sectors of 588 samples) strictly increase from 0, the  *)
(* gaps between consecutive positions being drawn from Gaps; optional      *)
(* CATALOG (13 digits), per-track ISRC and FLAGS PRE.                      *)
(* Expected(sheet) is the block the text describes; how the text is        *)
(* spelled (indentation, quoting, TRACK 1 vs 01, REM / TITLE lines, CRLF)  *)
(* must not matter.                                                        *)
(***************************************************************************)
EXTENDS Integers, Sequences, TLC, Json

CONSTANTS MaxTracks, MaxExtra, Gaps, TailSectors

TrackShapes == [pregap : BOOLEAN, extra : 0..MaxExtra, pre : BOOLEAN, isrc : BOOLEAN]
VARIABLE sheet
Init == \E n \in 1..MaxTracks :
           sheet \in [tracks : [1..n -> TrackShapes], catalog : BOOLEAN, gapmode : 1..Len(Gaps)]
Next == UNCHANGED sheet
Spec == Init /\ [][Next]_sheet

NIdx(t) == (IF t.pregap THEN 1 ELSE 0) + 1 + t.extra
RECURSIVE Before(_, _)
Before(s, k) == IF k = 1 THEN 0 ELSE Before(s, k - 1) + NIdx(s.tracks[k - 1])     \* indices before track k
\* absolute position (sectors) of the j-th index overall (1-based): cumulative gaps, rotating through Gaps[gapmode]
RECURSIVE Pos(_, _)
Pos(s, j) == IF j = 1 THEN 0 ELSE Pos(s, j - 1) + Gaps[s.gapmode][((j - 2) % Len(Gaps[s.gapmode])) + 1]
TotalIdx(s) == Before(s, Len(s.tracks) + 1)
LeadOutSectors(s) == Pos(s, TotalIdx(s)) + TailSectors

(* the text, as a sequence of abstract lines *)
Lines(s) ==
    LET T(k) == LET t == s.tracks[k]
                    first == IF t.pregap THEN 0 ELSE 1
                IN <<[kind |-> "TRACK", n |-> k]>>
                   \o (IF t.isrc THEN <<[kind |-> "ISRC", n |-> k]>> ELSE <<>>)
                   \o (IF t.pre THEN <<[kind |-> "FLAGS"]>> ELSE <<>>)
                   \o [i \in 1..NIdx(t) |-> [kind |-> "INDEX", n |-> first + i - 1, sectors |-> Pos(s, Before(s, k) + i)]]
        RECURSIVE All(_)
        All(k) == IF k > Len(s.tracks) THEN <<>> ELSE T(k) \o All(k + 1)
    IN (IF s.catalog THEN <<[kind |-> "CATALOG"]>> ELSE <<>>) \o All(1)

(* the block the text describes: offsets in samples *)
Expected(s) ==
    [ catalog |-> s.catalog,
      leadout |-> LeadOutSectors(s),                           \* in sectors (x 588 = samples)
      tracks |-> [k \in 1..Len(s.tracks) |->
                    LET t == s.tracks[k]
                        first == IF t.pregap THEN 0 ELSE 1
                        base == Pos(s, Before(s, k) + 1)
                    IN [number |-> k, offset |-> base, pre |-> t.pre, isrc |-> t.isrc,
                        index |-> [i \in 1..NIdx(t) |-> <<first + i - 1, Pos(s, Before(s, k) + i) - base>>]]],
      \* track ranges: from each track's index 01 to the next track's index 01, the last one to the lead-out
      ranges |-> [k \in 1..Len(s.tracks) |->
                    LET I01(q) == Pos(s, Before(s, q) + (IF s.tracks[q].pregap THEN 2 ELSE 1))
                    IN <<I01(k), IF k < Len(s.tracks) THEN I01(k + 1) ELSE LeadOutSectors(s)>>] ]

Emit == PrintT(<<"GEN", ToJson([lines |-> Lines(sheet), expected |-> Expected(sheet)])>>)
\* sanity of the specification itself
WellFormed == \A j \in 2..TotalIdx(sheet) : Pos(sheet, j) > Pos(sheet, j - 1)
=======================================================================
