--------------------------- MODULE Trace_Format ---------------------------
(* C02 (and the decoder half of C01): every finished file is parsed, validated *)
(* and decoded by the FlacFormat model - no crate decoder involved - and the   *)
(* result compared with the PCM that was written; the STREAMINFO MD5 is        *)
(* recomputed with the TLA+ MD5 module.                                        *)
EXTENDS FlacFormat, Json, IOUtils
M == INSTANCE MD5
Rec == ndJsonDeserialize(IOEnv.TRACE)
VARIABLES l, nfiles
tvars == <<l, nfiles>>

Judge(e) ==
    LET st == ParseStream(e.bytes)
        errs == StreamErrorsOf(e.bytes, st)
        good == errs = {}
        pcm == IF good THEN Pcm(st.frames) ELSE <<>>
        kinds == IF good THEN UNION {{<<st.frames[i].subs[c].type, st.frames[i].hdr.chcode>> : c \in 1..Len(st.frames[i].subs)} : i \in 1..Len(st.frames)}
                 ELSE {}
    IN /\ IF good THEN TRUE ELSE PrintT(<<"REJECT", e.run, l, "C02.valid-stream", errs>>)
       /\ IF good /\ (st.si.ch # e.channels \/ st.si.bps # e.bps \/ st.si.rate # e.rate)
          THEN PrintT(<<"REJECT", e.run, l, "C02.parameters", <<st.si.ch, st.si.bps, st.si.rate>> >>) ELSE TRUE
       /\ IF good /\ pcm # e.pcm THEN PrintT(<<"REJECT", e.run, l, "C02.independent-decode-equals-input", Len(pcm), Len(e.pcm)>>) ELSE TRUE
       /\ IF good /\ M!Digest(PcmBytes(pcm, st.si.bps)) # st.si.md5 THEN PrintT(<<"REJECT", e.run, l, "C02.md5", 0>>) ELSE TRUE
       /\ PrintT(<<"STAT", e.run, Len(st.frames), kinds>>)

Init == l = 1 /\ nfiles = 0
Next == /\ l <= Len(Rec) /\ l' = l + 1
        /\ LET e == Rec[l] IN
           IF e.ev = "encoded" THEN Judge(e) /\ nfiles' = nfiles + 1 ELSE UNCHANGED nfiles
Spec == Init /\ [][Next]_tvars
Post == IF TLCGet("stats").diameter - 1 = Len(Rec) THEN PrintT(<<"TRACE-DONE", Len(Rec)>>)
        ELSE PrintT(<<"TRACE-INCOMPLETE", TLCGet("stats").diameter, Len(Rec)>>)
=======================================================================
