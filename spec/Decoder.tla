--------------------------- MODULE Decoder ---------------------------
(***************************************************************************)
(* (B) Decoder::read_frame as a gate sequence over abstract frames (C05):  *)
(* header parse (sync, reserved codes, CRC-8), consistency with            *)
(* STREAMINFO, the short-block and total-length rules, subframe parse,     *)
(* CRC-16 - and only then are the samples released.  An environment action *)
(* damages one frame.  `delivered` must always be a prefix of the          *)
(* undamaged frames, and a damaged stream must end in an error.            *)
(***************************************************************************)
EXTENDS Integers, Sequences, TLC
CONSTANTS NFrames, Damages, Defects
\* Damages: subset of {"header", "crc8", "inconsistent", "body", "crc16", "cut"}
VARIABLES frames,      \* per frame: "good" or the damage it suffered
          next, delivered, status
vars == <<frames, next, delivered, status>>

Init == /\ frames \in [1..NFrames -> {"good"} \cup Damages]
        /\ \A i, j \in 1..NFrames : (frames[i] # "good" /\ frames[j] # "good") => i = j       \* at most one damaged frame
        /\ next = 1 /\ delivered = <<>> /\ status = "run"

ReadFrame ==
    /\ status = "run"
    /\ IF next > NFrames THEN status' = "eos" /\ UNCHANGED <<next, delivered>>
       ELSE LET d == frames[next] IN
            IF d = "good" THEN delivered' = Append(delivered, next) /\ next' = next + 1 /\ UNCHANGED status
            ELSE IF d = "crc16" /\ "release_before_crc16" \in Defects
                 THEN delivered' = Append(delivered, -next) /\ status' = "err" /\ UNCHANGED next      \* garbage handed out
                 ELSE status' = "err" /\ UNCHANGED <<next, delivered>>
    /\ UNCHANGED frames
Next == ReadFrame
Spec == Init /\ [][Next]_vars

GenuinePrefix == \A i \in 1..Len(delivered) : delivered[i] = i /\ frames[i] = "good"
DamageIsReported == (status = "eos") => \A i \in 1..NFrames : frames[i] = "good"
=======================================================================
