SPECIFICATION Spec
POSTCONDITION Post
CHECK_DEADLOCK FALSE
