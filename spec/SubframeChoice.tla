--------------------------- MODULE SubframeChoice ---------------------------
(***************************************************************************)
(* C19: the subframe selection of encode_subframe (src/encode.rs) as a     *)
(* pure function of the candidates' RECORDED sizes (not their estimates):  *)
(* constant when every sample is zero; otherwise the smaller of the fixed  *)
(* and LPC candidates that could be written, and verbatim whenever that is *)
(* not strictly smaller than the verbatim payload or nothing could be      *)
(* written.  Sizes are in bits and include the 8-bit subframe header.      *)
(***************************************************************************)
EXTENDS Integers, TLC
CONSTANTS N, Bps, MaxBits, Defects          \* samples per block, subframe depth, candidate size range

Fail == -1
Verbatim(w) == 8 + w + N * (Bps - w)        \* w wasted bits: unary-coded count, narrower samples
Chosen(allZero, w, fixed, lpc) ==
    IF allZero THEN 8 + Bps
    ELSE LET best == IF fixed = Fail THEN lpc ELSE IF lpc = Fail THEN fixed ELSE IF lpc < fixed THEN lpc ELSE fixed
             payload == N * (Bps - w)
         IN IF best = Fail THEN Verbatim(w)
            ELSE IF "no_verbatim_fallback" \in Defects THEN best
            ELSE IF best < payload THEN best ELSE Verbatim(w)

Bound == 8 + 32 + N * Bps                    \* verbatim at the declared depth + header allowance
NeverExpands ==
    \A z \in BOOLEAN, w \in 0..(Bps - 1), f \in {Fail} \cup (9..MaxBits), p \in {Fail} \cup (9..MaxBits) :
        Chosen(z, w, f, p) <= Bound
ConstantIsTiny == \A w \in 0..(Bps - 1) : Chosen(TRUE, w, Fail, Fail) <= 8 + 33
=======================================================================
