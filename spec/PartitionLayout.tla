--------------------------- MODULE PartitionLayout ---------------------------
(***************************************************************************)
(* (B, pure) The residual partition layouts: what the encoder's            *)
(* best_partitions may choose (src/encode.rs) versus what the streaming    *)
(* decoder (src/decode.rs read_block), the structural parser               *)
(* (src/stream.rs) and RFC 9639 derive from (block size, partition order,  *)
(* predictor order).  C01 / C02 / C04 / C17 all hinge on these agreeing.   *)
(* `Defects` re-enables the pinned tree's behaviours.                      *)
(***************************************************************************)
EXTENDS Integers, Sequences, SequencesExt, FiniteSets, TLC

CONSTANTS MaxBs, MaxOrder, MaxPoOpt, MaxPartitions, Defects,
          BigBs       \* further block sizes beyond 1..MaxBs (the sizes at which partition orders 9..15 are legal)

BlockSizes == (1..MaxBs) \cup BigBs

Min2(a, b) == IF a < b THEN a ELSE b
IsPow2(n) == n > 0 /\ \E k \in 0..16 : n = 2^k
Log2(n) == CHOOSE k \in 0..16 : n = 2^k
RECURSIVE TZ(_)
TZ(n) == IF n % 2 = 1 THEN 0 ELSE 1 + TZ(n \div 2)

(* lengths produced by residuals.rchunks(size).rev() on n residuals        *)
Chunks(n, size) ==
    IF n = 0 THEN <<>>
    ELSE IF n % size = 0 THEN [i \in 1..(n \div size) |-> size]
    ELSE <<n % size>> \o [i \in 1..(n \div size) |-> size]

(* best_partitions: one candidate per partition order po (2^po chunks wanted): the      *)
(* residuals are split with rchunks(bs / 2^po); the candidate is kept iff it is          *)
(* non-empty and - in the repaired code - has exactly 2^po chunks (the pinned tree only   *)
(* asked for a power-of-two NUMBER of chunks and wrote log2 of that number as the order)  *)
EncOrders(bs, maxpo) ==
    0..Min2(Min2(TZ(bs), maxpo), IF "no_partition_cap" \in Defects THEN 15 ELSE Log2(MaxPartitions))
EncCandidates(bs, order, maxpo) ==
    { c \in { Chunks(bs - order, bs \div (2^po)) : po \in EncOrders(bs, maxpo) } :
        /\ c # <<>> /\ IsPow2(Len(c)) /\ Len(c) <= MaxPartitions
        /\ ("count_not_checked" \in Defects \/ \E po \in EncOrders(bs, maxpo) : Len(c) = 2^po /\ c = Chunks(bs - order, bs \div (2^po))) }
\* with the defect the candidate list itself overflows its fixed capacity (a panic)
EncPanics(bs, order, maxpo) ==
    "no_partition_cap" \in Defects /\ \E po \in EncOrders(bs, maxpo) : Len(Chunks(bs - order, bs \div (2^po))) > MaxPartitions

(* the layout a decoder derives                                            *)
RfcLayout(bs, po, order) ==
    IF bs % (2^po) # 0 \/ (bs \div (2^po)) < order THEN <<>>      \* invalid
    ELSE [i \in 1..(2^po) |-> IF i = 1 THEN (bs \div (2^po)) - order ELSE bs \div (2^po)]
\* read_block: rchunks_mut(block_size / partition_count) must yield exactly partition_count chunks
DecLayout(bs, po, order) ==
    LET size == bs \div (2^po) IN
    IF size = 0 THEN (IF "dec_zero_chunk" \in Defects THEN <<-1>> ELSE <<>>)      \* <<-1>> = panic
    ELSE LET c == Chunks(bs - order, size) IN IF Len(c) = 2^po THEN c ELSE <<>>

\* every encoder candidate is a layout the decoders and the RFC derive
Agree ==
    \A bs \in BlockSizes, order \in 0..MaxOrder, maxpo \in 0..MaxPoOpt :
        order < bs =>
           /\ ~EncPanics(bs, order, maxpo)
           /\ \A c \in EncCandidates(bs, order, maxpo) :
                LET po == Log2(Len(c)) IN c = DecLayout(bs, po, order) /\ c = RfcLayout(bs, po, order)
\* the decoder never panics, and a layout it accepts has exactly 2^po parts covering the block
SumSeq(q) == FoldLeft(LAMBDA a, b : a + b, 0, q)
DecoderSound ==
    \A bs \in BlockSizes, order \in 0..MaxOrder, po \in 0..15 :
        order <= bs =>
           LET d == DecLayout(bs, po, order) IN
           /\ d # <<-1>>
           /\ d # <<>> => (Len(d) = 2^po /\ SumSeq(d) = bs - order)
\* is every layout the decoder accepts one the RFC allows?  (It is not: when 2^po does not
\* divide the block size but divides block size - order the decoder accepts, e.g. bs = 7,
\* po = 1, order = 1.  Evaluated and reported as a note; C05 judges the real decoder.)
DecoderStrict ==
    \A bs \in BlockSizes, order \in 0..MaxOrder, po \in 0..15 :
        (order <= bs /\ DecLayout(bs, po, order) \notin {<<>>, <<-1>>}) => DecLayout(bs, po, order) = RfcLayout(bs, po, order)
=======================================================================
