--------------------------- MODULE Gen_Stream ---------------------------
(* Turns stream plans (one JSON object per line in IOEnv.PLANS) into FLAC     *)
(* byte streams with FlacGen and cross-checks each valid one against          *)
(* FlacFormat: Decode(Parse(Serialize(plan))) = target PCM, no grammar error. *)
EXTENDS FlacGen, Json, IOUtils
Plans == ndJsonDeserialize(IOEnv.PLANS)
VARIABLE l
Init == l = 1
Emit(p) ==
    LET s == SerializeStream(p)
        chk == IF s.ok /\ Get(p, "selfcheck", TRUE)
               THEN LET st == ParseStream(s.bytes)
                        ferrs == UNION {st.frames[i].errs : i \in 1..Len(st.frames)}
                    IN [errs |-> ferrs, same |-> Len(st.frames) = Len(p.frames) /\ Pcm(st.frames) = s.pcm]
               ELSE [errs |-> {}, same |-> TRUE]
    IN PrintT(<<"GEN", ToJson([id |-> p.id, ok |-> s.ok, bytes |-> s.bytes, pcm |-> s.pcm, metaLen |-> s.metaLen,
                               frameLens |-> [i \in 1..Len(s.frames) |-> Len(s.frames[i])],
                               selfErrs |-> chk.errs, selfSame |-> chk.same])>>)
Next == l <= Len(Plans) /\ l' = l + 1 /\ Emit(Plans[l])
Spec == Init /\ [][Next]_l
Post == IF TLCGet("stats").diameter - 1 = Len(Plans) THEN PrintT(<<"TRACE-DONE", Len(Plans)>>)
        ELSE PrintT(<<"TRACE-INCOMPLETE", TLCGet("stats").diameter, Len(Plans)>>)
=======================================================================
