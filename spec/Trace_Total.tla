--------------------------- MODULE Trace_Total ---------------------------
(* C12: every parser / accessor call ends in a value or an error - a panic has  *)
(* no action - within the allocation bound; C11's converse direction: bytes the *)
(* reader accepts can be written again and re-read to an equal list.            *)
EXTENDS Integers, Sequences, TLC, Json, IOUtils
Rec == ndJsonDeserialize(IOEnv.TRACE)
Prop == IOEnv.PROP
VARIABLE l
Prefix(s, p) == Len(s) >= Len(p) /\ SubSeq(s, 1, Len(p)) = p
Judge(e) ==
    /\ IF Prop = "C12" /\ e.ret \notin {"ok", "err"} THEN PrintT(<<"REJECT", e.id, l, "C12.total", e.kind, e.class, e.msg>>) ELSE TRUE
    /\ IF Prop = "C12" /\ e.peak_kib > 16384 + (64 * e.input_len) \div 1024 THEN PrintT(<<"REJECT", e.id, l, "C12.bounded-allocation", e.kind, e.class, e.peak_kib>>) ELSE TRUE
    /\ IF Prop = "C11" /\ e.kind = "blocks" /\ e.ret = "err" /\ e.rewrite_failed
       THEN PrintT(<<"REJECT", e.id, l, "C11.accepted-bytes-rewrite-and-reread-equal", e.kind, e.class, e.msg>>) ELSE TRUE
    /\ IF Prop = "C11" /\ e.kind = "blocks" /\ "entry_points_disagree" \in DOMAIN e /\ e.entry_points_disagree
       THEN PrintT(<<"REJECT", e.id, l, "C11.reading-entry-points-agree", e.kind, e.class, e.msg>>) ELSE TRUE
    /\ IF Prop = "C11" /\ e.kind = "blocks" /\ e.expect_valid /\ e.ret # "ok"
       THEN PrintT(<<"REJECT", e.id, l, "C11.reader-accepts-valid-encoding", e.kind, e.class, e.msg>>) ELSE TRUE
Init == l = 1
Next == l <= Len(Rec) /\ l' = l + 1 /\ (IF Rec[l].ev = "total" THEN Judge(Rec[l]) ELSE TRUE)
Spec == Init /\ [][Next]_l
Post == IF TLCGet("stats").diameter - 1 = Len(Rec) THEN PrintT(<<"TRACE-DONE", Len(Rec)>>)
        ELSE PrintT(<<"TRACE-INCOMPLETE", TLCGet("stats").diameter, Len(Rec)>>)
=======================================================================
