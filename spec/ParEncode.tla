--------------------------- MODULE ParEncode ---------------------------
(***************************************************************************)
(* C18: the fork/join structure of encode_frame with the rayon feature     *)
(* (src/encode.rs): exhaustive stereo = try_join(left, right) then         *)
(* try_join(average, difference); every subframe task is itself            *)
(* join(fixed, lpc); each leaf task works in ITS OWN cache cell and        *)
(* recorder, results are placed by slot and the winner is the first        *)
(* minimum in a fixed order.  TLC explores every interleaving of the leaf  *)
(* tasks' steps and checks (i) no two concurrently running tasks touch     *)
(* the same cell, (ii) the output equals the serial order's output.        *)
(* Defects: "aliased_cache" makes left and right share the fixed cell;     *)
(* "completion_order" collects results in completion order.                *)
(***************************************************************************)
EXTENDS Integers, Sequences, FiniteSets, TLC
CONSTANTS Defects

Sub == {"L", "R", "M", "S"}
Leaf == {<<x, k>> : x \in Sub, k \in {"fixed", "lpc"}}
Phase(x) == IF x \in {"L", "R"} THEN 1 ELSE 2
Cell(t) == IF "aliased_cache" \in Defects /\ t = <<"R", "fixed">> THEN <<"L", "fixed">> ELSE t
\* an uninterpreted, deterministic cost per task (what the recorder would hold)
Cost(t) == CASE t = <<"L", "fixed">> -> 5 [] t = <<"L", "lpc">> -> 4 [] t = <<"R", "fixed">> -> 4 [] t = <<"R", "lpc">> -> 6
             [] t = <<"M", "fixed">> -> 3 [] t = <<"M", "lpc">> -> 3 [] t = <<"S", "fixed">> -> 2 [] OTHER -> 7

VARIABLES pc,        \* per leaf: "idle" | "w1" | "w2" | "done"
          cell,      \* cache cell -> <<owner, stage>>
          result,    \* leaf -> cost it recorded, or -1 when its cell was trampled
          order,     \* completion order of the leaves
          phase      \* 1, 2, 3 (= joined)
vars == <<pc, cell, result, order, phase>>

Init == /\ pc = [t \in Leaf |-> "idle"] /\ cell = [t \in Leaf |-> <<"none", 0>>]
        /\ result = [t \in Leaf |-> 0] /\ order = <<>> /\ phase = 1

Start(t) == /\ pc[t] = "idle" /\ Phase(t[1]) = phase
            /\ pc' = [pc EXCEPT ![t] = "w1"] /\ cell' = [cell EXCEPT ![Cell(t)] = <<t, 1>>]
            /\ UNCHANGED <<result, order, phase>>
Work(t) == /\ pc[t] = "w1"
           /\ pc' = [pc EXCEPT ![t] = "w2"]
           /\ cell' = [cell EXCEPT ![Cell(t)] = IF @ = <<t, 1>> THEN <<t, 2>> ELSE <<"trampled", 0>>]
           /\ UNCHANGED <<result, order, phase>>
Finish(t) == /\ pc[t] = "w2"
             /\ pc' = [pc EXCEPT ![t] = "done"]
             /\ result' = [result EXCEPT ![t] = IF cell[Cell(t)] = <<t, 2>> THEN Cost(t) ELSE -1]
             /\ order' = Append(order, t)
             /\ UNCHANGED <<cell, phase>>
Join == /\ phase \in {1, 2} /\ \A t \in Leaf : Phase(t[1]) = phase => pc[t] = "done"
        /\ phase' = phase + 1 /\ UNCHANGED <<pc, cell, result, order>>
Next == (\E t \in Leaf : Start(t) \/ Work(t) \/ Finish(t)) \/ Join
Spec == Init /\ [][Next]_vars

(* the subframe chosen for x: the smaller of fixed / lpc, fixed on ties (first minimum in slot order) *)
BestBySlot(x) == IF result[<<x, "lpc">>] < result[<<x, "fixed">>] THEN result[<<x, "lpc">>] ELSE result[<<x, "fixed">>]
BestByCompletion(x) ==      \* the defect: first finished wins ties
    LET f == CHOOSE i \in 1..Len(order) : order[i] = <<x, "fixed">>
        l == CHOOSE i \in 1..Len(order) : order[i] = <<x, "lpc">>
    IN IF result[<<x, "lpc">>] < result[<<x, "fixed">>] \/ (result[<<x, "lpc">>] = result[<<x, "fixed">>] /\ l < f)
       THEN <<"lpc", result[<<x, "lpc">>]>> ELSE <<"fixed", result[<<x, "fixed">>]>>
Output == IF "completion_order" \in Defects THEN [x \in Sub |-> BestByCompletion(x)]
          ELSE [x \in Sub |-> <<IF result[<<x, "lpc">>] < result[<<x, "fixed">>] THEN "lpc" ELSE "fixed", BestBySlot(x)>>]
SerialOutput == [x \in Sub |-> <<IF Cost(<<x, "lpc">>) < Cost(<<x, "fixed">>) THEN "lpc" ELSE "fixed",
                                 IF Cost(<<x, "lpc">>) < Cost(<<x, "fixed">>) THEN Cost(<<x, "lpc">>) ELSE Cost(<<x, "fixed">>)>>]

DisjointWrites == \A t, u \in Leaf : (t # u /\ pc[t] \in {"w1", "w2"} /\ pc[u] \in {"w1", "w2"}) => Cell(t) # Cell(u)
SameAsSerial == phase = 3 => Output = SerialOutput
=======================================================================
