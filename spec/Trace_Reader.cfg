SPECIFICATION Spec
INVARIANT Inv
POSTCONDITION Post
CHECK_DEADLOCK FALSE
