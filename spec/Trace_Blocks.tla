--------------------------- MODULE Trace_Blocks ---------------------------
(* C11 on real runs: block values built through the public constructors, written *)
(* by write_blocks, measured by bytes(), read back by read_blocks.               *)
EXTENDS MetaFormat, Json, IOUtils
Rec == ndJsonDeserialize(IOEnv.TRACE)
VARIABLE l
Has(r, k) == k \in DOMAIN r
Rej(e, rule) == PrintT(<<"REJECT", e.id, l, rule, e.class>>)
\* cue sheet values carry their text for the harness; the model only uses the abstract fields
Judge(e) ==
    LET heavy == Has(e, "heavy") /\ e.heavy         \* bodies too large to serialise in TLC: sizes only
        valid == IF heavy THEN e.expect_valid ELSE ValidList(e.blocks)
    IN
    /\ IF e.ret = "panic" THEN PrintT(<<"REJECT", e.id, l, "C11.no-panic", e.class, e.msg>>) ELSE TRUE
    /\ IF ~valid /\ e.ret = "ok" THEN Rej(e, "C11.invalid-list-refused") ELSE TRUE
    /\ IF e.ret = "ok" /\ ~heavy /\ Has(e, "written") /\ e.written # MetaSerialize(e.blocks) THEN Rej(e, "C11.bytes-as-the-format-defines") ELSE TRUE
    /\ IF e.ret = "ok" /\ ~heavy /\ e.sizes # [k \in 1..Len(e.blocks) |-> BlockSize(e.blocks[k])] THEN Rej(e, "C11.reported-size-equals-written-size") ELSE TRUE
    /\ IF e.ret = "ok" /\ heavy /\ (e.sizes # e.expect_sizes \/ e.written_len # e.expect_len) THEN Rej(e, "C11.reported-size-equals-written-size") ELSE TRUE
    /\ IF e.ret = "ok" /\ ~(Has(e, "readback_same") /\ e.readback_same) THEN Rej(e, "C11.reads-back-equal") ELSE TRUE
    \* the writer takes any iterator over the blocks: what it writes depends on the blocks only
    /\ IF e.ret = "ok" /\ Has(e, "iter_shapes_same") /\ ~e.iter_shapes_same THEN Rej(e, "C11.writer-independent-of-iterator-shape") ELSE TRUE
    /\ IF valid /\ e.ret \in {"err", "unbuildable"} THEN PrintT(<<"NOTE", e.id, l, "valid list refused", e.class, e.msg>>) ELSE TRUE
Init == l = 1
Next == l <= Len(Rec) /\ l' = l + 1 /\ (IF Rec[l].ev = "blocks" THEN Judge(Rec[l]) ELSE TRUE)
Spec == Init /\ [][Next]_l
Post == IF TLCGet("stats").diameter - 1 = Len(Rec) THEN PrintT(<<"TRACE-DONE", Len(Rec)>>)
        ELSE PrintT(<<"TRACE-INCOMPLETE", TLCGet("stats").diameter, Len(Rec)>>)
=======================================================================
