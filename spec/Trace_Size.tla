--------------------------- MODULE Trace_Size ---------------------------
(* C19 on real runs: frame sizes are the differences of the EncodeBegin /     *)
(* FinalizeBegin byte counters; every frame must respect the verbatim bound,  *)
(* and frames of all-constant blocks the constant bound.                      *)
EXTENDS Integers, Sequences, TLC, Json, IOUtils
Rec == ndJsonDeserialize(IOEnv.TRACE)
VARIABLES l, newev
tvars == <<l, newev>>
HL(p) == p[1] * 16777216 + p[2]
CeilDiv(a, d) == (a + d - 1) \div d
\* header (<= 16 bytes) + per channel (8-bit subframe header + up to 32 bits of wasted-bit count) +
\* samples verbatim at the declared depth (+ 1 bit per sample for one channel of a stereo pair) + CRC-16
FrameBound(n, ch, bps) == 16 + CeilDiv(ch * (8 + 32) + n * ch * bps + (IF ch = 2 THEN n ELSE 0), 8) + 2
ConstBound(ch) == 16 + 2 + ch * 32
Sizes(f) == LET n == Len(f.enc) IN
            [i \in 1..n |-> (IF i < n THEN HL(f.enc[i + 1][3]) ELSE HL(f.fin.bytes)) - HL(f.enc[i][3])]
Judge(f) ==
    LET sz == Sizes(f)
        ch == newev.channels
        bps == newev.bps
        over == {i \in 1..Len(sz) : sz[i] > FrameBound(f.enc[i][2], ch, bps)}
        \* constant blocks: all of them when the whole input is constant, else the frames the harness found constant
        cset == IF f.constant THEN 1..Len(sz) ELSE IF "const_frames" \in DOMAIN f THEN {f.const_frames[k] : k \in 1..Len(f.const_frames)} ELSE {}
        cover == {i \in cset \cap (1..Len(sz)) : sz[i] > ConstBound(ch)}
    IN /\ \A i \in over : PrintT(<<"REJECT", newev.run, l, "C19.frame-within-verbatim-bound", i, sz[i], FrameBound(f.enc[i][2], ch, bps)>>)
       /\ \A i \in cover : PrintT(<<"REJECT", newev.run, l, "C19.constant-block-is-tiny", i, sz[i], ConstBound(ch)>>)
       /\ PrintT(<<"STAT", Len(sz), IF Len(sz) = 0 THEN 0 ELSE (100 * sz[1]) \div FrameBound(f.enc[1][2], ch, bps)>>)
Init == l = 1 /\ newev = [run |-> 0]
Next == /\ l <= Len(Rec) /\ l' = l + 1
        /\ LET e == Rec[l] IN
           IF e.ev = "new" THEN newev' = e
           ELSE IF e.ev = "file" /\ e.fin.seen /\ ~e.light THEN Judge(e) /\ UNCHANGED newev
           ELSE UNCHANGED newev
Spec == Init /\ [][Next]_tvars
Post == IF TLCGet("stats").diameter - 1 = Len(Rec) THEN PrintT(<<"TRACE-DONE", Len(Rec)>>)
        ELSE PrintT(<<"TRACE-INCOMPLETE", TLCGet("stats").diameter, Len(Rec)>>)
=======================================================================
