--------------------------- MODULE Trace_Codec ---------------------------
(* Trace validation for C01: new / finalize / encoded / decoded / params events *)
(* of one run are the Write*, Finalize, ReadBack steps of Codec.  Large inputs   *)
(* are compared through (count, MD5) computed by the harness.                    *)
EXTENDS Integers, Sequences, TLC, Json, IOUtils
Rec == ndJsonDeserialize(IOEnv.TRACE)
VARIABLES l, enc, newev
tvars == <<l, enc, newev>>
Has(r, k) == k \in DOMAIN r
Rej(run, rule, detail) == PrintT(<<"REJECT", run, l, rule, detail>>)

Init == l = 1 /\ enc = [run |-> 0] /\ newev = [run |-> 0]
Next ==
    /\ l <= Len(Rec) /\ l' = l + 1
    /\ LET e == Rec[l] IN
       CASE e.ev = "new" ->
              /\ newev' = e /\ UNCHANGED enc
              /\ IF e.ret # "ok" THEN Rej(e.run, "C01.encoding-succeeds", <<"new", e.ret, e.msg>>) ELSE TRUE
         [] e.ev \in {"write", "panic"} ->
              /\ UNCHANGED <<enc, newev>>
              /\ IF e.ev = "panic" \/ e.ret # "ok" THEN Rej(newev.run, "C01.encoding-succeeds", <<"write", e.msg>>) ELSE TRUE
         [] e.ev = "finalize" ->
              /\ UNCHANGED <<enc, newev>>
              /\ IF e.ret # "ok" THEN Rej(newev.run, "C01.encoding-succeeds", <<"finalize", e.ret, e.msg>>) ELSE TRUE
         [] e.ev = "encoded" -> enc' = e /\ UNCHANGED newev
         [] e.ev = "decoded" ->
              /\ UNCHANGED <<enc, newev>>
              /\ IF e.ret # "ok" THEN Rej(e.run, "C01.decodes", <<e.reader, e.ret, e.msg>>)
                 ELSE IF e.count # enc.samples \/ e.md5 # enc.pcm_md5 THEN Rej(e.run, "C01.lossless", <<e.reader, e.count, enc.samples>>)
                 ELSE IF Has(e, "data") /\ Has(enc, "pcm") /\ e.data # enc.pcm THEN Rej(e.run, "C01.lossless", <<e.reader, "data differs">>)
                 ELSE TRUE
         [] e.ev = "params" ->
              /\ UNCHANGED <<enc, newev>>
              /\ IF e.channels # enc.channels \/ e.bps # enc.bps \/ e.rate # enc.rate
                 THEN Rej(e.run, "C01.parameters", <<e.channels, e.bps, e.rate>>) ELSE TRUE
         [] OTHER -> UNCHANGED <<enc, newev>>
Spec == Init /\ [][Next]_tvars
Post == IF TLCGet("stats").diameter - 1 = Len(Rec) THEN PrintT(<<"TRACE-DONE", Len(Rec)>>)
        ELSE PrintT(<<"TRACE-INCOMPLETE", TLCGet("stats").diameter, Len(Rec)>>)
=======================================================================
