--------------------------- MODULE Trace_Crash ---------------------------
(* Trace validation for C14: a "crashrun" event describes what the encoder had *)
(* emitted before finalize (metadata length, frame lengths and end offsets     *)
(* from the EncodeBegin hook, declared total); each "cut" event is one decode  *)
(* of a prefix by one reader, judged with Crash.tla's statements.              *)
EXTENDS Integers, Sequences, FiniteSets, TLC, Json, IOUtils
Rec == ndJsonDeserialize(IOEnv.TRACE)
VARIABLES l, r
tvars == <<l, r>>

Complete(k) ==      \* PCM frames held by frames that lie entirely inside the first k bytes
    LET S == {i \in 1..Len(r.frames) : r.meta_len + r.frames[i][2] <= k}
        RECURSIVE Sum(_)
        Sum(i) == IF i = 0 THEN 0 ELSE (IF i \in S THEN r.frames[i][1] ELSE 0) + Sum(i - 1)
    IN Sum(Len(r.frames))

Rules(e) ==
    LET c == Complete(e.at) IN
    << <<"C14.no-panic", e.end # "panic">>,
       <<"C14.open-fails-inside-metadata", e.at < r.meta_len => (e.end = "openerr" /\ e.delivered = 0)>>,
       <<"C14.exactly-the-complete-frames", e.at >= r.meta_len => (e.end \in {"eos", "err"} /\ e.delivered = c /\ e.prefix_ok)>>,
       <<"C14.clean-end-only-when-entitled", e.end = "eos" => (r.declared = -1 \/ e.delivered = r.declared)>> >>

Init == l = 1 /\ r = [meta_len |-> 0]
Next ==
    /\ l <= Len(Rec) /\ l' = l + 1
    /\ LET e == Rec[l] IN
       IF e.ev = "crashrun" THEN r' = e
       ELSE IF e.ev = "cut"
       THEN /\ LET rs == Rules(e) IN \A i \in 1..Len(rs) : IF rs[i][2] THEN TRUE ELSE PrintT(<<"REJECT", r.run, l, rs[i][1]>>)
            /\ UNCHANGED r
       ELSE UNCHANGED r
Spec == Init /\ [][Next]_tvars
Post == IF TLCGet("stats").diameter - 1 = Len(Rec) THEN PrintT(<<"TRACE-DONE", Len(Rec)>>)
        ELSE PrintT(<<"TRACE-INCOMPLETE", TLCGet("stats").diameter, Len(Rec)>>)
=======================================================================
