--------------------------- MODULE Trace_Reader ---------------------------
(***************************************************************************)
(* Trace validation of real reader runs against ReaderAbs (C06, C07).      *)
(* One ndjson line per public call; runs are concatenated, each starting   *)
(* with an "open" event.  The monitor keeps P = the set of abstract        *)
(* positions consistent with the observations so far (subset construction  *)
(* over ReaderAbs' <Action>Succ operators); an event that leaves P empty   *)
(* has no explanation in the specification: the run is REJECTed (printed)  *)
(* and the rest of that run is skipped, so one TLC pass judges every run.  *)
(***************************************************************************)
EXTENDS Integers, Sequences, FiniteSets, TLC, Json, IOUtils

Rec == ndJsonDeserialize(IOEnv.TRACE)

VARIABLES l, P, eosv, total, known, skip, run, nrej, saved
tvars == <<l, P, eosv, total, known, skip, run, nrej, saved>>

\* ReaderAbs operators evaluated for a hypothetical position (pos is only
\* used through the explicit parameter of the ...Succ operators)
A == INSTANCE ReaderAbs WITH pos <- 0, eos <- eosv

ToSet(sq) == {sq[i] : i \in 1..Len(sq)}
Lift(F(_)) == UNION {F(p) : p \in P}

\* cross-check of the harness' projection: when the raw data and the
\* reference are logged (small files), TLC recomputes the occurrence set
AtOK(e) ==
    IF "d" \in DOMAIN e /\ "ref" \in DOMAIN Rec[run]
    THEN LET ref == Rec[run].ref  d == e.d  n == Len(d)
         IN ToSet(e.at) = {p \in 0..(Len(ref) - n) : SubSeq(ref, p + 1, p + n) = d}
    ELSE TRUE

SuccOf(e) ==
    CASE e.ev = "read" /\ e.ret = "data" ->
            IF AtOK(e) THEN Lift(LAMBDA p : A!DeliverSucc(p, ToSet(e.at), e.len)) ELSE {}
      [] e.ev = "fill" /\ e.ret = "data" ->
            IF AtOK(e) THEN Lift(LAMBDA p : A!PeekSucc(p, ToSet(e.at), e.len)) ELSE {}
      [] e.ev \in {"read", "fill"} /\ e.ret = "eos" -> Lift(LAMBDA p : A!EosSucc(p))
      [] e.ev = "consume" -> Lift(LAMBDA p : A!ConsumeSucc(p, e.k))
      [] e.ev = "seek" /\ e.ret = "ok" ->
            \* the request is logged as (whence, off); the target is resolved here
            UNION {A!SeekOkSucc(p, t, IF "rp" \in DOMAIN e THEN e.rp ELSE t) :
                     <<p, t>> \in {<<p, CASE e.whence = "start" -> e.off
                                          [] e.whence = "current" -> p + e.off
                                          [] OTHER -> total + e.off>> :
                                   p \in {q \in P : e.whence = "current" => q # A!Unknown}}}
            \cup (IF e.whence = "current" /\ A!Unknown \in P
                  THEN (IF "rp" \in DOMAIN e /\ 0 <= e.rp /\ e.rp <= total THEN {e.rp} ELSE {})
                  ELSE {})
      [] e.ev = "seek" /\ e.ret = "err" ->
            UNION {A!SeekErrSucc(p, t, e.whence = "end") :
                     <<p, t>> \in {<<p, CASE e.whence = "start" -> e.off
                                          [] e.whence = "current" -> p + e.off
                                          [] OTHER -> total + e.off>> :
                                   p \in {q \in P : e.whence = "current" => q # A!Unknown}}}
            \cup (IF e.whence = "current" /\ A!Unknown \in P THEN {A!Unknown} ELSE {})
      \* a transient fault of the SOURCE injected by the driver: the call reports it; where the reader stands afterwards is not
      \* specified, but the next successful absolute seek must land exactly where it says
      [] "ret" \in DOMAIN e /\ e.ret = "ioerr" -> {A!Unknown}
      [] e.ev = "tell" -> Lift(LAMBDA p : A!TellSucc(p, e.p))
      [] e.ev = "skip" -> P     \* the driver declined an operation (API contract): a stuttering step
      [] OTHER -> {}        \* err / garbled / panic / timeout: no behaviour

IsEos(e) == e.ev \in {"read", "fill"} /\ e.ret = "eos"

Init == l = 1 /\ P = {} /\ eosv = FALSE /\ total = 0 /\ known = FALSE /\ skip = TRUE /\ run = 0 /\ nrej = 0
        /\ saved = [P |-> {}, eosv |-> FALSE, skip |-> TRUE]

Next ==
    /\ l <= Len(Rec)
    /\ l' = l + 1
    /\ LET e == Rec[l] IN
       IF e.ev = "open"
       THEN /\ P' = {0} /\ eosv' = FALSE /\ total' = e.total /\ known' = e.known
            /\ skip' = FALSE /\ run' = l /\ UNCHANGED <<nrej, saved>>
       \* push / pop bracket a branch taken on a clone of the reader
       ELSE IF e.ev = "push"
       THEN saved' = [P |-> P, eosv |-> eosv, skip |-> skip] /\ UNCHANGED <<P, eosv, total, known, skip, run, nrej>>
       ELSE IF e.ev = "pop"
       THEN /\ P' = saved.P /\ eosv' = saved.eosv /\ skip' = saved.skip
            /\ UNCHANGED <<total, known, run, nrej, saved>>
       ELSE IF skip THEN UNCHANGED <<P, eosv, total, known, skip, run, nrej, saved>>
       ELSE LET S == SuccOf(e) IN
            IF S = {}
            THEN /\ PrintT(<<"REJECT", run, l, ToJson(e), "P", P>>)
                 /\ skip' = TRUE /\ nrej' = nrej + 1
                 /\ UNCHANGED <<P, eosv, total, known, run, saved>>
            ELSE /\ P' = S /\ eosv' = IsEos(e)
                 /\ UNCHANGED <<total, known, skip, run, nrej, saved>>

Spec == Init /\ [][Next]_tvars

\* the abstract invariants, evaluated at every step of every run
Inv == \A p \in P : (p = A!Unknown \/ (0 <= p /\ p <= total)) /\ (eosv => p = total)

Done == TLCGet("stats").diameter - 1 = Len(Rec)
Post == IF Done THEN PrintT(<<"TRACE-DONE", Len(Rec)>>)
        ELSE PrintT(<<"TRACE-INCOMPLETE", TLCGet("stats").diameter, Len(Rec)>>)
=======================================================================
