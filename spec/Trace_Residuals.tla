--------------------------- MODULE Trace_Residuals ---------------------------
(* Binding of PartitionLayout to the real residual writer / reader (hooks      *)
(* encode::verif::write_residuals, decode::verif::read_residuals): for every   *)
(* grid point the written partition order must be one of the model's candidate *)
(* layouts, and the decoder must read the same residuals back.                 *)
EXTENDS PartitionLayout, Json, IOUtils
Rec == ndJsonDeserialize(IOEnv.TRACE)
VARIABLE l
Init == l = 1
Judge(e) ==
    LET cands == EncCandidates(e.bs, e.order, e.maxpo) IN
    /\ IF e.wret = "panic" \/ e.rret = "panic" THEN PrintT(<<"REJECT", l, l, "C01.residuals-no-panic", e.msg>>) ELSE TRUE
    /\ IF e.wret = "ok" /\ (e.rret # "ok" \/ ~e.eq) THEN PrintT(<<"REJECT", l, l, "C01.residuals-read-back", e.msg>>) ELSE TRUE
    \* (B) level: the order written is one the model says the encoder may choose
    /\ IF e.wret = "ok" /\ e.po >= 0 /\ ~(\E c \in cands : Len(c) = 2^e.po) /\ cands # {}
       THEN PrintT(<<"DRIFT", l, "written partition order not among the model's candidates", e.bs, e.order, e.maxpo, e.po>>) ELSE TRUE
\* the reader alone over hand-made headers (escaped partitions of width 0): what it accepts must be a layout the format allows
JudgeRaw(e) ==
    LET rfc == RfcLayout(e.bs, e.po, e.order)
        tooShort == e.bs % (2^e.po) = 0 /\ (e.bs \div (2^e.po)) < e.order      \* predictor order exceeds the partition length
    IN /\ IF e.rret = "panic" THEN PrintT(<<"REJECT", l, l, "C05.residual-reader-no-panic", e.msg>>) ELSE TRUE
       /\ IF tooShort /\ e.rret = "ok" THEN PrintT(<<"REJECT", l, l, "C05.predictor-order-exceeding-the-partition-is-refused", e.bs, e.order, e.po>>) ELSE TRUE
       \* (that valid layouts ARE read is C03's business, decided on whole streams; an empty first partition may be refused)
       /\ IF e.rret = "ok" /\ ~e.allzero THEN PrintT(<<"REJECT", l, l, "C05.accepted-layout-yields-the-coded-residuals", e.bs, e.order, e.po>>) ELSE TRUE
       /\ IF (e.rret = "ok") # (DecLayout(e.bs, e.po, e.order) \notin {<<>>, <<-1>>})
          THEN PrintT(<<"DRIFT", l, "the reader's verdict differs from DecLayout", e.bs, e.order, e.po, e.rret>>) ELSE TRUE
Next == l <= Len(Rec) /\ l' = l + 1 /\ (IF Rec[l].ev = "res" THEN Judge(Rec[l]) ELSE IF Rec[l].ev = "rawres" THEN JudgeRaw(Rec[l]) ELSE TRUE)
Spec == Init /\ [][Next]_l
Post == IF TLCGet("stats").diameter - 1 = Len(Rec) THEN PrintT(<<"TRACE-DONE", Len(Rec)>>)
        ELSE PrintT(<<"TRACE-INCOMPLETE", TLCGet("stats").diameter, Len(Rec)>>)
=======================================================================
