--------------------------- MODULE Gen_Writer ---------------------------
(* Behaviour generator for C08: every composition of the input into write  *)
(* calls (history of write sizes), printed when the writer is finalized,   *)
(* together with what the specification predicts.                          *)
EXTENDS Writer, Json

VARIABLE hist
gvars == <<carry, total, encoded, md5fed, written, status, hist>>
GInit == Init /\ hist = <<>>
GNext == \/ \E n \in WriteSizes : Write(n) /\ hist' = Append(hist, n)
         \/ Finalize /\ UNCHANGED hist
GSpec == GInit /\ [][GNext]_gvars
Emit == status \in {"open", "failed"} \/
        PrintT(<<"GEN", ToJson([writes |-> hist, status |-> status, encoded |-> encoded, whole |-> Whole])>>)
=======================================================================
