--------------------------- MODULE Gen_Meta ---------------------------
(* byte encodings of abstract block lists (MetaSerialize), incl. encodings the  *)
(* crate's writer never produces, for the reader-side checks of C11 / C12       *)
EXTENDS MetaFormat, Json, IOUtils
Lists == ndJsonDeserialize(IOEnv.PLANS)
VARIABLE l
Init == l = 1
Next == /\ l <= Len(Lists) /\ l' = l + 1
        /\ PrintT(<<"GEN", ToJson([id |-> Lists[l].id, bytes |-> MetaSerialize(Lists[l].blocks), valid |-> ValidList(Lists[l].blocks),
                                   sizes |-> [k \in 1..Len(Lists[l].blocks) |-> BlockSize(Lists[l].blocks[k])]])>>)
Spec == Init /\ [][Next]_l
Post == IF TLCGet("stats").diameter - 1 = Len(Lists) THEN PrintT(<<"TRACE-DONE", Len(Lists)>>)
        ELSE PrintT(<<"TRACE-INCOMPLETE", TLCGet("stats").diameter, Len(Lists)>>)
=======================================================================
