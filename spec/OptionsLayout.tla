--------------------------- MODULE OptionsLayout ---------------------------
(***************************************************************************)
(* Growth beyond the listed properties: from the calls made on the         *)
(* `Options` builder to the metadata layout of the file.                   *)
(*                                                                         *)
(* Options keeps a block list (optional blocks in insertion order) and a   *)
(* seek table interval.  It starts as <<PADDING 4096>> / every 10 seconds. *)
(*   padding(0) | no_padding   remove every PADDING block                  *)
(*   padding(n)                resize the FIRST padding block, or append   *)
(*   tag(k, v)                 add a field to the comment block, creating  *)
(*                             one at the END of the list if there is none *)
(*   comment(c)                replace the comment IN PLACE, else append   *)
(*   picture / application     append (several may coexist)                *)
(*   add_block(PADDING n)      append ANOTHER padding block                *)
(*   seektable_frames / seektable_seconds / no_seektable   the interval    *)
(*                             (0 = none)                                  *)
(* Encoder::new (one critical section): with a declared total and an       *)
(* interval a placeholder SEEKTABLE with as many points as the finished    *)
(* stream will have is appended; then the list is STABLE-sorted by         *)
(* comment < seektable < picture < application < cuesheet < padding and    *)
(* written: the provisional layout.                                        *)
(* finalize: Refill (table present: same number of points), Carve (no      *)
(* table, FIRST padding block large enough: the padding shrinks by the     *)
(* table's whole size, header included, and the table is appended BEHIND   *)
(* the padding) or NoRoom (layout unchanged, no table).                    *)
(* A block is <<kind, tag>>: tag = size (padding), number of points        *)
(* (seektable), number of fields (comment), an identifying number else.    *)
(* The stream is F whole blocks; the harness picks sample rate = block     *)
(* size, so "every s seconds" is "every s frames".                         *)
(***************************************************************************)
EXTENDS Integers, Sequences, TLC, Json

CONSTANTS PadSizes,      \* sizes used by padding(n) / add_block(PADDING n)
          Steps,         \* interval arguments (0 = none)
          FrameCounts,   \* numbers of whole blocks written
          MaxOps

VARIABLES list, iv, hist, tag
vars == <<list, iv, hist, tag>>

Kinds == {"comment", "seektable", "picture", "application", "cuesheet", "padding"}
Prio == [k \in Kinds |-> CASE k = "comment" -> 0 [] k = "seektable" -> 1 [] k = "picture" -> 2
                           [] k = "application" -> 3 [] k = "cuesheet" -> 4 [] OTHER -> 5]

FirstAt(l, k) == IF \E i \in 1..Len(l) : l[i][1] = k THEN CHOOSE i \in 1..Len(l) : l[i][1] = k /\ \A j \in 1..(i - 1) : l[j][1] # k ELSE 0
Without(l, k) == SelectSeq(l, LAMBDA b : b[1] # k)
Count(l, k) == Len(SelectSeq(l, LAMBDA b : b[1] = k))
RECURSIVE InsertSorted(_, _)
InsertSorted(s, b) == IF s = <<>> THEN <<b>>
                      ELSE IF Prio[s[Len(s)][1]] <= Prio[b[1]] THEN Append(s, b)
                      ELSE Append(InsertSorted(SubSeq(s, 1, Len(s) - 1), b), s[Len(s)])
RECURSIVE StableSort(_)
StableSort(l) == IF l = <<>> THEN <<>> ELSE InsertSorted(StableSort(SubSeq(l, 1, Len(l) - 1)), l[Len(l)])

Start == [list |-> <<<<"padding", 4096>>>>, iv |-> 10]      \* iv: a point every iv frames, 0 = no table

\* one builder call
Call(st, o) ==
    LET l == st.list IN
    CASE o.op = "padding" ->
           IF o.n = 0 THEN [st EXCEPT !.list = Without(l, "padding")]
           ELSE IF FirstAt(l, "padding") # 0 THEN [st EXCEPT !.list = [l EXCEPT ![FirstAt(l, "padding")] = <<"padding", o.n>>]]
           ELSE [st EXCEPT !.list = Append(l, <<"padding", o.n>>)]
      [] o.op = "no_padding" -> [st EXCEPT !.list = Without(l, "padding")]
      [] o.op = "tag" ->
           IF FirstAt(l, "comment") # 0 THEN [st EXCEPT !.list = [l EXCEPT ![FirstAt(l, "comment")] = <<"comment", l[FirstAt(l, "comment")][2] + 1>>]]
           ELSE [st EXCEPT !.list = Append(l, <<"comment", 1>>)]
      [] o.op = "comment" ->
           IF FirstAt(l, "comment") # 0 THEN [st EXCEPT !.list = [l EXCEPT ![FirstAt(l, "comment")] = <<"comment", o.n>>]]
           ELSE [st EXCEPT !.list = Append(l, <<"comment", o.n>>)]
      [] o.op = "picture" -> [st EXCEPT !.list = Append(l, <<"picture", o.n>>)]
      [] o.op = "application" -> [st EXCEPT !.list = Append(l, <<"application", o.n>>)]
      [] o.op = "add_padding" -> [st EXCEPT !.list = Append(l, <<"padding", o.n>>)]
      [] o.op = "frames" -> [st EXCEPT !.iv = o.n]
      [] o.op = "seconds" -> [st EXCEPT !.iv = o.n]
      [] o.op = "no_seektable" -> [st EXCEPT !.iv = 0]

RECURSIVE Build(_, _)
Build(st, ops) == IF ops = <<>> THEN st ELSE Build(Call(st, Head(ops)), Tail(ops))

NPoints(step, F) == (F + step - 1) \div step
TableBytes(n) == 4 + 18 * n

\* what Encoder::new writes
Provisional(st, declared, F) ==
    StableSort(IF declared /\ st.iv # 0 THEN Append(st.list, <<"seektable", NPoints(st.iv, F)>>) ELSE st.list)

FinalBranch(st, declared, F) ==
    LET p == Provisional(st, declared, F) IN
    IF st.iv = 0 THEN "none"
    ELSE IF FirstAt(p, "seektable") # 0 THEN "refill"
    ELSE IF FirstAt(p, "padding") = 0 THEN "nothing"
    ELSE IF p[FirstAt(p, "padding")][2] >= TableBytes(NPoints(st.iv, F)) THEN "carve" ELSE "noroom"

\* what the finished file holds
Final(st, declared, F) ==
    LET p == Provisional(st, declared, F)
        n == NPoints(st.iv, F) IN
    IF FinalBranch(st, declared, F) = "carve"
    THEN Append([p EXCEPT ![FirstAt(p, "padding")] = <<"padding", p[FirstAt(p, "padding")][2] - TableBytes(n)>>], <<"seektable", n>>)
    ELSE p

Ops(t) == {[op |-> "padding", n |-> n] : n \in PadSizes \cup {0}}
          \cup {[op |-> "no_padding"], [op |-> "tag"], [op |-> "no_seektable"]}
          \cup {[op |-> "comment", n |-> n] : n \in {0, 2}}
          \cup {[op |-> "picture", n |-> t], [op |-> "application", n |-> t]}
          \cup {[op |-> "add_padding", n |-> n] : n \in PadSizes}
          \cup {[op |-> "frames", n |-> n] : n \in Steps}
          \cup {[op |-> "seconds", n |-> n] : n \in Steps}

Init == list = Start.list /\ iv = Start.iv /\ hist = <<>> /\ tag = 1
Next == /\ Len(hist) < MaxOps
        /\ \E o \in Ops(tag) : LET s == Call([list |-> list, iv |-> iv], o) IN
                               /\ list' = s.list /\ iv' = s.iv /\ tag' = tag + 1
                               /\ hist' = Append(hist, o)
Spec == Init /\ [][Next]_vars
View == <<list, iv, Len(hist)>>
Emit == PrintT(<<"GEN", ToJson([ops |-> hist])>>)

(* laws of the layout, for every reachable builder state, both kinds of total, every stream length *)
Cur == [list |-> list, iv |-> iv]
PadTab(l) == LET RECURSIVE S(_)
                 S(i) == IF i = 0 THEN 0 ELSE S(i - 1) + (CASE l[i][1] = "padding" -> 4 + l[i][2] [] l[i][1] = "seektable" -> TableBytes(l[i][2]) [] OTHER -> 0)
             IN S(Len(l))
Others(l) == SelectSeq(l, LAMBDA b : b[1] \notin {"padding", "seektable"})
BuildIsFold == Build(Start, hist) = Cur
ProvisionalSorted == \A d \in BOOLEAN, F \in FrameCounts : LET p == Provisional(Cur, d, F) IN \A i \in 1..(Len(p) - 1) : Prio[p[i][1]] <= Prio[p[i + 1][1]]
SingleKinds == \A d \in BOOLEAN, F \in FrameCounts : Count(Final(Cur, d, F), "seektable") <= 1 /\ Count(Final(Cur, d, F), "comment") <= 1
FinalizeIsSizeNeutral == \A d \in BOOLEAN, F \in FrameCounts : PadTab(Final(Cur, d, F)) = PadTab(Provisional(Cur, d, F))
FinalizeKeepsTheRest == \A d \in BOOLEAN, F \in FrameCounts : Others(Final(Cur, d, F)) = Others(Provisional(Cur, d, F))
NoIntervalNoTable == \A d \in BOOLEAN, F \in FrameCounts : iv = 0 => Count(Final(Cur, d, F), "seektable") = 0
DeclaredAlwaysGetsItsTable == \A F \in FrameCounts : iv # 0 => Count(Final(Cur, TRUE, F), "seektable") = 1
TableHasThePoints == \A d \in BOOLEAN, F \in FrameCounts : LET f == Final(Cur, d, F) IN
                        FirstAt(f, "seektable") # 0 => f[FirstAt(f, "seektable")][2] = NPoints(iv, F)
UserBlocksKeepTheirOrder == \A d \in BOOLEAN, F \in FrameCounts, k \in {"picture", "application"} :
                        SelectSeq(Final(Cur, d, F), LAMBDA b : b[1] = k) = SelectSeq(list, LAMBDA b : b[1] = k)
=======================================================================
