--------------------------- MODULE Gen_Pcm ---------------------------
(* Small-scope PCM for C01 / C02: every sample sequence up to a length over a   *)
(* small alphabet, enumerated by TLC (one state per sequence).                  *)
EXTENDS Integers, Sequences, TLC, Json
CONSTANTS MaxLen, Lo, Hi
VARIABLE s
Init == s = <<>>
Next == Len(s) < MaxLen /\ \E v \in Lo..Hi : s' = Append(s, v)
Spec == Init /\ [][Next]_s
Emit == s = <<>> \/ PrintT(<<"GEN", ToJson(s)>>)
=======================================================================
