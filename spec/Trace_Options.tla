--------------------------- MODULE Trace_Options ---------------------------
(* replay of OptionsLayout histories on the real Options builder and a real sample writer: the block layout written by   *)
(* the constructor and the one found in the finished file must be the ones the specification derives from the calls;     *)
(* the branch finalize reports through its hook must be the predicted one (non-gating growth report inside C09)          *)
EXTENDS OptionsLayout, IOUtils
Rec == ndJsonDeserialize(IOEnv.TRACE)
VARIABLES l
Pairs(js) == [i \in 1..Len(js) |-> <<js[i][1], js[i][2]>>]
Rej(e, rule) == PrintT(<<"REJECT", e.id, l, rule, e.frames, e.declared>>)
\* the hook sits in front of the room test, and is silent when there is neither an interval nor a padding block
HookOf(b) == CASE b \in {"none", "nothing"} -> "" [] b = "refill" -> "refill" [] OTHER -> "carve"
TInit == l = 1 /\ list = Start.list /\ iv = Start.iv /\ hist = <<>> /\ tag = 1
TNext == /\ l <= Len(Rec) /\ l' = l + 1 /\ UNCHANGED vars
         /\ LET e == Rec[l] IN
            IF e.ev = "opt"
            THEN LET st == Build(Start, e.ops) IN
                 /\ IF e.ret # "ok" THEN Rej(e, "X.options-encode-succeeds") ELSE TRUE
                 /\ IF e.ret = "ok" /\ Pairs(e.prov) # Provisional(st, e.declared, e.frames) THEN Rej(e, "X.options-provisional-layout") ELSE TRUE
                 /\ IF e.ret = "ok" /\ Pairs(e.final) # Final(st, e.declared, e.frames) THEN Rej(e, "X.options-final-layout") ELSE TRUE
                 /\ IF e.ret = "ok" /\ e.branch # HookOf(FinalBranch(st, e.declared, e.frames)) THEN Rej(e, "X.options-finalize-branch") ELSE TRUE
                 /\ IF e.ret = "ok" /\ e.len_after_new # e.audio_start THEN Rej(e, "X.options-header-rewrite-keeps-its-size") ELSE TRUE
            ELSE TRUE
TSpec == TInit /\ [][TNext]_<<l, vars>>
Post == IF TLCGet("stats").diameter - 1 = Len(Rec) THEN PrintT(<<"TRACE-DONE", Len(Rec)>>)
        ELSE PrintT(<<"TRACE-INCOMPLETE", TLCGet("stats").diameter, Len(Rec)>>)
=======================================================================
