--------------------------- MODULE Trace_Cue ---------------------------
(* C20 on real imports: the block parsed from each rendering of a TLC-generated *)
(* sheet must be exactly CueText.Expected(sheet); exporting and re-importing    *)
(* must reproduce the layout.                                                    *)
EXTENDS Integers, Sequences, TLC, Json, IOUtils
Rec == ndJsonDeserialize(IOEnv.TRACE)
VARIABLE l
Rej(e, rule) == PrintT(<<"REJECT", e.id, l, rule, e.variant>>)
TracksMatch(e) ==
    LET x == e.expected  y == e.layout IN
    /\ Len(y.tracks) = Len(x.tracks)
    /\ \A k \in 1..Len(x.tracks) :
          /\ y.tracks[k].number = x.tracks[k].number
          /\ y.tracks[k].offset = x.tracks[k].offset
          /\ y.tracks[k].index = x.tracks[k].index
          /\ y.tracks[k].pre = x.tracks[k].pre
          /\ y.tracks[k].isrc = e.isrcs[k]
          /\ ~y.tracks[k].non_audio
Judge(e) ==
    /\ IF e.ret # "ok" THEN PrintT(<<"REJECT", e.id, l, "C20.well-formed-text-imports", e.variant, e.msg>>) ELSE TRUE
    /\ IF e.ret = "ok" /\ ~(e.layout.exact /\ e.layout.cdda /\ TracksMatch(e)) THEN Rej(e, "C20.tracks-and-indices-as-written") ELSE TRUE
    /\ IF e.ret = "ok" /\ e.layout.leadout # e.expected.leadout THEN Rej(e, "C20.lead-out-at-stream-length") ELSE TRUE
    /\ IF e.ret = "ok" /\ e.layout.ranges # e.expected.ranges THEN Rej(e, "C20.track-ranges") ELSE TRUE
    /\ IF e.ret = "ok" /\ e.layout.catalog # e.catalog THEN Rej(e, "C20.catalog") ELSE TRUE
    /\ IF e.ret = "ok" /\ ~("roundtrip_same" \in DOMAIN e /\ e.roundtrip_same) THEN Rej(e, "C20.export-import-roundtrip") ELSE TRUE
Init == l = 1
Next == l <= Len(Rec) /\ l' = l + 1 /\ (IF Rec[l].ev = "cue" THEN Judge(Rec[l]) ELSE TRUE)
Spec == Init /\ [][Next]_l
Post == IF TLCGet("stats").diameter - 1 = Len(Rec) THEN PrintT(<<"TRACE-DONE", Len(Rec)>>)
        ELSE PrintT(<<"TRACE-INCOMPLETE", TLCGet("stats").diameter, Len(Rec)>>)
=======================================================================
