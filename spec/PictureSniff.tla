--------------------------- MODULE PictureSniff ---------------------------
(***************************************************************************)
(* Growth beyond the listed properties: WHAT Picture::new must find in an  *)
(* image (C12 only says that it ends).  Written from the PNG (RFC 2083),   *)
(* JPEG (ITU T.81 annex B) and GIF89a container descriptions and from the  *)
(* meaning RFC 9639 8.8 gives the PICTURE fields; independent of the crate.*)
(*                                                                         *)
(* Sniff(b) is one of                                                      *)
(*   [kind |-> "ok", mime, width, height, depth, colors]                   *)
(*   [kind |-> "reject", why]   the bytes cannot be that kind of image     *)
(*   [kind |-> "open"]          malformed in a way on which the containers *)
(*                              give a sniffer freedom: no judgement       *)
(* 32-bit quantities are <<hi16, lo16>> pairs (TLC integers are 32-bit).   *)
(* depth: for indexed-colour images (PNG colour type 3, GIF) RFC 9639 does *)
(* not fix the value; DepthOpen lists what is accepted there.              *)
(***************************************************************************)
EXTENDS Integers, Sequences, TLC

Avail(b, i, n) == i >= 1 /\ i + n - 1 <= Len(b)
BE16(b, i) == b[i] * 256 + b[i + 1]
LE16(b, i) == b[i] + b[i + 1] * 256
BE32(b, i) == <<BE16(b, i), BE16(b, i + 2)>>
Starts(b, p) == Len(b) >= Len(p) /\ SubSeq(b, 1, Len(p)) = p
Ok(m, w, h, d, c) == [kind |-> "ok", mime |-> m, width |-> w, height |-> h, depth |-> d, colors |-> c, filled |-> FALSE]
Reject(why) == [kind |-> "reject", why |-> why]
Open == [kind |-> "open"]
DepthOpen == {0, 24}             \* indexed colour: "unknown" or the 24-bit palette entries

(* ---- PNG: signature, IHDR first (13 bytes), then chunks; PLTE gives the palette size *)
PngSig == <<137, 80, 78, 71, 13, 10, 26, 10>>
IHDR == <<73, 72, 68, 82>>
PLTE == <<80, 76, 84, 69>>
IEND == <<73, 69, 78, 68>>
RECURSIVE PngPalette(_, _)
\* number of palette entries from the first PLTE chunk at or after byte i; -1: none / malformed; -2: open
PngPalette(b, i) ==
    IF ~Avail(b, i, 8) THEN -1
    ELSE LET len == BE32(b, i)
             ty == SubSeq(b, i + 4, i + 7)
         IN IF ty = PLTE
            THEN IF (len[1] + len[2]) % 3 # 0 THEN -1                    \* 65536 = 1 (mod 3)
                 ELSE (len[1] \div 3) * 65536 + ((len[1] % 3) * 65536 + len[2]) \div 3
            ELSE IF ty = IEND THEN -1
            ELSE IF len[1] >= 16384 \/ ~Avail(b, i, 8 + len[1] * 65536 + len[2] + 4) THEN -1
            ELSE PngPalette(b, i + 8 + len[1] * 65536 + len[2] + 4)
Png(b) ==
    IF ~Avail(b, 9, 25) THEN Reject("png: truncated before the end of IHDR")
    ELSE IF BE32(b, 9) # <<0, 13>> \/ SubSeq(b, 13, 16) # IHDR THEN Reject("png: IHDR is not the first chunk")
    ELSE LET w == BE32(b, 17)  h == BE32(b, 21)  bd == b[25]  ct == b[26] IN
         CASE ct = 0 -> Ok("image/png", w, h, {bd}, 0)
           [] ct = 2 -> Ok("image/png", w, h, {bd * 3}, 0)
           [] ct = 4 -> Ok("image/png", w, h, {bd * 2}, 0)
           [] ct = 6 -> Ok("image/png", w, h, {bd * 4}, 0)
           [] ct = 3 -> LET n == PngPalette(b, 34) IN
                        IF n < 0 THEN Reject("png: palette image without a usable PLTE chunk")
                        ELSE Ok("image/png", w, h, DepthOpen, n)
           [] OTHER -> Reject("png: colour type")

(* ---- JPEG: SOI, marker segments (optionally preceded by 0xFF fill bytes), the first SOFn has the metrics *)
IsSOF(m) == m \in 192..207 /\ m \notin {196, 200, 204}          \* C0-CF except DHT, JPG, DAC
Standalone(m) == m = 1 \/ m \in 208..217                         \* TEM, RSTn, SOI, EOI: no length
RECURSIVE JpegFrom(_, _, _)
JpegFrom(b, i, filled) ==
    IF ~Avail(b, i, 2) THEN Reject("jpeg: no frame header")
    ELSE IF b[i] # 255 THEN Reject("jpeg: marker expected")
    ELSE LET m == b[i + 1] IN
         IF m = 255 THEN JpegFrom(b, i + 1, TRUE)                 \* fill byte
         ELSE IF m = 0 \/ Standalone(m) THEN Open                 \* stuffed zero / EOI / RST before any frame: not a header
         ELSE IF IsSOF(m)
         THEN IF ~Avail(b, i + 2, 8) THEN Reject("jpeg: truncated frame header")
              ELSE [Ok("image/jpeg", <<0, BE16(b, i + 7)>>, <<0, BE16(b, i + 5)>>, {b[i + 4] * b[i + 9]}, 0) EXCEPT !.filled = filled]
         ELSE IF ~Avail(b, i + 2, 2) THEN Reject("jpeg: truncated segment")
         ELSE LET len == BE16(b, i + 2) IN
              IF len < 2 THEN Reject("jpeg: segment length below 2")
              ELSE IF ~Avail(b, i + 2, len) THEN Reject("jpeg: truncated segment")
              ELSE JpegFrom(b, i + 2 + len, filled)
Jpeg(b) == IF ~Avail(b, 1, 2) \/ b[1] # 255 \/ b[2] # 216 THEN Reject("jpeg: no SOI") ELSE JpegFrom(b, 3, FALSE)

(* ---- GIF: "GIF" + version, logical screen descriptor *)
Gif(b) ==
    IF ~Avail(b, 1, 11) THEN Reject("gif: truncated screen descriptor")
    ELSE Ok("image/gif", <<0, LE16(b, 7)>>, <<0, LE16(b, 9)>>, DepthOpen, 2 ^ ((b[11] % 8) + 1))

Sniff(b) ==
    IF Starts(b, PngSig) THEN Png(b)
    ELSE IF Starts(b, <<255, 216, 255>>) THEN Jpeg(b)
    ELSE IF Starts(b, <<71, 73, 70>>) THEN Gif(b)
    ELSE Reject("unsupported")

FillDeviation(b, got) == LET want == Sniff(b) IN want.kind = "ok" /\ want.filled /\ got.ret # "ok"
(* the judgement of one observed call: got = [ret, mime, width, height, depth, colors] *)
Agrees(b, got) ==
    LET want == Sniff(b) IN
    CASE want.kind = "open" -> TRUE
      [] want.kind = "reject" -> got.ret = "err"
      \* Named deviation of the crate: 0xFF fill bytes before a marker (T.81 B.1.1.2) are not skipped, so such a (legal)
      \* header is refused or misread as a segment; the trace monitor counts these instead of rejecting them.
      [] want.filled -> TRUE
      [] OTHER -> /\ got.ret = "ok" /\ got.mime = want.mime /\ got.width = want.width /\ got.height = want.height
                  /\ got.depth \in want.depth /\ got.colors = want.colors
=======================================================================
