--------------------------- MODULE ReaderAbsProofs ---------------------------
(***************************************************************************)
(* Unbounded safety of the (A)-level reader specification, checked by the  *)
(* TLA+ proof system (TLC explores ReaderAbs only for small totals): for   *)
(* EVERY stream length, under every behaviour of ReaderAbs, the position   *)
(* stays inside the stream (or is the Unknown left by a refused seek) and  *)
(* end of stream is only ever signalled at the end (C06 / C07).            *)
(***************************************************************************)
EXTENDS ReaderAbs, TLAPS

Inv == /\ total \in Nat
       /\ known \in BOOLEAN
       /\ eos \in BOOLEAN
       /\ pos \in (0..total) \cup {Unknown}
       /\ eos => pos = total

ASpec(T, K) == AInit(T, K) /\ [][ANext]_avars

LEMMA InitInv == \A T \in Nat, K \in BOOLEAN : AInit(T, K) => Inv
  BY DEF AInit, Inv, Unknown

LEMMA NextInv == Inv /\ [ANext]_avars => Inv'
<1> SUFFICES ASSUME Inv, [ANext]_avars PROVE Inv'
  OBVIOUS
<1>1. CASE UNCHANGED avars
  BY <1>1 DEF Inv, avars
<1>2. CASE \E at \in SUBSET (0..total), len \in 1..total : Deliver(at, len) \/ Peek(at, len)
  BY <1>2 DEF Inv, Deliver, Peek, DeliverSucc, PeekSucc, Config, Unknown
<1>3. CASE \E k \in 0..total : Consume(k)
  BY <1>3 DEF Inv, Consume, ConsumeSucc, Config, Unknown
<1>4. CASE Eos
  BY <1>4 DEF Inv, Eos, EosSucc, Config, Unknown
<1>5. CASE \E t \in -1..(total + 1) : SeekOk(t, t) \/ SeekErr(t, FALSE) \/ SeekErr(t, TRUE)
  BY <1>5 DEF Inv, SeekOk, SeekErr, SeekOkSucc, SeekErrSucc, SeekValid, Config, Unknown
<1>6. CASE \E q \in 0..total : Tell(q)
  BY <1>6 DEF Inv, Tell, TellSucc, Config, Unknown
<1> QED
  BY <1>1, <1>2, <1>3, <1>4, <1>5, <1>6 DEF ANext

THEOREM Safety == \A T \in Nat, K \in BOOLEAN : ASpec(T, K) => [](InRange /\ EosOnlyAtEnd)
<1> SUFFICES ASSUME NEW T \in Nat, NEW K \in BOOLEAN PROVE ASpec(T, K) => [](InRange /\ EosOnlyAtEnd)
  OBVIOUS
<1>1. Inv => InRange /\ EosOnlyAtEnd
  BY DEF Inv, InRange, EosOnlyAtEnd, Unknown
<1>0. AInit(T, K) => Inv
  BY InitInv
<1>2. ASpec(T, K) => []Inv
  BY <1>0, NextInv, PTL DEF ASpec
<1> QED
  BY <1>1, <1>2, PTL
=======================================================================
