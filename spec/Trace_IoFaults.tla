--------------------------- MODULE Trace_IoFaults ---------------------------
(* Trace validation for C13: one "scenario" event (the fault-free reference) *)
(* followed by one "fault" event per (n, mode); each is a Return(r) step of  *)
(* IoFaults' (A) level, judged against the reference.                        *)
EXTENDS Integers, Sequences, TLC, Json, IOUtils
Rec == ndJsonDeserialize(IOEnv.TRACE)
VARIABLES l, ref
tvars == <<l, ref>>

Rules(e) ==
    << <<"C13.no-panic", e.ret # "panic">>,
       \* Return(ok): every byte of the complete result reached the underlying stream(s)
       <<"C13.ok-means-delivered", e.ret = "ok" => (e.store_md5 = ref.store_md5 /\ e.out_md5 = ref.out_md5)>>,
       \* a read error (not the retryable Interrupted kind, not a legal short read) is propagated
       <<"C13.read-error-propagated",
           (ref.kind = "read" /\ e.hit /\ e.mode \in {"permanent", "transient"}) => e.ret = "err">> >>

Init == l = 1 /\ ref = [id |-> ""]
Next ==
    /\ l <= Len(Rec) /\ l' = l + 1
    /\ LET e == Rec[l] IN
       IF e.ev = "scenario"
       THEN /\ ref' = e
            /\ IF e.ret # "ok" THEN PrintT(<<"REJECT", l, l, "C13.reference-run-failed">>) ELSE TRUE
       ELSE IF e.ev = "fault"
       THEN /\ LET rs == Rules(e) IN \A i \in 1..Len(rs) : IF rs[i][2] THEN TRUE ELSE PrintT(<<"REJECT", l, l, rs[i][1]>>)
            /\ UNCHANGED ref
       ELSE UNCHANGED ref
Spec == Init /\ [][Next]_tvars
Post == IF TLCGet("stats").diameter - 1 = Len(Rec) THEN PrintT(<<"TRACE-DONE", Len(Rec)>>)
        ELSE PrintT(<<"TRACE-INCOMPLETE", TLCGet("stats").diameter, Len(Rec)>>)
=======================================================================
