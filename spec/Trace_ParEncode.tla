--------------------------- MODULE Trace_ParEncode ---------------------------
(* C18 on real runs: "serial" events give the single-threaded output per job;    *)
(* every "par" event (rayon build, N threads, perturbed schedule) must have the  *)
(* same bytes; its recorded schedule must be well nested: tasks of the same kind *)
(* on the same cache never overlap, and all tasks of one frame end before the    *)
(* next frame starts.                                                            *)
EXTENDS Integers, Sequences, FiniteSets, TLC, Json, IOUtils
Rec == ndJsonDeserialize(IOEnv.TRACE)
VARIABLES l, serial
tvars == <<l, serial>>
\* sched entries: <<1 start / 0 end / 2 frame boundary, kind, key, thread>>
RECURSIVE Walk(_, _, _)
\* open = set of <<kind, key>> currently running; returns "ok" or the violated rule
Walk(s, i, open) ==
    IF i > Len(s) THEN (IF open = {} THEN "ok" ELSE "task never ended")
    ELSE LET e == s[i] k == <<e[2], e[3]>> IN
         IF e[1] = 2 THEN (IF open = {} THEN Walk(s, i + 1, open) ELSE "frame started while tasks of the previous frame were running")
         ELSE IF e[1] = 1 THEN (IF k \in open THEN "two tasks of the same kind on the same cache overlap" ELSE Walk(s, i + 1, open \cup {k}))
         ELSE (IF k \notin open THEN "task ended that never started" ELSE Walk(s, i + 1, open \ {k}))
Judge(e) ==
    LET w == Walk(e.sched, 1, {}) IN
    /\ IF ~e.ok THEN PrintT(<<"REJECT", e.job, l, "C18.parallel-encode-succeeds">>) ELSE TRUE
    /\ IF e.job \in DOMAIN serial /\ (serial[e.job].md5 # e.md5 \/ serial[e.job].len # e.len)
       THEN PrintT(<<"REJECT", e.job, l, "C18.same-bytes-as-serial", e.threads>>) ELSE TRUE
    /\ IF w # "ok" THEN PrintT(<<"REJECT", e.job, l, "C18.schedule-well-formed", w>>) ELSE TRUE
Init == l = 1 /\ serial = <<>>
Next == /\ l <= Len(Rec) /\ l' = l + 1
        /\ LET e == Rec[l] IN
           IF e.ev = "serial" THEN serial' = serial @@ (e.job :> [md5 |-> e.md5, len |-> e.len])
           ELSE IF e.ev = "par" THEN Judge(e) /\ UNCHANGED serial
           ELSE UNCHANGED serial
Spec == Init /\ [][Next]_tvars
Post == IF TLCGet("stats").diameter - 1 = Len(Rec) THEN PrintT(<<"TRACE-DONE", Len(Rec)>>)
        ELSE PrintT(<<"TRACE-INCOMPLETE", TLCGet("stats").diameter, Len(Rec)>>)
=======================================================================
