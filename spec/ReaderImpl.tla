--------------------------- MODULE ReaderImpl ---------------------------
(***************************************************************************)
(* (B)-level, implementation-shaped model of src/decode.rs:                *)
(*   Decoder  (current_sample, position of the underlying reader, frame    *)
(*             buffer, seek-table lookup)                                  *)
(*   FlacByteReader / FlacSampleReader  (VecDeque buffer of bytes/samples) *)
(*   FlacChannelReader                  (consumed index into the decoder's *)
(*                                       own frame buffer)                 *)
(* One operator per critical section of the code, composed exactly as the  *)
(* code composes them (seek = lookup, invalidate, fill/consume loop).      *)
(*                                                                         *)
(* The model is a deterministic state machine  Step(s, op) = <<s', out>>;  *)
(* TLC explores every reachable state under an alphabet of operations and  *)
(* checks that every step is a step of ReaderAbs under the refinement      *)
(* mapping below (C06, C07).  `Defects` re-enables the behaviour of the    *)
(* pinned tree before the fix: commits; with any of them the refinement    *)
(* FAILS, which is the non-vacuity test of this specification.             *)
(***************************************************************************)
EXTENDS Integers, Sequences, FiniteSets, TLC

CONSTANTS
    FrontEnd,     \* "byte" | "sample" | "channel"
    U,            \* units per PCM frame: bytes-per-PCM-frame | channels | 1
    Blocks,       \* sequence of frame lengths in PCM frames
    SeekPts,      \* seek table: sequence of frame indices (1..N), 0 = placeholder
    TotalKnown,   \* STREAMINFO declares the total
    Defects,      \* subset of {"end_in_samples","chan_seek_stale","chan_eos_stale"}
    ReadSizes, SeekTargets, ByteSeeks, ConsumeAmts     \* operation alphabet

N == Len(Blocks)
RECURSIVE StartOf(_)
StartOf(i) == IF i <= 1 THEN 0 ELSE StartOf(i - 1) + Blocks[i - 1]
TotalF == StartOf(N + 1)          \* PCM frames in the stream
TotalU == TotalF * U              \* units in the stream
Min(a, b) == IF a < b THEN a ELSE b
Max(S) == CHOOSE x \in S : \A y \in S : y <= x

VARIABLES s, out
vars == <<s, out>>

(* s.cur  decoder.current_sample          s.fi   next frame the source yields *)
(* s.dlo,s.dhi  PCM-frame interval held by the decoder's frame buffer         *)
(* s.blo,s.bhi  unit interval held by the byte/sample reader's VecDeque       *)
(* s.consumed   channel reader's index    s.said  last call signalled EOS     *)
(* s.unk  position unspecified after a failed seek (refinement bookkeeping)   *)
Init0 == [cur |-> 0, fi |-> 1, dlo |-> 0, dhi |-> 0, blo |-> 0, bhi |-> 0,
          consumed |-> 0, said |-> FALSE, unk |-> FALSE]

-----------------------------------------------------------------------------
(* Decoder::read_frame  (src/decode.rs)                                     *)
ReadFrame(st) ==
    IF TotalKnown /\ st.cur = TotalF THEN [st |-> st, r |-> "none"]
    ELSE IF st.fi <= N
         THEN [st |-> [st EXCEPT !.cur = @ + Blocks[st.fi], !.fi = @ + 1,
                                 !.dlo = StartOf(st.fi),
                                 !.dhi = StartOf(st.fi) + Blocks[st.fi]],
               r |-> "some"]
         ELSE IF TotalKnown THEN [st |-> st, r |-> "err"]      \* data ran out early
              ELSE [st |-> st, r |-> "none"]                   \* EOF = end of stream

(* Decoder::seek: last defined point at or before the target, else rewind  *)
DecSeek(st, sample) ==
    LET cand == {i \in DOMAIN SeekPts : SeekPts[i] # 0 /\ StartOf(SeekPts[i]) <= sample}
    IN IF cand # {}
       THEN LET f == SeekPts[Max(cand)] IN [st EXCEPT !.fi = f, !.cur = StartOf(f)]
       ELSE [st EXCEPT !.fi = 1, !.cur = 0]

-----------------------------------------------------------------------------
(* byte / sample readers: refill-when-empty                                *)
Fill(st) ==
    IF st.blo < st.bhi THEN [st |-> st, r |-> "data"]
    ELSE LET rf == ReadFrame(st) IN
         IF rf.r = "some"
         THEN [st |-> [rf.st EXCEPT !.blo = rf.st.dlo * U, !.bhi = rf.st.dhi * U], r |-> "data"]
         ELSE [st |-> rf.st, r |-> IF rf.r = "none" THEN "eos" ELSE "err"]

OutEos == [kind |-> "eos"]
OutErr == [kind |-> "err"]

DoRead(st, n) ==       \* Read::read / FlacSampleReader::read / iterator next (n = 1)
    LET f == Fill(st) IN
    IF f.r = "data"
    THEN LET k == Min(n, f.st.bhi - f.st.blo) IN
         [st |-> [f.st EXCEPT !.blo = @ + k, !.said = FALSE, !.unk = FALSE],
          out |-> [kind |-> "data", lo |-> f.st.blo, len |-> k]]
    ELSE [st |-> [f.st EXCEPT !.said = (f.r = "eos"), !.unk = FALSE],
          out |-> IF f.r = "eos" THEN OutEos ELSE OutErr]

DoFill(st) ==          \* fill_buf
    LET f == Fill(st) IN
    IF f.r = "data"
    THEN [st |-> [f.st EXCEPT !.said = FALSE, !.unk = FALSE],
          out |-> [kind |-> "peek", lo |-> f.st.blo, len |-> f.st.bhi - f.st.blo]]
    ELSE [st |-> [f.st EXCEPT !.said = (f.r = "eos"), !.unk = FALSE],
          out |-> IF f.r = "eos" THEN OutEos ELSE OutErr]

DoConsume(st, k) == [st |-> [st EXCEPT !.blo = @ + k], out |-> [kind |-> "consume", k |-> k]]

(* skip-forward loop shared by the byte and sample readers' seek           *)
RECURSIVE SkipFwd(_, _, _)
SkipFwd(st, p, want) ==      \* p, want in units
    IF p >= want THEN [st |-> st, ok |-> TRUE]
    ELSE LET f == Fill(st) IN
         IF f.r # "data" THEN [st |-> f.st, ok |-> FALSE]
         ELSE LET k == Min(want - p, f.st.bhi - f.st.blo) IN
              SkipFwd([f.st EXCEPT !.blo = @ + k], p + k, want)

DoSeekSample(st, t) ==       \* FlacSampleReader::seek(t), t in PCM frames
    LET d  == DecSeek(st, t)
        c  == [d EXCEPT !.blo = 0, !.bhi = 0]                 \* buf.clear()
        sk == SkipFwd(c, c.cur * U, t * U)
    IN IF sk.ok
       THEN [st |-> [sk.st EXCEPT !.said = FALSE, !.unk = FALSE],
             out |-> [kind |-> "seekok", t |-> t * U, ret |-> t * U, endrel |-> FALSE]]
       ELSE [st |-> [sk.st EXCEPT !.said = FALSE, !.unk = TRUE],
             out |-> [kind |-> "seekerr", t |-> t * U, endrel |-> FALSE]]

(* Seek for FlacByteReader: whence \in {"start","current","end"}           *)
DoSeekByte(st, whence, off) ==
    LET orig == st.cur * U - (st.bhi - st.blo)
        maxp == IF "end_in_samples" \in Defects THEN TotalF ELSE TotalU
        refused == [st |-> [st EXCEPT !.unk = TRUE, !.said = FALSE],
                    out |-> [kind |-> "seekerr",
                             t |-> CASE whence = "start" -> off
                                     [] whence = "current" -> orig + off
                                     [] OTHER -> TotalU + off,
                             endrel |-> whence = "end"]]
    IN
    IF whence = "current" /\ off = 0
    THEN [st |-> [st EXCEPT !.unk = FALSE], out |-> [kind |-> "tell", p |-> orig]]
    ELSE IF whence = "current" /\ orig + off < 0 THEN refused
    ELSE IF whence = "end" /\ (~TotalKnown \/ off > 0 \/ maxp + off < 0) THEN refused
    ELSE LET want == CASE whence = "start" -> off
                       [] whence = "current" -> orig + off
                       [] OTHER -> maxp + off
             d  == DecSeek(st, want \div U)
             c  == [d EXCEPT !.blo = 0, !.bhi = 0]
             sk == SkipFwd(c, c.cur * U, want)
             \* what the caller asked for, in true stream terms
             asked == CASE whence = "start" -> off
                        [] whence = "current" -> orig + off
                        [] OTHER -> TotalU + off
         IN IF sk.ok
            THEN [st |-> [sk.st EXCEPT !.said = FALSE, !.unk = FALSE],
                  out |-> [kind |-> "seekok", t |-> asked, ret |-> want, endrel |-> whence = "end"]]
            ELSE [st |-> [sk.st EXCEPT !.said = FALSE, !.unk = TRUE],
                  out |-> [kind |-> "seekerr", t |-> asked, endrel |-> whence = "end"]]

-----------------------------------------------------------------------------
(* channel reader: the decoder's frame buffer is the buffer                *)
CAvail(st) == (st.dhi - st.dlo) - st.consumed
CFill(st) ==
    IF st.consumed < st.dhi - st.dlo THEN [st |-> st, r |-> "data"]
    ELSE LET st0 == IF "chan_eos_stale" \in Defects THEN [st EXCEPT !.consumed = 0] ELSE st
             rf  == ReadFrame(st0)
         IN IF rf.r = "some" THEN [st |-> [rf.st EXCEPT !.consumed = 0], r |-> "data"]
            ELSE [st |-> rf.st, r |-> IF rf.r = "none" THEN "eos" ELSE "err"]

DoFillC(st) ==
    LET f == CFill(st) IN
    IF f.r = "data"
    THEN [st |-> [f.st EXCEPT !.said = FALSE, !.unk = FALSE],
          out |-> [kind |-> "peek", lo |-> f.st.dlo + f.st.consumed, len |-> CAvail(f.st)]]
    ELSE [st |-> [f.st EXCEPT !.said = (f.r = "eos"), !.unk = FALSE],
          out |-> IF f.r = "eos" THEN OutEos ELSE OutErr]

DoConsumeC(st, k) == [st |-> [st EXCEPT !.consumed = @ + k], out |-> [kind |-> "consume", k |-> k]]

RECURSIVE SkipFwdC(_, _, _)
SkipFwdC(st, p, want) ==
    IF p >= want THEN [st |-> st, ok |-> TRUE]
    ELSE LET f == CFill(st) IN
         IF f.r # "data" THEN [st |-> f.st, ok |-> FALSE]
         ELSE LET k == Min(want - p, CAvail(f.st)) IN
              SkipFwdC([f.st EXCEPT !.consumed = @ + k], p + k, want)

DoSeekChannel(st, t) ==
    LET d  == DecSeek(st, t)
        \* "seeking invalidates the current samples consumed"
        c  == IF "chan_seek_stale" \in Defects THEN [d EXCEPT !.consumed = 0]
              ELSE [d EXCEPT !.consumed = d.dhi - d.dlo]
        sk == SkipFwdC(c, c.cur, t)
    IN IF sk.ok
       THEN [st |-> [sk.st EXCEPT !.said = FALSE, !.unk = FALSE],
             out |-> [kind |-> "seekok", t |-> t, ret |-> t, endrel |-> FALSE]]
       ELSE [st |-> [sk.st EXCEPT !.said = FALSE, !.unk = TRUE],
             out |-> [kind |-> "seekerr", t |-> t, endrel |-> FALSE]]

-----------------------------------------------------------------------------
(* operation alphabet and the transition relation                          *)
Buffered(st) == IF FrontEnd = "channel" THEN CAvail(st) ELSE st.bhi - st.blo

Ops ==
    (IF FrontEnd = "channel" THEN {} ELSE {[op |-> "read", n |-> n] : n \in ReadSizes})
    \cup {[op |-> "fill"]}
    \cup {[op |-> "consume", k |-> k] : k \in ConsumeAmts}
    \cup (IF FrontEnd = "byte"
          THEN {[op |-> "seekb", whence |-> b[1], off |-> b[2]] : b \in ByteSeeks}
          ELSE {[op |-> "seek", t |-> t] : t \in SeekTargets})

Enabled(st, o) == o.op = "consume" => o.k <= Buffered(st)

Step(st, o) ==
    CASE o.op = "read"    -> DoRead(st, o.n)
      [] o.op = "fill"    -> IF FrontEnd = "channel" THEN DoFillC(st) ELSE DoFill(st)
      [] o.op = "consume" -> IF FrontEnd = "channel" THEN DoConsumeC(st, o.k) ELSE DoConsume(st, o.k)
      [] o.op = "seek"    -> IF FrontEnd = "channel" THEN DoSeekChannel(st, o.t) ELSE DoSeekSample(st, o.t)
      [] o.op = "seekb"   -> DoSeekByte(st, o.whence, o.off)

Init == s = Init0 /\ out = [op |-> [op |-> "init"], res |-> [kind |-> "init"]]
Next == \E o \in Ops : Enabled(s, o) /\ LET r == Step(s, o) IN s' = r.st /\ out' = [op |-> o, res |-> r.out]
Spec == Init /\ [][Next]_vars

-----------------------------------------------------------------------------
(* Refinement to ReaderAbs                                                  *)
APosOf(st) ==
    IF st.unk THEN -1
    ELSE IF FrontEnd = "channel"
         THEN (IF st.consumed < st.dhi - st.dlo THEN st.dlo + st.consumed ELSE st.cur)
         ELSE (IF st.blo < st.bhi THEN st.blo ELSE st.cur * U)

A == INSTANCE ReaderAbs WITH total <- TotalU, known <- TotalKnown, pos <- APosOf(s), eos <- s.said

RefStep ==
    CASE out'.res.kind = "data"    -> A!Deliver({out'.res.lo}, out'.res.len)
      [] out'.res.kind = "peek"    -> A!Peek({out'.res.lo}, out'.res.len)
      [] out'.res.kind = "consume" -> A!Consume(out'.res.k)
      [] out'.res.kind = "eos"     -> A!Eos
      [] out'.res.kind = "seekok"  -> A!SeekOk(out'.res.t, out'.res.ret)
      [] out'.res.kind = "seekerr" -> A!SeekErr(out'.res.t, out'.res.endrel)
      [] out'.res.kind = "tell"    -> A!Tell(out'.res.p)
      [] OTHER -> FALSE        \* "err" on a valid stream has no abstract counterpart

Refines == [][RefStep]_vars
AInv == A!InRange /\ A!EosOnlyAtEnd /\ A!NoDataAtEnd
\* decoder bookkeeping stays consistent with the source position
DecoderConsistent == s.cur = StartOf(s.fi) /\ s.fi \in 1..(N + 1)
=======================================================================
