--------------------------- MODULE CommentAlgebra ---------------------------
(***************************************************************************)
(* Growth beyond the listed properties: the VORBIS_COMMENT field algebra   *)
(* (VorbisComment::get / all / set / insert / remove / replace /           *)
(* replace_with).  A comment block is an ordered list of KEY=value fields; *)
(* keys compare ASCII-case-insensitively; insert appends; remove deletes   *)
(* every field of the key; set = remove + insert; replace = remove +       *)
(* append all; replace_with maps the values in place keeping the stored    *)
(* spelling of the key.  TLC enumerates operation sequences and emits,     *)
(* after each step, the field list and query results the real block must   *)
(* show (wired into C11's check).                                          *)
(***************************************************************************)
EXTENDS Integers, Sequences, TLC, Json

CONSTANTS Keys,        \* spellings, e.g. {"TITLE", "title", "ARTIST"}
          Fold,        \* Fold[k] = canonical (upper-case) key
          Values, MaxOps

VARIABLES fields, hist
vars == <<fields, hist>>
Same(a, b) == Fold[a] = Fold[b]
All(fs, k) == LET sel == SelectSeq(fs, LAMBDA f : Same(f[1], k)) IN [i \in 1..Len(sel) |-> sel[i][2]]
Remove(fs, k) == SelectSeq(fs, LAMBDA f : ~Same(f[1], k))
Insert(fs, k, v) == Append(fs, <<k, v>>)
Apply(fs, o) ==
    CASE o.op = "insert" -> Insert(fs, o.k, o.v)
      [] o.op = "set" -> Insert(Remove(fs, o.k), o.k, o.v)
      [] o.op = "remove" -> Remove(fs, o.k)
      [] o.op = "replace" -> Remove(fs, o.k) \o [i \in 1..Len(o.vs) |-> <<o.k, o.vs[i]>>]
      [] o.op = "replace_with" -> [i \in 1..Len(fs) |-> IF Same(fs[i][1], o.k) THEN <<fs[i][1], fs[i][2] \o "!">> ELSE fs[i]]
Ops == {[op |-> "insert", k |-> k, v |-> v] : k \in Keys, v \in Values}
       \cup {[op |-> "set", k |-> k, v |-> v] : k \in Keys, v \in Values}
       \cup {[op |-> "remove", k |-> k] : k \in Keys}
       \cup {[op |-> "replace", k |-> k, vs |-> vs] : k \in Keys, vs \in {<<>>, <<"x", "y">>}}
       \cup {[op |-> "replace_with", k |-> k] : k \in Keys}
Init == fields = <<>> /\ hist = <<>>
Next == /\ Len(hist) < MaxOps
        /\ \E o \in Ops : fields' = Apply(fields, o)
                          /\ hist' = Append(hist, [op |-> o, after |-> Apply(fields, o),
                                                   queries |-> [k \in Keys |-> All(Apply(fields, o), k)]])
Spec == Init /\ [][Next]_vars
View == fields
Emit == hist = <<>> \/ PrintT(<<"GEN", ToJson(hist)>>)

(* laws *)
SetThenGet == \A k \in Keys, v \in Values : All(Apply(fields, [op |-> "set", k |-> k, v |-> v]), k) = <<v>>
RemoveRemovesAllSpellings == \A k, j \in Keys : Same(k, j) => All(Apply(fields, [op |-> "remove", k |-> k]), j) = <<>>
OthersUntouched == \A k, j \in Keys : ~Same(k, j) => All(Apply(fields, [op |-> "remove", k |-> k]), j) = All(fields, j)
InsertAppends == \A k \in Keys, v \in Values : LET a == All(Apply(fields, [op |-> "insert", k |-> k, v |-> v]), k) IN a[Len(a)] = v /\ Len(a) = Len(All(fields, k)) + 1
=======================================================================
