--------------------------- MODULE Trace_StreamSync ---------------------------
(* C16 on real runs.  Each "arr" event is one arrangement read to the end under *)
(* one segmentation of the buffered source; each "frame" event is a frame the    *)
(* stream writer emitted, which the format model must decode from its header.    *)
EXTENDS FlacFormat, Json, IOUtils
Rec == ndJsonDeserialize(IOEnv.TRACE)
VARIABLE l
HasPair(g) == \E k \in 1..Len(g) : \E j \in 1..(Len(g[k]) - 1) : g[k][j] = "FF" /\ g[k][j + 1] = "S"
JudgeArr(e) ==
    /\ IF e.panicked THEN PrintT(<<"REJECT", e.id, l, "C16.no-panic">>) ELSE TRUE
    /\ IF \E i \in 1..Len(e.returned) : e.returned[i] < 1 \/ e.returned[i] > e.n
       THEN PrintT(<<"REJECT", e.id, l, "C16.no-fabricated-frame">>) ELSE TRUE
    /\ IF \E i \in 1..(Len(e.returned) - 1) : e.returned[i] >= e.returned[i + 1]
       THEN PrintT(<<"REJECT", e.id, l, "C16.returned-in-written-order">>) ELSE TRUE
    /\ IF ~HasPair(e.garbage) /\ e.returned # [i \in 1..e.n |-> i]
       THEN PrintT(<<"REJECT", e.id, l, "C16.sync-free-garbage-costs-no-frame">>) ELSE TRUE
    /\ IF e.pred # <<>> /\ ~(\E i \in 1..Len(e.pred) : e.pred[i] = e.returned)
       THEN PrintT(<<"DRIFT", e.id, l, "model allows", e.pred, "returned", e.returned>>) ELSE TRUE
JudgeFrame(e) ==
    LET f == Frame(e.bytes, 0, NoSI) IN
    /\ IF f.errs # {} \/ f.hdr.srcode = 0 \/ f.hdr.bpscode = 0 \/ f.next # Len(e.bytes)
       THEN PrintT(<<"REJECT", e.id, l, "C16.frame-is-self-describing", f.errs>>) ELSE TRUE
    /\ IF f.errs = {} /\ (InterleaveFrame(f) # e.samples \/ f.hdr.rate # e.rate \/ f.hdr.nch # e.channels \/ f.hdr.bps # e.bps)
       THEN PrintT(<<"REJECT", e.id, l, "C16.frame-decodes-from-its-own-header">>) ELSE TRUE
Init == l = 1
Next == /\ l <= Len(Rec) /\ l' = l + 1
        /\ LET e == Rec[l] IN
           IF e.ev = "arr" THEN JudgeArr(e) ELSE IF e.ev = "frame" THEN JudgeFrame(e) ELSE TRUE
Spec == Init /\ [][Next]_l
Post == IF TLCGet("stats").diameter - 1 = Len(Rec) THEN PrintT(<<"TRACE-DONE", Len(Rec)>>)
        ELSE PrintT(<<"TRACE-INCOMPLETE", TLCGet("stats").diameter, Len(Rec)>>)
=======================================================================
