--------------------------- MODULE Trace_StreamSync ---------------------------
(* C16 on real runs.  Each "arr" event is one arrangement read to the end under *)
(* one segmentation of the buffered source; each "frame" event is a frame the    *)
(* stream writer emitted, which the format model must decode from its header.    *)
EXTENDS FlacFormat, Json, IOUtils
Rec == ndJsonDeserialize(IOEnv.TRACE)
VARIABLE l
HasPair(g) == \E k \in 1..Len(g) : \E j \in 1..(Len(g[k]) - 1) : g[k][j] = "FF" /\ g[k][j + 1] = "S"
JudgeArr(e) ==
    /\ IF e.panicked THEN PrintT(<<"REJECT", e.id, l, "C16.no-panic">>) ELSE TRUE
    /\ IF \E i \in 1..Len(e.returned) : e.returned[i] < 1 \/ e.returned[i] > e.n
       THEN PrintT(<<"REJECT", e.id, l, "C16.no-fabricated-frame">>) ELSE TRUE
    /\ IF \E i \in 1..(Len(e.returned) - 1) : e.returned[i] >= e.returned[i + 1]
       THEN PrintT(<<"REJECT", e.id, l, "C16.returned-in-written-order">>) ELSE TRUE
    \* (a refill answered with Interrupted is no damage to the stream: StreamSync.SyncFreeGarbageCostsNothing holds with such answers)
    /\ IF ~HasPair(e.garbage) /\ ~e.fault.io /\ e.returned # [i \in 1..e.n |-> i]
       THEN PrintT(<<"REJECT", e.id, l, IF e.fault.at >= 0 THEN "C16.interrupted-refill-costs-no-frame" ELSE "C16.sync-free-garbage-costs-no-frame">>) ELSE TRUE
    \* a transient I/O error of the source: StreamSync.ErrorsPropagated / LossesAreReported (C13's clause, gated there by the read-stream
    \* fault scenarios; reported here as a growth note)
    /\ IF e.fault.io /\ (e.ioerrs_reported # 1 \/ (~HasPair(e.garbage) /\ Len(e.returned) < e.n - e.ioerrs_reported))
       THEN PrintT(<<"REJECT", e.id, l, "growth.stream-reader-loses-frames-only-to-reported-errors">>) ELSE TRUE
    \* (the model's frames are longer than its headers: a failed header attempt cannot swallow a whole frame; real frames of one or two
    \* samples are shorter than the longest header, so the prediction is compared only when every frame has at least 16 bytes)
    /\ IF e.pred # <<>> /\ e.fault.at < 0 /\ e.min_frame_bytes >= 16 /\ ~(\E i \in 1..Len(e.pred) : e.pred[i] = e.returned)
       THEN PrintT(<<"DRIFT", e.id, l, "model allows", e.pred, "returned", e.returned>>) ELSE TRUE
JudgeFrame(e) ==
    LET f == Frame(e.bytes, 0, NoSI) IN
    /\ IF f.errs # {} \/ f.hdr.srcode = 0 \/ f.hdr.bpscode = 0 \/ f.next # Len(e.bytes)
       THEN PrintT(<<"REJECT", e.id, l, "C16.frame-is-self-describing", f.errs>>) ELSE TRUE
    /\ IF f.errs = {} /\ (InterleaveFrame(f) # e.samples \/ f.hdr.rate # e.rate \/ f.hdr.nch # e.channels \/ f.hdr.bps # e.bps)
       THEN PrintT(<<"REJECT", e.id, l, "C16.frame-decodes-from-its-own-header">>) ELSE TRUE
\* one writer, several frames, refused calls in between: the output is exactly the accepted frames, each decodable from its own
\* header, numbered 0, 1, 2, ... (RFC 9639: the coded number of a fixed-blocksize stream is the frame number)
JudgeSequence(e) ==
    LET fs == FramesFrom(e.bytes, 0, NoSI, <<>>)
        n == Len(e.accepted)
        Bad(i) == \/ fs[i].errs # {}
                  \/ fs[i].hdr.num.val # i - 1 \/ fs[i].hdr.variable
                  \/ InterleaveFrame(fs[i]) # e.accepted[i].samples
                  \/ fs[i].hdr.rate # e.accepted[i].rate \/ fs[i].hdr.nch # e.accepted[i].channels \/ fs[i].hdr.bps # e.accepted[i].bps
        \* C19 for raw frame streams (consumed by C19's check, ignored by C16's): header (<= 16 bytes) + per channel 8 + 32 bits +
        \* the samples verbatim at the frame's own depth (+ 1 bit per sample for one channel of a stereo pair) + CRC-16
        CeilDiv(a, d) == (a + d - 1) \div d
        Bound(f) == 16 + CeilDiv(f.hdr.nch * 40 + f.bs * f.hdr.nch * f.hdr.bps + (IF f.hdr.nch = 2 THEN f.bs ELSE 0), 8) + 2
    IN /\ \A i \in 1..Len(fs) : IF fs[i].errs = {} /\ fs[i].bytes > Bound(fs[i])
                                 THEN PrintT(<<"NOTE", "oversize", e.id, i, fs[i].bytes, Bound(fs[i])>>) ELSE TRUE
       /\ IF e.panicked THEN PrintT(<<"REJECT", e.id, l, "C16.no-panic">>) ELSE TRUE
       /\ IF Len(fs) # n \/ (n > 0 /\ fs[Len(fs)].next # Len(e.bytes)) \/ \E i \in 1..(IF Len(fs) < n THEN Len(fs) ELSE n) : Bad(i)
          THEN PrintT(<<"REJECT", e.id, l, "C16.one-writer-emits-the-accepted-frames-numbered-from-0",
                        [i \in 1..Len(fs) |-> IF fs[i].errs = {} THEN fs[i].hdr.num.val ELSE -1]>>) ELSE TRUE
Init == l = 1
Next == /\ l <= Len(Rec) /\ l' = l + 1
        /\ LET e == Rec[l] IN
           IF e.ev = "arr" THEN JudgeArr(e) ELSE IF e.ev = "frame" THEN JudgeFrame(e)
           ELSE IF e.ev = "sequence" THEN JudgeSequence(e) ELSE TRUE
Spec == Init /\ [][Next]_l
Post == IF TLCGet("stats").diameter - 1 = Len(Rec) THEN PrintT(<<"TRACE-DONE", Len(Rec)>>)
        ELSE PrintT(<<"TRACE-INCOMPLETE", TLCGet("stats").diameter, Len(Rec)>>)
=======================================================================
