--------------------------- MODULE StreamSync ---------------------------
(***************************************************************************)
(* C16: FlacStreamReader::read over a raw frame stream with arbitrary      *)
(* bytes between the frames (src/decode.rs).                               *)
(*                                                                         *)
(* Input = g0 F1 g1 F2 ... Fn gn.  A frame is FrameLen byte-tokens, the    *)
(* first being 0xFF and the second a sync-second-half (top 7 bits          *)
(* 1111100); garbage is a string over {FF, S, x}.  (B): skip_until(0xFF),  *)
(* peek one byte, and on a sync-second-half try to parse a header from     *)
(* 0xFF + what follows - an attempt that fails has CONSUMED up to          *)
(* HeaderLen bytes, which is how sync-like garbage can cost a frame.       *)
(* (A): the frames returned are a subsequence, in order, of the written    *)
(* frames; garbage without an adjacent FF S pair costs nothing.            *)
(* Simplification: frame payload tokens are not sync-like.                 *)
(***************************************************************************)
EXTENDS Integers, Sequences, FiniteSets, TLC

CONSTANTS NFrames, FrameLen, HeaderLen, GarbageStrings, Defects,
          MaxFaults     \* how many times the source may answer a refill with an error (Interrupted, or a transient I/O error)

VARIABLES input,       \* sequence of tokens: [f |-> frame id or 0, k |-> position in frame, b |-> "FF" | "S" | "x"]
          cur,         \* next unread token (1-based)
          returned,    \* frame ids handed to the caller, in order
          status,      \* "run" | "eof"
          faults,      \* source errors still available
          injected,    \* transient I/O errors (not Interrupted) the source has answered with
          reported     \* read() calls that returned an I/O error to the caller
vars == <<input, cur, returned, status, faults, injected, reported>>

FrameTokens(i) == [k \in 1..FrameLen |-> [f |-> i, k |-> k, b |-> IF k = 1 THEN "FF" ELSE IF k = 2 THEN "S" ELSE "x"]]
GarbageTokens(g) == [j \in 1..Len(g) |-> [f |-> 0, k |-> 0, b |-> g[j]]]
RECURSIVE Build(_, _)
Build(gs, i) == IF i > NFrames THEN GarbageTokens(gs[NFrames + 1])
                ELSE GarbageTokens(gs[i]) \o FrameTokens(i) \o Build(gs, i + 1)

Init == /\ \E gs \in [1..(NFrames + 1) -> GarbageStrings] : input = Build(gs, 1)
        /\ cur = 1 /\ returned = <<>> /\ status = "run"
        /\ faults = MaxFaults /\ injected = 0 /\ reported = 0

NextFF(from) == IF \E j \in from..Len(input) : input[j].b = "FF"
                THEN CHOOSE j \in from..Len(input) : input[j].b = "FF" /\ \A i \in from..(j - 1) : input[i].b # "FF"
                ELSE 0
Clip(x) == IF x > Len(input) THEN Len(input) + 1 ELSE x

(* one call of read(): the set of possible [cur, out, n, inj]; out = frame id, 0 for the EOF error, -1 for an I/O error handed to the   *)
(* caller; n = source errors left, inj = transient errors injected during the call.                                                    *)
(* A failed header attempt on sync-like garbage has consumed between 1 and HeaderLen bytes after the 0xFF (how many depends on where   *)
(* the header parse gives up).  The source may answer any refill with an error:                                                        *)
(*  - Interrupted while peeking the byte after a consumed 0xFF: the peek is asked again (defect "interrupted_rescans": the scan for    *)
(*    0xFF starts over BEHIND the consumed byte - the frame whose sync code the refill split is lost); elsewhere std retries it;       *)
(*  - a transient I/O error while a header is parsed or a frame body read: read() returns it, having consumed part of the frame        *)
(*    (defect "header_io_error_swallowed": taken for a false sync, the scan goes on and nobody is told).                              *)
RECURSIVE ScanSet(_, _, _)
ScanSet(c, n, inj) ==
    LET j == NextFF(c) IN
    IF j = 0 \/ j = Len(input) THEN {[cur |-> Len(input) + 1, out |-> 0, n |-> n, inj |-> inj]}     \* eof looking for frame sync
    ELSE
    (IF n > 0 /\ "interrupted_rescans" \in Defects THEN ScanSet(j + 1, n - 1, inj) ELSE {})         \* Interrupted at the peek
    \cup
    (IF input[j + 1].b # "S" THEN ScanSet(j + 1, n, inj)                                              \* peeked, not consumed
     ELSE IF input[j].f # 0 /\ input[j].k = 1
          THEN {[cur |-> j + FrameLen, out |-> input[j].f, n |-> n, inj |-> inj]}                      \* a genuine frame start
               \cup (IF n = 0 THEN {}
                     ELSE \* the source fails inside the header ...
                          (IF "header_io_error_swallowed" \in Defects
                           THEN UNION {ScanSet(Clip(j + k), n - 1, inj + 1) : k \in 2..HeaderLen}
                           ELSE {[cur |-> Clip(j + k), out |-> -1, n |-> n - 1, inj |-> inj + 1] : k \in 2..HeaderLen})
                          \* ... or inside the frame body
                          \cup {[cur |-> Clip(j + k), out |-> -1, n |-> n - 1, inj |-> inj + 1] : k \in HeaderLen..FrameLen})
          ELSE \* sync-like garbage: the header attempt eats bytes, then the scan goes on
               IF "fake_sync_consumes_nothing" \in Defects THEN ScanSet(j + 1, n, inj)
               ELSE UNION {ScanSet(Clip(j + k), n, inj) : k \in 2..HeaderLen})

Read == /\ status = "run"
        /\ \E r \in ScanSet(cur, faults, 0) :
           /\ cur' = r.cur /\ faults' = r.n /\ injected' = injected + r.inj
           /\ IF r.out = 0 THEN status' = "eof" /\ UNCHANGED <<returned, reported>>
              ELSE IF r.out = -1 THEN reported' = reported + 1 /\ UNCHANGED <<returned, status>>
              ELSE returned' = Append(returned, r.out) /\ UNCHANGED <<status, reported>>
        /\ UNCHANGED input
Spec == Init /\ [][Read]_vars

(* C16 *)
InOrderSubsequence == \A i \in 1..(Len(returned) - 1) : returned[i] < returned[i + 1]
OnlyWrittenFrames == \A i \in 1..Len(returned) : returned[i] \in 1..NFrames
HasSyncPair == \E j \in 1..(Len(input) - 1) : input[j].f = 0 /\ input[j].b = "FF" /\ input[j + 1].b = "S"
\* (Interrupted answers of the source included: they cost nothing either)
SyncFreeGarbageCostsNothing == (status = "eof" /\ ~HasSyncPair /\ injected = 0) => returned = [i \in 1..NFrames |-> i]
(* C13 for the stream reader: every I/O error of the source came back to the caller, and only a reported error costs a frame *)
ErrorsPropagated == injected = reported
LossesAreReported == (status = "eof" /\ ~HasSyncPair) => Len(returned) >= NFrames - reported
=======================================================================
