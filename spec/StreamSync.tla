--------------------------- MODULE StreamSync ---------------------------
(***************************************************************************)
(* C16: FlacStreamReader::read over a raw frame stream with arbitrary      *)
(* bytes between the frames (src/decode.rs).                               *)
(*                                                                         *)
(* Input = g0 F1 g1 F2 ... Fn gn.  A frame is FrameLen byte-tokens, the    *)
(* first being 0xFF and the second a sync-second-half (top 7 bits          *)
(* 1111100); garbage is a string over {FF, S, x}.  (B): skip_until(0xFF),  *)
(* peek one byte, and on a sync-second-half try to parse a header from     *)
(* 0xFF + what follows - an attempt that fails has CONSUMED up to          *)
(* HeaderLen bytes, which is how sync-like garbage can cost a frame.       *)
(* (A): the frames returned are a subsequence, in order, of the written    *)
(* frames; garbage without an adjacent FF S pair costs nothing.            *)
(* Simplification: frame payload tokens are not sync-like.                 *)
(***************************************************************************)
EXTENDS Integers, Sequences, FiniteSets, TLC

CONSTANTS NFrames, FrameLen, HeaderLen, GarbageStrings, Defects

VARIABLES input,       \* sequence of tokens: [f |-> frame id or 0, k |-> position in frame, b |-> "FF" | "S" | "x"]
          cur,         \* next unread token (1-based)
          returned,    \* frame ids handed to the caller, in order
          status       \* "run" | "eof"
vars == <<input, cur, returned, status>>

FrameTokens(i) == [k \in 1..FrameLen |-> [f |-> i, k |-> k, b |-> IF k = 1 THEN "FF" ELSE IF k = 2 THEN "S" ELSE "x"]]
GarbageTokens(g) == [j \in 1..Len(g) |-> [f |-> 0, k |-> 0, b |-> g[j]]]
RECURSIVE Build(_, _)
Build(gs, i) == IF i > NFrames THEN GarbageTokens(gs[NFrames + 1])
                ELSE GarbageTokens(gs[i]) \o FrameTokens(i) \o Build(gs, i + 1)

Init == /\ \E gs \in [1..(NFrames + 1) -> GarbageStrings] : input = Build(gs, 1)
        /\ cur = 1 /\ returned = <<>> /\ status = "run"

NextFF(from) == IF \E j \in from..Len(input) : input[j].b = "FF"
                THEN CHOOSE j \in from..Len(input) : input[j].b = "FF" /\ \A i \in from..(j - 1) : input[i].b # "FF"
                ELSE 0

(* one call of read(): the set of possible [cur, out]; out = frame id, or 0 for the EOF error.   *)
(* A failed header attempt on sync-like garbage has consumed between 1 and HeaderLen bytes      *)
(* after the 0xFF (how many depends on where the header parse gives up).                        *)
RECURSIVE ScanSet(_)
ScanSet(c) ==
    LET j == NextFF(c) IN
    IF j = 0 \/ j = Len(input) THEN {[cur |-> Len(input) + 1, out |-> 0]}          \* eof looking for frame sync
    ELSE IF input[j + 1].b # "S" THEN ScanSet(j + 1)                                  \* peeked, not consumed
    ELSE IF input[j].f # 0 /\ input[j].k = 1
         THEN {[cur |-> j + FrameLen, out |-> input[j].f]}                           \* a genuine frame start
         ELSE \* sync-like garbage: the header attempt eats bytes, then the scan goes on
              IF "fake_sync_consumes_nothing" \in Defects THEN ScanSet(j + 1)
              ELSE UNION {ScanSet(IF j + k > Len(input) THEN Len(input) + 1 ELSE j + k) : k \in 2..HeaderLen}

Read == /\ status = "run"
        /\ \E r \in ScanSet(cur) :
           /\ cur' = r.cur
           /\ IF r.out = 0 THEN status' = "eof" /\ UNCHANGED returned
              ELSE returned' = Append(returned, r.out) /\ UNCHANGED status
        /\ UNCHANGED input
Spec == Init /\ [][Read]_vars

(* C16 *)
InOrderSubsequence == \A i \in 1..(Len(returned) - 1) : returned[i] < returned[i + 1]
OnlyWrittenFrames == \A i \in 1..Len(returned) : returned[i] \in 1..NFrames
HasSyncPair == \E j \in 1..(Len(input) - 1) : input[j].f = 0 /\ input[j].b = "FF" /\ input[j + 1].b = "S"
SyncFreeGarbageCostsNothing == (status = "eof" /\ ~HasSyncPair) => returned = [i \in 1..NFrames |-> i]
=======================================================================
