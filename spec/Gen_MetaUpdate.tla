--------------------------- MODULE Gen_MetaUpdate ---------------------------
(* Edit histories for C10, one shortest history per distinct (file, last outcome) *)
EXTENDS MetaUpdate, Json
VARIABLES hist, init0
gvars == <<blocks, outcome, nedits, hist, init0>>
GInit == Init /\ hist = <<>> /\ init0 = blocks
GNext == /\ nedits < MaxEdits
         /\ \E e \in Edits :
              LET o == Update(e) IN
              /\ outcome' = o @@ [edit |-> e, old |-> blocks]
              /\ blocks' = IF o.res = "err" THEN blocks ELSE o.blocks
              /\ nedits' = nedits + 1
              /\ hist' = Append(hist, [edit |-> e, res |-> o.res,
                                       blocks |-> [i \in 1..Len(o.blocks) |-> <<o.blocks[i].k, o.blocks[i].n>>]])
         /\ UNCHANGED init0
GSpec == GInit /\ [][GNext]_gvars
View == <<blocks, outcome, init0>>
Emit == hist = <<>> \/ PrintT(<<"GEN", ToJson([init |-> [i \in 1..Len(init0) |-> <<init0[i].k, init0[i].n>>], steps |-> hist])>>)
=======================================================================
