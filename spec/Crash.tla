--------------------------- MODULE Crash ---------------------------
(***************************************************************************)
(* C14: an interrupted encode leaves decodable complete frames.            *)
(* Composition Encoder ; cut ; Decoder.  The encoder has emitted MetaLen   *)
(* bytes of provisional metadata (STREAMINFO carries the declared total or *)
(* "unknown") followed by frames of FrameBytes[i] bytes holding            *)
(* FrameLen[i] PCM frames; the process dies and only the first `cut` bytes *)
(* exist.  The decoder (Decoder::read_frame) then runs over the prefix:    *)
(*   - a frame is delivered only if all its bytes (incl. CRC-16) are there *)
(*   - with a known total, running out of data is an error;                *)
(*   - with an unknown total, data ending exactly BETWEEN frames is the    *)
(*     end of the stream; data ending inside a frame (header or body) is   *)
(*     an error.  ("header_eof_is_eos" in Defects: the pinned tree took    *)
(*     EOF anywhere inside a frame header for the end of the stream.)      *)
(* Encoder side: the caller OFFERS the frames FrameLen[1..N]; with a       *)
(* declared total the encoder refuses (writes nothing of) the first frame  *)
(* that would pass it, so only frames inside the declared total are ever   *)
(* emitted.  ("overshoot_written" in Defects: the count is compared before *)
(* the pending frame is added, so the frame that crosses the declared      *)
(* total is still written in full - which the decoder then refuses.)       *)
(***************************************************************************)
EXTENDS Integers, Sequences, TLC

CONSTANTS MetaLen, FrameLen, FrameBytes, HeaderBytes, Declared,   \* Declared = -1: unknown total
          Defects

N == Len(FrameLen)
RECURSIVE EndOf(_)
EndOf(i) == IF i = 0 THEN MetaLen ELSE EndOf(i - 1) + FrameBytes[i]
RECURSIVE SamplesUpTo(_)
SamplesUpTo(i) == IF i = 0 THEN 0 ELSE SamplesUpTo(i - 1) + FrameLen[i]
\* frames actually emitted before the crash
Inside == IF Declared = -1 THEN N
          ELSE LET S == {i \in 0..N : SamplesUpTo(i) <= Declared} IN CHOOSE i \in S : \A j \in S : j <= i
E == IF "overshoot_written" \in Defects /\ Inside < N /\ SamplesUpTo(Inside) < Declared THEN Inside + 1 ELSE Inside
TotalBytes == EndOf(E)

VARIABLES cut, next, delivered, ending
vars == <<cut, next, delivered, ending>>

Init == cut \in 0..TotalBytes /\ next = 1 /\ delivered = 0 /\ ending = IF cut < MetaLen THEN "openerr" ELSE "run"

(* Decoder::read_frame over the prefix *)
ReadFrame ==
    /\ ending = "run"
    /\ UNCHANGED cut
    /\ IF Declared # -1 /\ delivered = Declared THEN ending' = "eos" /\ UNCHANGED <<next, delivered>>
       ELSE IF next <= E /\ EndOf(next) <= cut
            THEN IF Declared # -1 /\ delivered + FrameLen[next] > Declared
                 THEN ending' = "err" /\ UNCHANGED <<next, delivered>>          \* more samples than STREAMINFO allows
                 ELSE delivered' = delivered + FrameLen[next] /\ next' = next + 1 /\ UNCHANGED ending
            ELSE \* the data runs out inside (or right before) frame `next`
                 LET avail == cut - EndOf(next - 1) IN
                 /\ UNCHANGED <<next, delivered>>
                 /\ ending' = IF Declared = -1 /\ (avail = 0 \/ ("header_eof_is_eos" \in Defects /\ avail < HeaderBytes))
                              THEN "eos" ELSE "err"

Next == ReadFrame
Spec == Init /\ [][Next]_vars

(* C14 *)
Complete == IF cut < MetaLen THEN 0
            ELSE LET S == {i \in 0..E : EndOf(i) <= cut} IN SamplesUpTo(CHOOSE i \in S : \A j \in S : j <= i)
ExactlyTheCompleteFrames == ending \in {"eos", "err"} => delivered = Complete
NeverMore == delivered <= Complete
CleanEndOnlyWhenEntitled == ending = "eos" => (Declared = -1 \/ delivered = Declared)
OpenFailsInsideMetadata == cut < MetaLen => (ending = "openerr" /\ delivered = 0)
\* C05: a cut is reported unless what is left is itself a complete stream
TruncationReported == (ending = "eos" /\ Declared = -1) => \E i \in 0..E : EndOf(i) = cut
=======================================================================
