--------------------------- MODULE Trace_MetaUpdate ---------------------------
(* Trace validation for C10: each recorded update_file call is judged with the    *)
(* (A)-level statements of MetaUpdate (SizeNeutral, RebuildExact, FailureIsClean) *)
(* computed from the OBSERVED old block list and the edit; the (B)-level          *)
(* prediction of in-place vs rebuild is compared as DRIFT.                        *)
EXTENDS Integers, Sequences, FiniteSets, TLC, Json, IOUtils

Rec == ndJsonDeserialize(IOEnv.TRACE)
VARIABLES l, blocks, outcome, nedits
MU == INSTANCE MetaUpdate WITH InitFiles <- {}, Edits <- {}, MaxEdits <- 0, MaxBlock <- 16777215
tvars == <<l, blocks, outcome, nedits>>

ToBlocks(js) == [i \in 1..Len(js) |-> [k |-> js[i][1], n |-> js[i][2]]]
Has(r, k) == k \in DOMAIN r

Rules(e) ==
    LET old == ToBlocks(e.old)
        ed  == MU!Apply(e.edit, old)
        mustFail == e.edit.op = "fail" \/ ~MU!Valid(ed)
    IN << <<"C10.no-panic", e.ret # "panic">>,
          <<"C10.failure-is-clean", (e.ret = "err" \/ mustFail) => (e.ret = "err" /\ e.orig_untouched)>>,
          <<"C10.inplace-size-neutral", e.ret = "inplace" =>
                /\ e.len_new = e.len_old
                /\ MU!Size(ToBlocks(e.new)) = MU!Size(old)
                /\ MU!EditedExceptFirstPad(ToBlocks(e.new), ed)
                /\ e.content_same>>,
          <<"C10.rebuilt-exact", e.ret = "rebuilt" =>
                /\ ToBlocks(e.new) = ed /\ e.content_same
                /\ e.len_new = MU!Size(ed) + (e.len_old - MU!Size(old))
                /\ e.orig_untouched>>,
          <<"C10.audio-untouched", e.ret \in {"inplace", "rebuilt"} => (e.audio_same /\ e.pcm_same)>>,
          \* the path-taking front end update(path) is update_file over the same bytes: same verdict, same resulting file,
          \* and the file as it was when the edit is refused
          \* foreign bytes in front of the stream (handle positioned at the stream start) are never touched
          <<"C10.result-is-a-flac-stream", "new_parseable" \in DOMAIN e => e.new_parseable>>,
          <<"C10.leading-bytes-untouched", "lead_intact" \in DOMAIN e => e.lead_intact>>,
          <<"C10.path-front-end-agrees", "path" \in DOMAIN e => (e.path.ret = e.ret /\ e.path.same)>> >>

Init == l = 1 /\ blocks = <<>> /\ outcome = [res |-> "init"] /\ nedits = 0
Next ==
    /\ l <= Len(Rec) /\ l' = l + 1
    /\ LET e == Rec[l] IN
       IF e.ev = "file" THEN blocks' = ToBlocks(e.blocks) /\ nedits' = e.run /\ UNCHANGED outcome
       ELSE IF e.ev = "update"
       THEN LET rs == Rules(e)
                pred == LET b == blocks IN MU!Update(e.edit)     \* (B) prediction from the model's current file
            IN /\ \A i \in 1..Len(rs) : IF rs[i][2] THEN TRUE ELSE PrintT(<<"REJECT", nedits, l, rs[i][1]>>)
               /\ IF pred.res # e.ret \/ (e.ret \in {"inplace", "rebuilt"} /\ pred.blocks # ToBlocks(e.new))
                  THEN PrintT(<<"DRIFT", nedits, l, "model predicted", pred.res, "observed", e.ret>>) ELSE TRUE
               /\ blocks' = IF e.ret \in {"inplace", "rebuilt"} THEN ToBlocks(e.new) ELSE blocks
               /\ UNCHANGED <<outcome, nedits>>
       ELSE UNCHANGED <<blocks, outcome, nedits>>
Spec == Init /\ [][Next]_tvars
Post == IF TLCGet("stats").diameter - 1 = Len(Rec) THEN PrintT(<<"TRACE-DONE", Len(Rec)>>)
        ELSE PrintT(<<"TRACE-INCOMPLETE", TLCGet("stats").diameter, Len(Rec)>>)
=======================================================================
