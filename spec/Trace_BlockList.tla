--------------------------- MODULE Trace_BlockList ---------------------------
(* replay of BlockListOps histories on the real BlockList: after every operation the block order, what the operation   *)
(* handed back, and the answers of get / get_all / get_pair_mut must be what the specification defines (non-gating)    *)
EXTENDS BlockListOps, IOUtils
Rec == ndJsonDeserialize(IOEnv.TRACE)
VARIABLES l, cur
Pairs(js) == [i \in 1..Len(js) |-> <<js[i][1], js[i][2]>>]
Rej(e, rule) == PrintT(<<"REJECT", e.id, l, rule, e.op.op>>)
TInit == l = 1 /\ cur = <<>> /\ list = <<>> /\ hist = <<>> /\ tag = 1
TNext == /\ l <= Len(Rec) /\ l' = l + 1 /\ UNCHANGED <<list, hist, tag>>
         /\ LET e == Rec[l] IN
            IF e.ev = "reset" THEN cur' = <<>>
            ELSE IF e.ev = "bstep"
            THEN LET want == Apply(cur, e.op)
                     got == Pairs(e.list) IN
                 /\ cur' = got
                 /\ IF e.ret # "ok" \/ got # want.list THEN Rej(e, "X.block-order-after-operation") ELSE TRUE
                 /\ IF e.ret = "ok" /\ e.back # want.ret THEN Rej(e, "X.operation-result") ELSE TRUE
                 /\ IF e.ret = "ok" /\ \E k \in Kinds : e.get[k] # Get(got, k) \/ e.all[k] # GetAll(got, k) THEN Rej(e, "X.get-and-get-all") ELSE TRUE
                 /\ IF e.ret = "ok" /\ \E i \in 1..Len(e.pairs) : e.pairs[i][3] # Get(got, e.pairs[i][1]) \/ e.pairs[i][4] # Get(got, e.pairs[i][2])
                    THEN Rej(e, "X.get-pair-mut") ELSE TRUE
            ELSE UNCHANGED cur
TSpec == TInit /\ [][TNext]_<<l, cur, list, hist, tag>>
Post == IF TLCGet("stats").diameter - 1 = Len(Rec) THEN PrintT(<<"TRACE-DONE", Len(Rec)>>)
        ELSE PrintT(<<"TRACE-INCOMPLETE", TLCGet("stats").diameter, Len(Rec)>>)
=======================================================================
