--------------------------- MODULE Trace_Struct ---------------------------
(***************************************************************************)
(* C17: the structural frame parser (stream::Frame) against the streaming  *)
(* decoder and against the format model, frame by frame:                   *)
(*   - both accept or both reject the frame (same STREAMINFO);             *)
(*   - an accepted frame's subframes each expand to block-size samples;    *)
(*   - undoing the channel decorrelation on the structural expansion       *)
(*     (done HERE, by the model's operator) gives the decoder's samples,   *)
(*     and - where FlacFormat finds the frame valid - the model's samples; *)
(*   - writing the structure back gives the original bytes whenever the    *)
(*     coded number is minimal and the padding bits are zero.              *)
(***************************************************************************)
EXTENDS FlacFormat, Json, IOUtils
Rec == ndJsonDeserialize(IOEnv.TRACE)
VARIABLES l, item
tvars == <<l, item>>
Has(r, k) == k \in DOMAIN r
Rej(rule, e) == PrintT(<<"REJECT", item.id, l, rule, e.frame>>)

MinimalLen(v) == IF v < 128 THEN 1 ELSE IF v < 2048 THEN 2 ELSE IF v < 65536 THEN 3 ELSE IF v < 2097152 THEN 4 ELSE IF v < 67108864 THEN 5 ELSE 6
\* undoing the decorrelation in exact (pair) arithmetic; <<>> when a result leaves the frame's bit depth: such a frame is not a
\* valid one and the value of its samples is not defined (the decoder wraps, the exact sum does not)
Decorrelate(chcode, subs, n, bps, wide) ==
    IF chcode \notin 8..10 THEN subs
    ELSE LET c1 == subs[1]  c2 == subs[2]
             \* wide = <<>> or the 33-bit side channel as pairs (then its entry in subs is a placeholder)
             side(i) == IF wide # <<>> THEN <<wide[i][1], wide[i][2]>> ELSE IF chcode = 9 THEN WOf(c1[i]) ELSE WOf(c2[i])
             wL == [i \in 1..n |-> CASE chcode = 8 -> WOf(c1[i])
                                     [] chcode = 9 -> WAdd(side(i), WOf(c2[i]))
                                     [] OTHER -> WAdd(WAdd(WOf(c1[i]), WHalf(side(i))), <<0, side(i)[2] % 2>>)]
             wR == [i \in 1..n |-> IF chcode = 9 THEN WOf(c2[i]) ELSE WSub(wL[i], side(i))]
             fits == \A i \in 1..n : WFits32(wL[i]) /\ WFits32(wR[i]) /\ InRange(WInt(wL[i]), bps) /\ InRange(WInt(wR[i]), bps)
         IN IF fits THEN << [i \in 1..n |-> WInt(wL[i])], [i \in 1..n |-> WInt(wR[i])] >> ELSE <<>>
Inter(chs, n) == LET k == Len(chs) IN [j \in 1..(n * k) |-> chs[((j - 1) % k) + 1][((j - 1) \div k) + 1]]

Judge(e) ==
    LET si == StreamInfo(item.bytes, 8)
        f == Frame(e.bytes, 0, si)
        modelOk == f.errs = {}
        sOk == e.sret = "ok"
        dOk == e.dret = "ok"
        n == IF sOk THEN e.block_size ELSE 0
        chcode == f.hdr.chcode
        canUndo == sOk /\ Has(e, "subs") /\ \A c \in 1..Len(e.subs) : Len(e.subs[c]) = n
        \* 32-bit side arithmetic stays inside TLC's integers only when the sums do
        sideAt == IF chcode = 9 THEN 1 ELSE 2
        wide == IF Has(e, "wide") /\ chcode \in 8..10 /\ e.wide.at = sideAt THEN e.wide.pairs ELSE <<>>
        dec == IF canUndo /\ f.hdr.errs = {} /\ (f.hdr.bps <= 31 \/ chcode \notin 8..10 \/ wide # <<>> \/ e.subs_fit)
               THEN Decorrelate(chcode, e.subs, n, f.hdr.bps, wide) ELSE <<>>
        und == IF dec = <<>> THEN <<>> ELSE Inter(dec, n)
    IN /\ IF e.sret = "panic" \/ e.dret = "panic" THEN Rej("C17.no-panic", e) ELSE TRUE
       /\ IF sOk # dOk THEN PrintT(<<"REJECT", item.id, l, "C17.same-accept-reject", e.frame, e.sret, e.dret>>) ELSE TRUE
       /\ IF sOk /\ Has(e, "sub_lens") /\ \E c \in 1..Len(e.sub_lens) : e.sub_lens[c] # n
          THEN Rej("C17.subframe-expands-to-block-size", e) ELSE TRUE
       /\ IF sOk /\ dOk /\ und # <<>> /\ und # e.dsamples THEN Rej("C17.structural-expansion-equals-decoder", e) ELSE TRUE
       /\ IF sOk /\ modelOk /\ und # <<>> /\ und # InterleaveFrame(f) THEN Rej("C17.structural-expansion-equals-format-model", e) ELSE TRUE
       \* for every frame the structural parser accepts, valid or not: the model must have walked the frame to its end (only errors that
       \* leave every field where it is) for its word on the padding bits to count; a refused write is a rewrite that differs
       /\ IF sOk /\ f.hdr.errs = {} /\ f.hdr.num.len = MinimalLen(f.hdr.num.val) /\ ~f.hdr.num.big /\ f.hdr.reserved = 0
             /\ f.errs \subseteq ((Lenient \cup {"residual out of range"}) \ {"nonzero padding", "subframe padding bit set"})
             /\ ((Has(e, "rewrite_same") /\ ~e.rewrite_same) \/ Has(e, "rewrite_err"))
          THEN Rej("C17.rewrite-identical", e) ELSE TRUE
       /\ PrintT(<<"STAT", IF sOk THEN 1 ELSE 0, IF modelOk THEN 1 ELSE 0>>)
\* the frame iterator over a VALID stream yields every frame, each at the offset where it starts (the model's frame lengths), and the
\* structure it hands out, written back, is what lies at that offset
RECURSIVE StartsOf(_, _)
StartsOf(lens, at) == IF lens = <<>> THEN <<>> ELSE <<at>> \o StartsOf(Tail(lens), at + Head(lens))
JudgeWalk(e) ==
    /\ IF e.ret = "panic" THEN Rej("C17.no-panic", e) ELSE TRUE
    /\ IF Has(item, "valid") /\ item.valid /\ Has(item, "frameLens") /\ (e.ret # "ok" \/ e.offsets # StartsOf(item.frameLens, item.metaLen))
       THEN Rej("C17.iterator-yields-every-frame-at-its-offset", e) ELSE TRUE
Init == l = 1 /\ item = [id |-> 0]
Next == /\ l <= Len(Rec) /\ l' = l + 1
        /\ LET e == Rec[l] IN
           IF e.ev = "item" THEN item' = e
           ELSE IF e.ev = "struct" THEN Judge(e) /\ UNCHANGED item
           ELSE IF e.ev = "iterwalk" THEN JudgeWalk(e) /\ UNCHANGED item
           ELSE UNCHANGED item
Spec == Init /\ [][Next]_tvars
Post == IF TLCGet("stats").diameter - 1 = Len(Rec) THEN PrintT(<<"TRACE-DONE", Len(Rec)>>)
        ELSE PrintT(<<"TRACE-INCOMPLETE", TLCGet("stats").diameter, Len(Rec)>>)
=======================================================================
