--------------------------- MODULE Trace_Comment ---------------------------
(* replay of CommentAlgebra histories on the real VorbisComment: after every operation *)
(* the stored fields and the answers to all(key) must be what the algebra defines      *)
EXTENDS CommentAlgebra, IOUtils
Rec == ndJsonDeserialize(IOEnv.TRACE)
VARIABLES l, cur
Pairs(js) == [i \in 1..Len(js) |-> <<js[i][1], js[i][2]>>]
TInit == l = 1 /\ cur = <<>> /\ fields = <<>> /\ hist = <<>>
TNext == /\ l <= Len(Rec) /\ l' = l + 1 /\ UNCHANGED <<fields, hist>>
         /\ LET e == Rec[l] IN
            IF e.ev = "reset" THEN cur' = <<>>
            ELSE IF e.ev = "cstep"
            THEN LET want == Apply(cur, e.op) IN
                 /\ cur' = Pairs(e.fields)
                 /\ IF e.ret # "ok" \/ Pairs(e.fields) # want THEN PrintT(<<"REJECT", e.id, l, "X.comment-fields-after-operation", e.op.op>>) ELSE TRUE
                 /\ IF e.ret = "ok" /\ \E k \in Keys : e.queries[k] # All(Pairs(e.fields), k)
                    THEN PrintT(<<"REJECT", e.id, l, "X.comment-query-results", e.op.op>>) ELSE TRUE
            ELSE UNCHANGED cur
TSpec == TInit /\ [][TNext]_<<l, cur, fields, hist>>
Post == IF TLCGet("stats").diameter - 1 = Len(Rec) THEN PrintT(<<"TRACE-DONE", Len(Rec)>>)
        ELSE PrintT(<<"TRACE-INCOMPLETE", TLCGet("stats").diameter, Len(Rec)>>)
=======================================================================
