#!/usr/bin/env python3
"""store_seed.py <name> <property> <srcdir> <worktree> <detected,by> <status> <change> <needs>: keep a confirmed seeded change
under /verif/seeded/<name>/ and remove the sub-agent's scratch worktree and output directory."""
import json, os, shutil, subprocess, sys
name, prop, src, wt, det, status, change, needs = sys.argv[1:9]
d = "/verif/seeded/" + name
os.makedirs(d, exist_ok=True)
for f in ("patch.diff", "seeded_demo.rs", "notes.md"):
    shutil.copy(os.path.join(src, f), d)
head = subprocess.run(["git", "-C", "/repo", "rev-parse", "--short", "HEAD"], capture_output=True, text=True).stdout.strip()
json.dump({"id": name, "property": prop, "change": change, "needs_to_manifest": needs,
           "confirmed_by_me": "tools/confirm_seed.sh in the sub-agent's scratch worktree: patch applies, `cargo test --offline` passes with the change, tests/seeded_demo.rs fails with it and passes without it",
           "checks_run": ["tools/try_seed.sh %s %s (git apply in /repo, quick check, git checkout)" % (src, det.replace(",", " "))],
           "detected_by": det.split(","), "status": status, "repo_head_when_made": head}, open(d + "/meta.json", "w"), indent=1)
subprocess.run(["git", "-C", "/repo", "worktree", "remove", "--force", wt])
shutil.rmtree(src, ignore_errors=True)
subprocess.run(["git", "-C", "/repo", "worktree", "prune"])
print("stored", d)
