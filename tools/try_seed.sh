#!/bin/sh
# try_seed.sh <seeddir> <check-id>...: apply a seeded change to /repo, run the given quick checks, undo it.
SD=$1; shift
cd /repo && git apply "$SD/patch.diff" || { echo "cannot apply"; exit 2; }
cd /verif
for c in "$@"; do
  timeout 3000 bin/check "$c" > "/verif/work/seed_$(basename $SD)_$c.log" 2>&1; rc=$?
  echo "$(basename $SD) check=$c rc=$rc violations=$(grep -c '^VIOLATION' /verif/work/seed_$(basename $SD)_$c.log) $(grep '^VIOLATION' /verif/work/seed_$(basename $SD)_$c.log | head -2 | tr '\n' ' ')"
done
git -C /repo checkout -- .
git -C /repo status --short | grep -v '^??' 
