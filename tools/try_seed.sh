#!/bin/sh
# try_seed.sh <seeddir> <check-id>...: run the given quick checks against a COPY of /repo's HEAD with the seeded change applied
# (VERIF_ALT_REPO, see lib/vlib.py), so that /repo itself is never touched and other checks can run meanwhile.
# The copy lives under /tmp and is removed afterwards.  (The registered commands never use this path.)
SD=$1; shift
N=$(basename "$SD")
ALT=/tmp/alt-repo-$N
rm -rf "$ALT"; mkdir -p "$ALT"
git -C /repo archive HEAD | tar -x -C "$ALT" || exit 2
( cd "$ALT" && git init -q . && git apply "$SD/patch.diff" ) || { echo "cannot apply"; rm -rf "$ALT"; exit 2; }
cd /verif
for c in "$@"; do
  VERIF_ALT_REPO="$ALT" timeout 3000 bin/check "$c" > "/verif/work/seed_${N}_$c.log" 2>&1; rc=$?
  echo "$N check=$c rc=$rc violations=$(grep -c '^VIOLATION' /verif/work/seed_${N}_$c.log) $(grep '^VIOLATION' /verif/work/seed_${N}_$c.log | head -2 | tr '\n' ' ')"
done
rm -rf "$ALT" "/verif/work/alt-$(printf %s "$ALT" | md5sum | cut -c1-8)"
