#!/usr/bin/env python3
import json, os, subprocess, sys
ROOT = os.path.dirname(os.path.dirname(os.path.abspath(__file__)))
sys.path.insert(0, os.path.join(ROOT, "tools"))
from claims import CLAIMS, TECH
try:
    from claims import NOT_APPLICABLE
except ImportError:
    NOT_APPLICABLE = {}
props = [json.loads(l) for l in open(os.path.join(ROOT, "properties.jsonl"))]
checks = []
for pid, c in sorted(CLAIMS.items()):
    checks.append(dict(property_id=pid, quick_cmd="bin/check %s --tier quick" % pid, thorough_cmd="bin/check %s --tier thorough" % pid,
        evidence_file="evidence/%s.json" % pid, replay_cmd_template="bin/check %s --replay {path}" % pid, engine="tlc",
        level_claimed=dict(category=c["cat"], text=c["text"], design_ref="DESIGN.md section " + c["design"]),
        level_note=c["note"], technique=TECH + " (modules: " + c["specs"] + ")"))
na = []
for p in props:
    if p["id"] not in CLAIMS:
        na.append(dict(property_id=p["id"], reason=NOT_APPLICABLE.get(p["id"], "check not built yet (work in progress; to be decided by the TLA+ specification as described in DESIGN.md)")))
log = subprocess.run(["git", "-C", "/repo", "log", "--format=%h %s"], capture_output=True, text=True).stdout.splitlines()
hooks = [l.split()[0] for l in log if l.split(" ", 1)[1].startswith("verif hooks")]
m = dict(version=1, setup_cmd="bin/setup",
  hooks=dict(guard="--cfg flac_codec_verif", enable="rustflags in /verif/harness/.cargo/config.toml: --cfg flac_codec_verif (path dependency on /repo; every check rebuilds it from the working tree)",
     baseline_off_cmd="cd /repo && cargo test --workspace --no-fail-fast --offline", source_commits=hooks, add_only=True),
  engines=[dict(name="tlc", path="/opt/veriftools/tla/tla2tools.jar", serves_properties=sorted(CLAIMS), kind_free_text="TLC 1.8.0 explicit-state model checker: exhaustive model checks, behaviour generation, trace validation"),
           dict(name="tlapm", path="/usr/local/bin/tlapm", serves_properties=["C06", "C07", "C13"], kind_free_text="TLA+ proof system: ReaderAbsProofs.tla (the abstract reader's safety for every stream length) and IoFaultsProofs.tla (the flushed buffered-writer routine reports success only when every byte was delivered, for every total / capacity / chunking / failing call); statements about the specifications - the verdicts on the code come from TLC")],
  checks=checks, not_applicable=na,
  notes="All verdicts come from TLA+ specifications evaluated by TLC (see DESIGN.md). bin/check exits 0/1/2 = held / VIOLATION / tooling error. known_findings.json lists repaired defects (fixed:) and open findings.")
json.dump(m, open(os.path.join(ROOT, "MANIFEST.json"), "w"), indent=1)
print("manifest: %d checks, %d not claimed" % (len(checks), len(na)))
