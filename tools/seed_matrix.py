#!/usr/bin/env python3
"""seed_matrix.py [ids...]: for every /verif/seeded/<id>, apply patch.diff to /repo, run the quick tier of the checks named in
meta.json "detected_by", undo the change, and write /verif/seeded/MATRIX.json (check -> rc, number of VIOLATION lines).
Nothing is left applied: the patch is reverted with `git checkout -- .` after each seed, also on interruption.
Evidence files are saved before and restored after the run (they must describe the unchanged tree)."""
import glob
import json
import os
import shutil
import subprocess
import sys
import time

V = "/verif"
ids = sys.argv[1:] or sorted(os.listdir(V + "/seeded"))
ids = [i for i in ids if os.path.isdir(V + "/seeded/" + i)]
bak = V + "/work/evidence_backup"
shutil.rmtree(bak, ignore_errors=True)
shutil.copytree(V + "/evidence", bak)
out = {}
try:
    for sid in ids:
        sd = V + "/seeded/" + sid
        meta = json.load(open(sd + "/meta.json"))
        if subprocess.run(["git", "-C", "/repo", "status", "--porcelain", "--untracked-files=no"], capture_output=True, text=True).stdout.strip():
            sys.exit("/repo is not clean")
        a = subprocess.run(["git", "-C", "/repo", "apply", "--3way", sd + "/patch.diff"], capture_output=True, text=True)
        if a.returncode != 0:
            a = subprocess.run(["git", "-C", "/repo", "apply", sd + "/patch.diff"], capture_output=True, text=True)
        if a.returncode != 0:
            out[sid] = {"applies": False, "why": a.stderr[-300:]}
            subprocess.run(["git", "-C", "/repo", "checkout", "--", "."])
            subprocess.run(["git", "-C", "/repo", "reset", "-q"])
            continue
        res = {}
        try:
            for c in meta["detected_by"]:
                t0 = time.time()
                p = subprocess.run([V + "/bin/check", c, "quick"], capture_output=True, text=True, timeout=3000)
                res[c] = {"rc": p.returncode, "violations": sum(1 for l in p.stdout.splitlines() if l.startswith("VIOLATION")), "wall": round(time.time() - t0, 1)}
                print(sid, c, res[c], flush=True)
        finally:
            subprocess.run(["git", "-C", "/repo", "reset", "-q"])
            subprocess.run(["git", "-C", "/repo", "checkout", "--", "."])
        out[sid] = {"applies": True, "property": meta["property"], "checks": res, "caught": any(r["rc"] == 1 and r["violations"] > 0 for r in res.values())}
finally:
    subprocess.run(["git", "-C", "/repo", "reset", "-q"])
    subprocess.run(["git", "-C", "/repo", "checkout", "--", "."])
    for f in glob.glob(bak + "/*.json"):
        shutil.copy(f, V + "/evidence/")
    shutil.rmtree(V + "/replays", ignore_errors=True)
head = subprocess.run(["git", "-C", "/repo", "rev-parse", "--short", "HEAD"], capture_output=True, text=True).stdout.strip()
json.dump({"repo_head": head, "seeds": out}, open(V + "/seeded/MATRIX.json", "w"), indent=1)
print("caught %d of %d" % (sum(1 for v in out.values() if v.get("caught")), len(out)))
