#!/usr/bin/env python3
"""exact_dec.py <trace.ndjson>: an independent exact-arithmetic (big integer) decode of the first `encoded` event's bytes, frame by frame:
prints per subframe the largest prediction, the largest residual and the samples that leave the subframe's depth.  A development aid used in
round 8 to decide between a defect of the encoder and a false alarm of FlacFormat (DESIGN section 8); no registered command uses it."""
import json,sys
by=None
for l in open(sys.argv[1]):
    e=json.loads(l)
    if e['ev']=='encoded': by=bytes(e['bytes'])
class BR:
    def __init__(s,b,pos): s.b=b; s.p=pos*8
    def u(s,n):
        v=0
        for _ in range(n):
            v=(v<<1)|((s.b[s.p>>3]>>(7-(s.p&7)))&1); s.p+=1
        return v
    def sg(s,n):
        v=s.u(n)
        return v-(1<<n) if v>>(n-1) else v
    def unary(s):
        n=0
        while s.u(1)==0: n+=1
        return n
    def align(s): s.p=(s.p+7)//8*8
pos=42
fi=0
while pos<len(by):
    r=BR(by,pos)
    assert r.u(14)==0x3FFE, (pos, fi)
    r.u(1); var=r.u(1); bsc=r.u(4); rc=r.u(4); ch=r.u(4); bpc=r.u(3); r.u(1)
    first=r.u(8)
    n=0
    while first&(0x80>>n): n+=1
    for _ in range(max(0,n-1)): r.u(8)
    bs={6:None,7:None}.get(bsc, 192 if bsc==1 else (576<<(bsc-2) if 2<=bsc<=5 else 256<<(bsc-8)))
    if bsc==6: bs=r.u(8)+1
    if bsc==7: bs=r.u(16)+1
    if rc==12: r.u(8)
    if rc in(13,14): r.u(16)
    r.u(8)
    bps={0:32,1:8,2:12,4:16,5:20,6:24,7:32}[bpc]
    nch=ch+1 if ch<8 else 2
    for c in range(nch):
        assert r.u(1)==0
        t=r.u(6); w=0
        if r.u(1): w=r.unary()+1
        b=bps-w
        if t==0: smp=[r.sg(b)]*bs; kind='const'
        elif t==1: smp=[r.sg(b) for _ in range(bs)]; kind='verb'
        else:
            if t&0x20: order=(t&0x1f)+1; kind='lpc%d'%order
            else: order=t&7; kind='fixed%d'%order
            warm=[r.sg(b) for _ in range(order)]
            if t&0x20:
                prec=r.u(4)+1; shift=r.sg(5); coefs=[r.sg(prec) for _ in range(order)]
            else:
                shift=0; coefs=[[],[1],[2,-1],[3,-3,1],[4,-6,4,-1]][order]
            m=r.u(2); po=r.u(4); res=[]
            for p in range(1<<po):
                cnt=(bs>>po)-(order if p==0 else 0)
                k=r.u(4 if m==0 else 5)
                if k==(15 if m==0 else 31):
                    eb=r.u(5); res+=[r.sg(eb) if eb else 0 for _ in range(cnt)]
                else:
                    for _ in range(cnt):
                        q=r.unary(); v=(q<<k)|(r.u(k) if k else 0)
                        res.append((v>>1) if v&1==0 else -((v+1)>>1))
            smp=list(warm)
            mx=0
            for x in res:
                pred=sum(cf*smp[-1-i] for i,cf in enumerate(coefs))>>shift
                mx=max(mx,abs(pred))
                smp.append(pred+x)
            bad=[(i,s) for i,s in enumerate(smp) if not -(1<<(b-1))<=s<(1<<(b-1))]
            print('frame',fi,'ch',c,kind,'shift',shift,'max|pred|=2^%.2f'%(__import__('math').log2(mx+1)),'out-of-range samples',len(bad), bad[:3], 'max|res|=2^%.2f'%(__import__('math').log2(max(map(abs,res))+1)))
    r.align(); r.u(16)
    pos=r.p//8; fi+=1
