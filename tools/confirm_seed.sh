#!/bin/sh
# confirm_seed.sh <ID> <worktree> <seeddir>: my own confirmation of a sub-agent's seeded change, in ITS scratch worktree:
#  (1) patch.diff applies to a clean checkout of /repo's HEAD, (2) the existing suite passes with it,
#  (3) the demo fails with it, (4) the demo passes without it.  Prints a one-line verdict per step.
ID=$1; WT=$2; SD=$3
cd "$WT" || exit 2
git checkout -q -- src 2>/dev/null; rm -f tests/seeded_demo.rs
git apply --check "$SD/patch.diff" || { echo "$ID patch-does-not-apply"; exit 1; }
git apply "$SD/patch.diff"
cargo test --offline --no-fail-fast > "$SD/suite_with_change.log" 2>&1; s=$?
echo "$ID suite-with-change exit=$s $(grep -c '^test result: ok' "$SD/suite_with_change.log") ok-groups, failed-groups=$(grep -c '^test result: FAILED' "$SD/suite_with_change.log")"
cp "$SD/seeded_demo.rs" tests/seeded_demo.rs
cargo test --offline --test seeded_demo > "$SD/demo_with_change.log" 2>&1; d1=$?
echo "$ID demo-with-change exit=$d1 ($(grep '^test result' "$SD/demo_with_change.log" | head -1))"
git checkout -q -- src
cargo test --offline --test seeded_demo > "$SD/demo_without_change.log" 2>&1; d0=$?
echo "$ID demo-without-change exit=$d0 ($(grep '^test result' "$SD/demo_without_change.log" | head -1))"
rm -f tests/seeded_demo.rs
[ $s -eq 0 ] && [ $d1 -ne 0 ] && [ $d0 -eq 0 ] && echo "$ID CONFIRMED" || echo "$ID NOT-CONFIRMED"
