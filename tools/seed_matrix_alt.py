#!/usr/bin/env python3
"""seed_matrix_alt.py [-j N] [ids...]: like seed_matrix.py, but every trial runs against its own COPY of /repo's HEAD (VERIF_ALT_REPO, see
lib/vlib.py and tools/try_seed.sh), several at a time, so that /repo is never touched and registered checks / background runs are not
disturbed.  Runs the FIRST check named in meta.json "detected_by" (quick tier) and writes /verif/seeded/MATRIX.json:
seed -> applies / check / rc / number of VIOLATION lines.  A development aid: no registered command uses it."""
import concurrent.futures
import hashlib
import json
import os
import shutil
import subprocess
import sys
import time

V = "/verif"
args = sys.argv[1:]
jobs = 3
if args[:1] == ["-j"]:
    jobs = int(args[1])
    args = args[2:]
ids = args or sorted(os.listdir(V + "/seeded"))
ids = [i for i in ids if os.path.isdir(V + "/seeded/" + i)]
head = subprocess.run(["git", "-C", "/repo", "rev-parse", "--short", "HEAD"], capture_output=True, text=True).stdout.strip()


def trial(sid):
    sd = V + "/seeded/" + sid
    meta = json.load(open(sd + "/meta.json"))
    alt = "/tmp/alt-matrix-" + sid
    shutil.rmtree(alt, ignore_errors=True)
    os.makedirs(alt)
    try:
        subprocess.run("git -C /repo archive HEAD | tar -x -C %s" % alt, shell=True, check=True)
        subprocess.run(["git", "init", "-q", "."], cwd=alt, check=True)
        a = subprocess.run(["git", "apply", sd + "/patch.diff"], cwd=alt, capture_output=True, text=True)
        if a.returncode != 0:
            # context moved by later repairs: retry with fuzz through patch(1)
            a = subprocess.run("patch -p1 -F3 --no-backup-if-mismatch < %s/patch.diff" % sd, shell=True, cwd=alt, capture_output=True, text=True)
        if a.returncode != 0:
            return sid, {"applies": False, "property": meta["property"], "why": (a.stderr or a.stdout)[-200:]}
        c = meta["detected_by"][0]
        t0 = time.time()
        p = subprocess.run([V + "/bin/check", c], capture_output=True, text=True, timeout=3000, env=dict(os.environ, VERIF_ALT_REPO=alt))
        r = {"applies": True, "property": meta["property"], "check": c, "rc": p.returncode,
             "violations": sum(1 for l in p.stdout.splitlines() if l.startswith("VIOLATION")), "wall": round(time.time() - t0, 1)}
        r["caught"] = r["rc"] == 1 and r["violations"] > 0
        if not r["caught"]:
            r["tail"] = (p.stdout + p.stderr)[-400:]
        return sid, r
    finally:
        shutil.rmtree(alt, ignore_errors=True)
        shutil.rmtree(V + "/work/alt-" + hashlib.md5(alt.encode()).hexdigest()[:8], ignore_errors=True)


out = {}
if args and os.path.exists(V + "/seeded/MATRIX.json"):
    # a partial run updates the entries of the seeds it was given
    out = json.load(open(V + "/seeded/MATRIX.json")).get("seeds", {})
with concurrent.futures.ThreadPoolExecutor(jobs) as ex:
    for sid, r in ex.map(trial, ids):
        out[sid] = r
        print(sid, {k: r[k] for k in r if k != "tail"}, flush=True)
        json.dump({"repo_head": head, "protocol": "copy of /repo HEAD per trial (VERIF_ALT_REPO), first check of detected_by, quick tier", "seeds": out},
                  open(V + "/seeded/MATRIX.json", "w"), indent=1)
print("caught %d of %d (do not apply: %d)" % (sum(1 for v in out.values() if v.get("caught")), len(out), sum(1 for v in out.values() if not v["applies"])))
