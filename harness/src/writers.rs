//! C08 / C09 / C15 (and the inputs of C01, C02, C19): drive the three writer front-ends and
//! record what they did and what the finished file contains (parsed here, not by the crate).
use crate::flacfile::split_blocks;
use crate::*;
use flac_codec::byteorder::{BigEndian, LittleEndian};
use flac_codec::encode::{FlacByteWriter, FlacChannelWriter, FlacSampleWriter, Options, Window};
use flac_codec::metadata::{Application, Padding};
use serde_json::{Value, json};
use crate::io::SharedBuf;
use std::io::Write;

pub fn md5_hex(data: &[u8]) -> String {
    format!("{:x}", md5::compute(data))
}

/// Builds `Options` from the job description; Err(text) if an option setter refuses.
pub fn build_options(o: &Value) -> Result<Options, String> {
    let mut opts = match o["preset"].as_str().unwrap_or("default") {
        "fast" => Options::fast(),
        "best" => Options::best(),
        _ => Options::default(),
    };
    if let Some(bs) = o["block_size"].as_u64() {
        opts = opts.block_size(bs as u16).map_err(|e| format!("block_size: {e}"))?;
    }
    if o.get("max_lpc").is_some() {
        // -1 = None
        let v = o["max_lpc"].as_u64().map(|x| x as u8);
        opts = opts.max_lpc_order(v).map_err(|e| format!("max_lpc_order: {e}"))?;
    }
    if let Some(po) = o["max_po"].as_u64() {
        opts = opts.max_partition_order(po as u32).map_err(|e| format!("max_partition_order: {e}"))?;
    }
    if let Some(ms) = o["mid_side"].as_bool() {
        opts = opts.mid_side(ms);
    }
    if let Some(f) = o["fast_corr"].as_bool() {
        opts = opts.fast_channel_correlation(f);
    }
    match o["window"].as_str() {
        Some("rect") => opts = opts.window(Window::Rectangle),
        Some("hann") => opts = opts.window(Window::Hann),
        Some("tukey") => opts = opts.window(Window::Tukey(0.5)),
        Some("tukey1") => opts = opts.window(Window::Tukey(1.0)),
        Some("tukey0") => opts = opts.window(Window::Tukey(0.0)),
        // "tukey:<f32>" incl. nan / inf / negative / tiny values: every f32 is an option value
        Some(w) if w.starts_with("tukey:") => opts = opts.window(Window::Tukey(w[6..].parse::<f32>().map_err(|e| format!("window: {e}"))?)),
        _ => {}
    }
    // extra blocks go in before the padding decision so that "blocks before padding" is exercised
    if let Some(extra) = o["extra"].as_array() {
        for e in extra {
            if let Some(n) = e["app"].as_u64() {
                opts = opts.application(Application { id: 0x1234_5678, data: vec![0xA5; n as usize] });
            }
            if let Some(n) = e["tags"].as_u64() {
                for i in 0..n {
                    opts = opts.tag("FIELD", format!("value {i}"));
                }
            }
            if let Some(n) = e["pad"].as_u64() {
                // a second padding block supplied by the user
                opts.add_block(Padding { size: (n as u32).try_into().map_err(|_| "pad size".to_string())? });
            }
        }
    }
    match &o["padding"] {
        Value::Null => {}
        v if v.as_i64() == Some(-1) => opts = opts.no_padding(),
        v => {
            let n = v.as_u64().ok_or("padding")?;
            opts = opts.padding(n as u32).map_err(|e| format!("padding: {e}"))?;
        }
    }
    match &o["seektable"] {
        Value::Null => {}
        Value::String(s) if s == "none" => opts = opts.no_seektable(),
        v => {
            if let Some(n) = v["frames"].as_u64() {
                opts = opts.seektable_frames(n as usize);
            } else if let Some(n) = v["seconds"].as_u64() {
                opts = opts.seektable_seconds(n as u8);
            }
        }
    }
    Ok(opts)
}

enum AnyWriter {
    ByteLe(FlacByteWriter<SharedBuf, LittleEndian>),
    ByteBe(FlacByteWriter<SharedBuf, BigEndian>),
    Sample(FlacSampleWriter<SharedBuf>),
    Channel(FlacChannelWriter<SharedBuf>),
}

fn wstate(s: flac_codec::encode::verif::WriterState) -> Value {
    json!([s.carry as i64, hilo(s.samples_written), s.frames as i64, hilo(s.bytes), s.finalized])
}

/// Independent parse of the finished file's metadata region (STREAMINFO + SEEKTABLE + block list)
pub fn describe_file(bytes: &[u8], start: usize) -> Value {
    let Some((blocks, fstart)) = split_blocks(&bytes[start.min(bytes.len())..]) else {
        return json!({"parse": "failed"});
    };
    let mut v = json!({"parse": "ok", "frames_start": (start + fstart) as i64,
        "blocks": blocks.iter().map(|(t, b)| json!([*t as i64, b.len() as i64])).collect::<Vec<_>>()});
    if let Some((0, si)) = blocks.first().map(|(t, b)| (*t, b))
        && si.len() == 34
    {
        let be = |a: &[u8]| a.iter().fold(0u64, |acc, b| (acc << 8) | *b as u64);
        let x = be(&si[10..18]);
        v["si"] = json!({
            "min_bs": be(&si[0..2]) as i64, "max_bs": be(&si[2..4]) as i64,
            "min_fs": be(&si[4..7]) as i64, "max_fs": be(&si[7..10]) as i64,
            "rate": (x >> 44) as i64, "channels": (((x >> 41) & 7) + 1) as i64, "bps": (((x >> 36) & 31) + 1) as i64,
            "total": hilo(x & 0xF_FFFF_FFFF),
            "md5": si[18..34].iter().map(|b| format!("{b:02x}")).collect::<String>(),
        });
    }
    for (t, b) in &blocks {
        if *t == 3 {
            let pts: Vec<Value> = b
                .chunks_exact(18)
                .map(|c| {
                    let s = u64::from_be_bytes(c[0..8].try_into().unwrap());
                    let o = u64::from_be_bytes(c[8..16].try_into().unwrap());
                    let n = u16::from_be_bytes(c[16..18].try_into().unwrap());
                    if s == u64::MAX { json!([]) } else { json!([hilo(s), hilo(o), n as i64]) }
                })
                .collect();
            v["seektable"] = Value::from(pts);
            v["seektable_rem"] = json!((b.len() % 18) as i64);
        }
    }
    v
}

pub struct WriterJob<'a> {
    pub j: &'a Value,
}

/// Runs one writer scenario. Returns the final bytes (if any) for callers that need them.
pub fn run_writer(j: &Value, t: &mut Trace, run_id: usize) -> Option<(Vec<u8>, Vec<i32>)> {
    let fe = j["fe"].as_str().unwrap_or("sample");
    let rate = j["rate"].as_u64().unwrap_or(44100) as u32;
    let bps = j["bps"].as_u64().unwrap_or(16) as u32;
    let channels = j["channels"].as_u64().unwrap_or(1) as u8;
    let total = j["total"].as_u64();
    let start_offset = j["start_offset"].as_u64().unwrap_or(0) as usize;
    let log_bytes = j["log_bytes"].as_bool().unwrap_or(false);
    let log_pcm = j["log_pcm"].as_bool().unwrap_or(false);
    // PCM source: explicit samples or a generated signal
    let pcm: Vec<i32> = if let Some(a) = j["pcm"]["samples"].as_array() {
        a.iter().map(|x| x.as_i64().unwrap() as i32).collect()
    } else {
        let mut rng = Rng::new(j["pcm"]["seed"].as_u64().unwrap_or(3));
        gen_pcm(
            j["pcm"]["signal"].as_str().unwrap_or("walk"),
            &mut rng,
            channels.max(1) as usize,
            bps.clamp(1, 32),
            j["pcm"]["frames"].as_u64().unwrap_or(0) as usize,
        )
    };
    let bpsamp = bytes_per_sample(bps.clamp(1, 32));
    let unit_per_frame: usize = match fe {
        "byte-le" | "byte-be" => bpsamp * channels.max(1) as usize,
        "sample" => channels.max(1) as usize,
        _ => 1,
    };
    let mut newev = json!({"ev": "new", "run": run_id as i64, "fe": fe, "rate": (rate as i64).min(i32::MAX as i64), "bps": (bps as i64).min(i32::MAX as i64),
        "channels": channels as i64, "upf": unit_per_frame as i64,
        "declared": total.map(hilo).unwrap_or(json!([])),
        "opts": j["opts"].clone(), "start": start_offset as i64,
        "pcm_id": j["pcm_id"].as_i64().unwrap_or(0), "opts_id": j["opts_id"].as_i64().unwrap_or(0),
        "tag": j["tag"].as_str().unwrap_or("")});
    let opts = match catch(|| build_options(&j["opts"])) {
        Ok(Ok(o)) => o,
        Ok(Err(e)) => {
            newev["ret"] = json!("opterr");
            newev["msg"] = json!(e);
            t.emit(newev);
            return None;
        }
        Err(c) => {
            newev["ret"] = json!("panic");
            newev["msg"] = json!(c.msg);
            newev["loc"] = json!(c.loc);
            t.emit(newev);
            return None;
        }
    };
    let block_size = j["opts"]["block_size"].as_u64().unwrap_or(match j["opts"]["preset"].as_str() {
        Some("fast") => 1152,
        _ => 4096,
    });
    newev["bs"] = json!(block_size as i64);
    let cur = SharedBuf::with_prefix(vec![0xEEu8; start_offset]);
    flac_codec::verif::install();
    // the CD-DA convenience constructors are the general ones at 44100 Hz / 16 bits / 2 channels
    let cdda = j["cdda"].as_bool().unwrap_or(false) && rate == 44100 && bps == 16 && channels == 2;
    newev["cdda"] = json!(cdda);
    let made = catch(|| -> Result<AnyWriter, String> {
        Ok(match (fe, cdda) {
            ("byte-le", true) => AnyWriter::ByteLe(FlacByteWriter::new_cdda(cur.clone(), opts, total).map_err(|e| e.to_string())?),
            ("byte-be", true) => AnyWriter::ByteBe(FlacByteWriter::new_cdda(cur.clone(), opts, total).map_err(|e| e.to_string())?),
            ("sample", true) => AnyWriter::Sample(FlacSampleWriter::new_cdda(cur.clone(), opts, total).map_err(|e| e.to_string())?),
            (_, true) => AnyWriter::Channel(FlacChannelWriter::new_cdda(cur.clone(), opts, total).map_err(|e| e.to_string())?),
            ("byte-le", _) => AnyWriter::ByteLe(FlacByteWriter::new(cur.clone(), opts, rate, bps, channels, total).map_err(|e| e.to_string())?),
            ("byte-be", _) => AnyWriter::ByteBe(FlacByteWriter::new(cur.clone(), opts, rate, bps, channels, total).map_err(|e| e.to_string())?),
            ("sample", _) => AnyWriter::Sample(FlacSampleWriter::new(cur.clone(), opts, rate, bps, channels, total).map_err(|e| e.to_string())?),
            _ => AnyWriter::Channel(FlacChannelWriter::new(cur.clone(), opts, rate, bps, channels, total).map_err(|e| e.to_string())?),
        })
    });
    let mut w = match made {
        Ok(Ok(w)) => {
            newev["ret"] = json!("ok");
            t.emit(newev);
            w
        }
        Ok(Err(e)) => {
            newev["ret"] = json!("err");
            newev["msg"] = json!(e);
            t.emit(newev);
            flac_codec::verif::take();
            return None;
        }
        Err(c) => {
            newev["ret"] = json!("panic");
            newev["msg"] = json!(c.msg);
            newev["loc"] = json!(c.loc);
            t.emit(newev);
            flac_codec::verif::take();
            return None;
        }
    };
    // the unit stream handed to the writer
    let units_bytes: Vec<u8> = match fe {
        "byte-le" => samples_to_bytes(&pcm, bps, false),
        "byte-be" => samples_to_bytes(&pcm, bps, true),
        _ => vec![],
    };
    let total_units = match fe {
        "byte-le" | "byte-be" => units_bytes.len(),
        "sample" => pcm.len(),
        _ => pcm.len() / channels as usize,
    };
    let writes: Vec<usize> = if let Some(cuts) = j["write_cuts"].as_array() {
        // fractions of the unit stream -> strictly increasing unit positions -> write sizes that add up to the whole input
        let mut pos: Vec<usize> = cuts.iter().map(|f| (f.as_f64().unwrap_or(0.0) * total_units as f64) as usize).filter(|p| *p > 0 && *p < total_units).collect();
        pos.sort();
        pos.dedup();
        pos.push(total_units);
        let mut prev = 0;
        pos.iter().map(|p| { let n = p - prev; prev = *p; n }).collect()
    } else {
        j["writes"].as_array().map(|a| a.iter().map(|x| x.as_u64().unwrap() as usize).collect()).unwrap_or_else(|| vec![total_units])
    };
    let mut pos = 0usize;
    let mut failed = false;
    // "refuse_before": indices of write calls before which the channel writer is handed a call it must refuse (channels of unequal
    // length); a refused call contributes no PCM, so the finished file must not depend on it
    let refuse_before: Vec<usize> = j["refuse_before"].as_array().map(|a| a.iter().map(|x| x.as_u64().unwrap() as usize).collect()).unwrap_or_default();
    for (wi, n) in writes.into_iter().enumerate() {
        if refuse_before.contains(&wi) && channels >= 2 {
            if let AnyWriter::Channel(w) = &mut w {
                let ch = channels as usize;
                let at = pos.min(pcm.len() / ch);
                let avail = (pcm.len() / ch - at).min(9);
                let r = catch(|| {
                    let cols: Vec<Vec<i32>> = (0..ch).map(|c| (at..at + if c + 1 == ch { avail.saturating_sub(1) } else { avail }).map(|i| pcm[i * ch + c]).collect()).collect();
                    w.write(&cols).map_err(|e| e.to_string())
                });
                t.emit(json!({"ev": "refused", "ret": match &r { Ok(Ok(())) => "ok", Ok(Err(_)) => "err", Err(_) => "panic" }, "offered": avail as i64}));
            }
        }
        let n = n.min(total_units - pos);
        let r = catch(|| -> Result<(), String> {
            match &mut w {
                AnyWriter::ByteLe(w) => w.write_all(&units_bytes[pos..pos + n]).map_err(|e| e.to_string()),
                AnyWriter::ByteBe(w) => w.write_all(&units_bytes[pos..pos + n]).map_err(|e| e.to_string()),
                AnyWriter::Sample(w) => w.write(&pcm[pos..pos + n]).map_err(|e| e.to_string()),
                AnyWriter::Channel(w) => {
                    let ch = channels as usize;
                    let cols: Vec<Vec<i32>> = (0..ch).map(|c| (pos..pos + n).map(|i| pcm[i * ch + c]).collect()).collect();
                    w.write(&cols).map_err(|e| e.to_string())
                }
            }
        });
        let st = match &w {
            AnyWriter::ByteLe(w) => wstate(w.verif_state()),
            AnyWriter::ByteBe(w) => wstate(w.verif_state()),
            AnyWriter::Sample(w) => wstate(w.verif_state()),
            AnyWriter::Channel(w) => wstate(w.verif_state()),
        };
        match r {
            Ok(Ok(())) => {
                pos += n;
                t.emit(json!({"ev": "write", "n": n as i64, "ret": "ok", "st": st}));
                // std::io::Write::flush on the byte front ends between writes ("flush_after": write indices): flushing is not
                // finishing - the encoded file must not depend on it
                if j["flush_after"].as_array().is_some_and(|a| a.iter().any(|x| x.as_u64() == Some(wi as u64))) {
                    let fr = catch(|| match &mut w {
                        AnyWriter::ByteLe(w) => w.flush().map_err(|e| e.to_string()),
                        AnyWriter::ByteBe(w) => w.flush().map_err(|e| e.to_string()),
                        _ => Ok(()),
                    });
                    t.emit(json!({"ev": "flush", "ret": match fr { Ok(Ok(())) => "ok", Ok(Err(_)) => "err", Err(_) => "panic" }}));
                }
            }
            Ok(Err(e)) => {
                t.emit(json!({"ev": "write", "n": n as i64, "ret": "err", "msg": e, "st": st}));
                failed = true;
                break;
            }
            Err(c) => {
                let mut e = panic_event("write", &c);
                e["n"] = json!(n as i64);
                t.emit(e);
                failed = true;
                break;
            }
        }
    }
    // bytes emitted before finalize (audio region must not be disturbed by the header rewrite)
    let before = cur.snapshot();
    let fin = catch(|| match w {
        AnyWriter::ByteLe(w) => w.finalize().map_err(|e| e.to_string()),
        AnyWriter::ByteBe(w) => w.finalize().map_err(|e| e.to_string()),
        AnyWriter::Sample(w) => w.finalize().map_err(|e| e.to_string()),
        AnyWriter::Channel(w) => w.finalize().map_err(|e| e.to_string()),
    });
    let events = flac_codec::verif::take();
    let mut finev = match &fin {
        Ok(Ok(())) => json!({"ev": "finalize", "ret": "ok"}),
        Ok(Err(e)) => json!({"ev": "finalize", "ret": "err", "msg": e}),
        Err(c) => {
            let mut e = panic_event("finalize", c);
            e["ev"] = json!("finalize");
            e["ret"] = json!("panic");
            e
        }
    };
    finev["after_failed_write"] = json!(failed);
    finev["written"] = json!(pos as i64);
    t.emit(finev);
    let bytes = cur.snapshot();
    // the path-taking constructors (create + Options::overwrite) over an existing, longer file: the finished file is the same encoding
    let mut path_same: Option<bool> = None;
    if let (Some(dir), Ok(Ok(())), false, 0) = (j["path_dir"].as_str(), &fin, failed, start_offset) {
        if pos == total_units {
            let path = std::path::Path::new(dir).join(format!("w{}_{}.flac", std::process::id(), run_id));
            std::fs::write(&path, vec![0xABu8; bytes.len() + 5000]).expect("prefill");
            let r = catch(|| -> Result<(), String> {
                let o = build_options(&j["opts"])?.overwrite();
                match fe {
                    "byte-le" => {
                        let mut w: FlacByteWriter<_, LittleEndian> = FlacByteWriter::create(&path, o, rate, bps, channels, total).map_err(|e| e.to_string())?;
                        w.write_all(&units_bytes).map_err(|e| e.to_string())?;
                        w.finalize().map_err(|e| e.to_string())
                    }
                    "byte-be" => {
                        let mut w: FlacByteWriter<_, BigEndian> = FlacByteWriter::create(&path, o, rate, bps, channels, total).map_err(|e| e.to_string())?;
                        w.write_all(&units_bytes).map_err(|e| e.to_string())?;
                        w.finalize().map_err(|e| e.to_string())
                    }
                    "sample" => {
                        let mut w = FlacSampleWriter::create(&path, o, rate, bps, channels, total).map_err(|e| e.to_string())?;
                        w.write(&pcm[..pos.min(pcm.len())]).map_err(|e| e.to_string())?;
                        w.finalize().map_err(|e| e.to_string())
                    }
                    _ => {
                        let ch = channels as usize;
                        let cols: Vec<Vec<i32>> = (0..ch).map(|c| (0..pos).map(|i| pcm[i * ch + c]).collect()).collect();
                        let mut w = FlacChannelWriter::create(&path, o, rate, bps, channels, total).map_err(|e| e.to_string())?;
                        w.write(&cols).map_err(|e| e.to_string())?;
                        w.finalize().map_err(|e| e.to_string())
                    }
                }
            });
            let on_disk = std::fs::read(&path).unwrap_or_default();
            let _ = std::fs::remove_file(&path);
            path_same = Some(matches!(r, Ok(Ok(()))) && on_disk == bytes);
        }
    }
    // hook events
    let mut enc = vec![];
    let mut finb = json!({"bytes": [0, 0], "samples": [0, 0], "seen": false});
    let mut branch = json!("");
    for e in &events {
        match e {
            flac_codec::verif::Event::EncodeBegin { samples_before, pcm_frames, bytes_so_far } => {
                enc.push(json!([hilo(*samples_before), *pcm_frames as i64, hilo(*bytes_so_far)]));
            }
            flac_codec::verif::Event::FinalizeBegin { bytes_so_far, samples_written } => {
                finb = json!({"bytes": hilo(*bytes_so_far), "samples": hilo(*samples_written), "seen": true});
            }
            flac_codec::verif::Event::FinalizeBranch { branch: b } => branch = json!(b),
            _ => {}
        }
    }
    let light = j["light"].as_bool().unwrap_or(false);
    if light {
        enc.clear();
    }
    let whole_frames = pos / unit_per_frame;
    let whole: &[i32] = &pcm[..(whole_frames * channels as usize).min(pcm.len())];
    // which encoded frames hold one constant value per channel (1-based indices into "enc")
    let mut const_frames: Vec<i64> = vec![];
    if !light {
        let ch = channels.max(1) as usize;
        for (i, e) in events.iter().filter_map(|e| match e {
            flac_codec::verif::Event::EncodeBegin { samples_before, pcm_frames, .. } => Some((*samples_before as usize, *pcm_frames as usize)),
            _ => None,
        }).enumerate() {
            let (first, n) = e;
            let a = first * ch;
            let b = ((first + n) * ch).min(whole.len());
            if n > 0 && a < b && b - a == n * ch && (0..ch).all(|c| whole[a..b].iter().skip(c).step_by(ch).all(|s| *s == whole[a + c])) {
                const_frames.push(i as i64 + 1);
            }
        }
    }
    let mut filev = json!({"ev": "file", "len": bytes.len() as i64, "md5": md5_hex(&bytes),
        "desc": describe_file(&bytes, start_offset), "enc": enc, "fin": finb, "branch": branch,
        "whole_frames": whole_frames as i64, "light": light, "const_frames": const_frames,

        "constant": (0..channels as usize).all(|c| whole.iter().skip(c).step_by(channels.max(1) as usize).all(|s| *s == whole[c])) && !whole.is_empty(),
        "pcm_md5": md5_hex(&samples_to_bytes(whole, bps.clamp(1, 32), false)),
        "len_before": before.len() as i64,
        "fs_before": split_blocks(&before[before.len().min(start_offset)..]).map(|(_, p)| (p + start_offset) as i64).unwrap_or(-1),
        "audio_prefix_intact": split_blocks(&before[before.len().min(start_offset)..])
            .map(|(_, p)| bytes.len() >= before.len() && bytes[p + start_offset..before.len()] == before[p + start_offset..])
            .unwrap_or(false),
        "prefix_intact": bytes.len() >= start_offset && bytes[..start_offset].iter().all(|b| *b == 0xEE)});
    if let Some(b) = path_same {
        filev["path_same"] = json!(b);
    }
    if matches!(fin, Ok(Ok(()))) {
        // the crate's own reader as a smoke test that the writer "works" (C15); the real
        // losslessness oracle is C01/C02
        let stream = &bytes[start_offset.min(bytes.len())..];
        let rt = catch(|| -> Result<bool, String> {
            let mut r = flac_codec::decode::FlacSampleReader::new(std::io::Cursor::new(stream)).map_err(|e| e.to_string())?;
            let mut v = vec![];
            r.read_to_end(&mut v).map_err(|e| e.to_string())?;
            Ok(v == whole)
        });
        filev["roundtrip"] = match rt {
            Ok(Ok(true)) => json!("ok"),
            Ok(Ok(false)) => json!("mismatch"),
            Ok(Err(e)) => json!(format!("err: {e}")),
            Err(c) => json!(format!("panic: {} {}", c.msg, c.loc)),
        };
        use flac_codec::encode::SeekTableInterval;
        let interval = match &j["opts"]["seektable"] {
            Value::String(_) => None,
            Value::Null => Some(SeekTableInterval::default()),
            v => {
                if let Some(n) = v["frames"].as_u64().and_then(|n| std::num::NonZero::new(n as usize)) {
                    Some(SeekTableInterval::Frames(n))
                } else {
                    v["seconds"].as_u64().and_then(|n| std::num::NonZero::new(n as u8)).map(SeekTableInterval::Seconds)
                }
            }
        };
        if let Some(iv) = interval {
            let rg = catch(|| flac_codec::encode::generate_seektable(std::io::Cursor::new(stream), iv).map_err(|e| e.to_string()));
            filev["regen"] = match rg {
                Ok(Ok(tb)) => Value::from(
                    tb.points
                        .iter()
                        .map(|p| match p {
                            flac_codec::metadata::SeekPoint::Defined { sample_offset, byte_offset, frame_samples } => {
                                json!([hilo(*sample_offset), hilo(*byte_offset), *frame_samples as i64])
                            }
                            flac_codec::metadata::SeekPoint::Placeholder => json!([]),
                        })
                        .collect::<Vec<_>>(),
                ),
                // the finished file cannot even be walked frame by frame: that is data about the code, not a tool failure
                Ok(Err(e)) => {
                    filev["regen_failed"] = json!(format!("err: {e}"));
                    json!([])
                }
                Err(c) => {
                    filev["regen_failed"] = json!(format!("panic: {} {}", c.msg, c.loc));
                    json!([])
                }
            };
        }
    }
    if log_bytes {
        filev["bytes"] = Value::from(bytes.iter().map(|b| *b as i64).collect::<Vec<_>>());
    }
    if log_pcm {
        filev["pcm"] = Value::from(whole.iter().map(|s| *s as i64).collect::<Vec<_>>());
    }
    t.emit(filev);
    let whole_v = whole.to_vec();
    matches!(fin, Ok(Ok(()))).then_some((bytes, whole_v))
}

// ---------------------------------------------------------------------------------------------
// growth: OptionsLayout histories on the real Options builder + sample writer

fn layout_tags(bytes: &[u8]) -> Result<(Vec<Value>, usize), String> {
    use flac_codec::metadata::BlockRef::*;
    let mut cur = std::io::Cursor::new(bytes);
    let list = flac_codec::metadata::BlockList::read(&mut cur).map_err(|e| e.to_string())?;
    let tags = list.blocks().filter_map(|b| Some(match b {
        Padding(p) => json!(["padding", u32::from(p.size) as i64]),
        Application(a) => json!(["application", a.id as i64]),
        VorbisComment(c) => json!(["comment", c.fields.len() as i64]),
        SeekTable(s) => json!(["seektable", s.points.len() as i64]),
        Picture(p) => json!(["picture", p.width as i64]),
        Cuesheet(_) => json!(["cuesheet", 0]),
        Streaminfo(_) => return None,
    })).collect();
    Ok((tags, cur.position() as usize))
}

pub fn run_options(job: &Value, t: &mut Trace) -> usize {
    use flac_codec::metadata::{Application, Padding, Picture, PictureType, VorbisComment};
    let mut n = 0;
    let bs = 16u16;
    for (hi, h) in job["histories"].as_array().unwrap().iter().enumerate() {
        for fr in job["frames"].as_array().unwrap() {
            let frames = fr.as_u64().unwrap();
            for declared in [false, true] {
                n += 1;
                let ops = h["ops"].as_array().unwrap();
                flac_codec::verif::install();
                let cur = SharedBuf::with_prefix(vec![]);
                let mut ev = json!({"ev": "opt", "id": hi as i64, "ops": ops, "declared": declared, "frames": frames as i64, "prov": [], "final": [],
                    "branch": "", "len_after_new": -1, "audio_start": -2, "ret": "ok", "msg": ""});
                let r = catch(|| -> Result<(), String> {
                    let mut o = Options::default().block_size(bs).map_err(|e| e.to_string())?;
                    for op in ops {
                        let nn = op["n"].as_u64().unwrap_or(0);
                        o = match op["op"].as_str().unwrap() {
                            "padding" => o.padding(nn as u32).map_err(|e| e.to_string())?,
                            "no_padding" => o.no_padding(),
                            "tag" => o.tag("TITLE", "x"),
                            "comment" => o.comment(VorbisComment { vendor_string: "v".into(), fields: (0..nn).map(|i| format!("K{i}=v")).collect() }),
                            "picture" => o.picture(Picture { picture_type: PictureType::Other, media_type: "image/png".into(), description: String::new(),
                                width: nn as u32, height: 1, color_depth: 8, colors_used: None, data: vec![1, 2, 3] }),
                            "application" => o.application(Application { id: nn as u32, data: vec![7] }),
                            "add_padding" => { o.add_block(Padding { size: (nn as u32).try_into().map_err(|_| "padding size")? }); o }
                            "frames" => o.seektable_frames(nn as usize),
                            "seconds" => o.seektable_seconds(nn as u8),
                            _ => o.no_seektable(),
                        };
                    }
                    let total = if declared { Some(frames * bs as u64) } else { None };
                    let mut w = FlacSampleWriter::new(cur.clone(), o, bs as u32, 16, 1, total).map_err(|e| e.to_string())?;
                    let after_new = cur.snapshot();
                    let (prov, _) = layout_tags(&after_new)?;
                    ev["prov"] = json!(prov);
                    ev["len_after_new"] = json!(after_new.len() as i64);
                    let pcm: Vec<i32> = (0..frames * bs as u64).map(|i| ((i * 7919) % 200) as i32 - 100).collect();
                    w.write(&pcm).map_err(|e| e.to_string())?;
                    w.finalize().map_err(|e| e.to_string())?;
                    let fin = cur.snapshot();
                    let (f, start) = layout_tags(&fin)?;
                    ev["final"] = json!(f);
                    ev["audio_start"] = json!(start as i64);
                    Ok(())
                });
                for e in flac_codec::verif::take() {
                    if let flac_codec::verif::Event::FinalizeBranch { branch } = e {
                        ev["branch"] = json!(branch);
                    }
                }
                match r {
                    Ok(Ok(())) => {}
                    Ok(Err(m)) => { ev["ret"] = json!("err"); ev["msg"] = json!(m); }
                    Err(c) => { ev["ret"] = json!("panic"); ev["msg"] = json!(c.msg); }
                }
                t.emit(ev);
            }
        }
    }
    n
}
