//! Shared helpers for the conformance harness (kept deliberately dumb: they copy
//! values into JSON; every judgement is made by TLC against the TLA+ specifications).
#![allow(clippy::needless_range_loop)]

use serde_json::{Value, json};
use std::io::{Read, Seek, SeekFrom, Write};

pub mod alloc;
pub mod codec;
pub mod crash;
pub mod decodeh;
pub mod faults;
pub mod flacfile;
pub mod io;
pub mod meta;
pub mod metah;
pub mod par;
pub mod readers;
pub mod streamsync;
pub mod writers;

// ---------------------------------------------------------------------------------
// deterministic PRNG (splitmix64) so that VERIF_SEED fully determines a run
#[derive(Clone)]
pub struct Rng(pub u64);
impl Rng {
    pub fn new(seed: u64) -> Self {
        Rng(seed ^ 0x9E3779B97F4A7C15)
    }
    pub fn next(&mut self) -> u64 {
        self.0 = self.0.wrapping_add(0x9E3779B97F4A7C15);
        let mut z = self.0;
        z = (z ^ (z >> 30)).wrapping_mul(0xBF58476D1CE4E5B9);
        z = (z ^ (z >> 27)).wrapping_mul(0x94D049BB133111EB);
        z ^ (z >> 31)
    }
    pub fn below(&mut self, n: u64) -> u64 {
        if n == 0 { 0 } else { self.next() % n }
    }
    pub fn range(&mut self, lo: i64, hi: i64) -> i64 {
        lo + (self.below((hi - lo + 1) as u64) as i64)
    }
    pub fn pick<'a, T>(&mut self, v: &'a [T]) -> &'a T {
        &v[self.below(v.len() as u64) as usize]
    }
    pub fn chance(&mut self, num: u64, den: u64) -> bool {
        self.below(den) < num
    }
}

pub fn env_seed() -> u64 {
    std::env::var("VERIF_SEED")
        .ok()
        .and_then(|s| s.parse().ok())
        .unwrap_or(1)
}

// ---------------------------------------------------------------------------------
// PCM helpers

pub fn sample_min(bps: u32) -> i64 {
    -(1i64 << (bps - 1))
}
pub fn sample_max(bps: u32) -> i64 {
    (1i64 << (bps - 1)) - 1
}

/// Signal kinds used by the drivers; all samples fit `bps`.
pub fn gen_pcm(kind: &str, rng: &mut Rng, channels: usize, bps: u32, frames: usize) -> Vec<i32> {
    let lo = sample_min(bps);
    let hi = sample_max(bps);
    let mut out = Vec::with_capacity(channels * frames);
    let amp = (hi as f64) * 0.8;
    let mut walk = vec![0i64; channels];
    let cval: Vec<i64> = (0..channels).map(|_| rng.range(lo, hi)).collect();
    let wasted = 1 + rng.below((bps.max(2) - 1).min(6) as u64) as u32;
    // per-channel / per-block mixtures: every channel (and every 16-frame block) draws its own behaviour
    let chan_kind: Vec<u64> = (0..channels).map(|_| rng.below(5)).collect();
    let mut block_kind: Vec<u64> = vec![0; channels];
    // "gapmix:<g>": every g PCM frames the whole channel set draws one of: all active, only channel 0, only the last channel, all channels
    // the same (dual mono), digital silence, channel 1 the negative of channel 0 - histories of blocks in which a channel slot is silent
    // under changing channel assignments
    let gap: usize = if let Some(g) = kind.strip_prefix("gapmix:") { g.parse().unwrap_or(16).max(1) } else { 0 };
    let mut gap_mode = 0u64;
    for i in 0..frames {
        if gap > 0 && i % gap == 0 {
            gap_mode = rng.below(6);
        }
        if i % 16 == 0 {
            for k in block_kind.iter_mut() {
                *k = rng.below(4);
            }
        }
        for c in 0..channels {
            let v: i64 = match kind {
                // "ntc:<n>": n PCM frames of full-scale noise, then one constant per channel (history before a constant block)
                k if k.starts_with("ntc:") => {
                    let n: usize = k[4..].parse().unwrap_or(0);
                    if i < n { rng.range(lo, hi) } else { cval[c] }
                }
                // one channel silent, the others active (hard-panned material)
                "panfirst" => if c == 0 { 0 } else { rng.range(lo / 2, hi / 2) },
                "panlast" => if c + 1 == channels { 0 } else { rng.range(lo / 2, hi / 2) },
                "chanmix" => match chan_kind[c] {
                    0 => 0,
                    1 => cval[c],
                    2 => rng.range(lo, hi),
                    3 => (rng.range(lo, hi) >> 3) << 3,
                    _ => { let step = (hi / 64).max(1); walk[c] = (walk[c] + rng.range(-step, step)).clamp(lo, hi); walk[c] }
                },
                "blockmix" => match block_kind[c] {
                    0 => 0,
                    1 => cval[c],
                    2 => rng.range(lo, hi),
                    _ => { let step = (hi / 64).max(1); walk[c] = (walk[c] + rng.range(-step, step)).clamp(lo, hi); walk[c] }
                },
                k if k.starts_with("gapmix:") => {
                    let step = (hi / 64).max(1);
                    if c == 0 {
                        walk[0] = (walk[0] + rng.range(-step, step)).clamp(lo, hi);
                    }
                    match gap_mode {
                        0 => if c == 0 { walk[0] } else { rng.range(lo / 2, hi / 2) },
                        1 => if c == 0 { walk[0] } else { 0 },
                        2 => if c + 1 == channels { rng.range(lo / 2, hi / 2) } else { 0 },
                        3 => walk[0],
                        4 => 0,
                        _ => if c % 2 == 0 { walk[0] } else { (-walk[0]).clamp(lo, hi) },
                    }
                }
                // "loudrail:<g>:<pct>:<pos>": noise within +-pct % of full scale, and the most negative value at position pos of every g PCM
                // frames (a value one predictor family cannot take a difference with at 32 bits, inside material no predictor gains on)
                k if k.starts_with("loudrail:") => {
                    let mut it = k[9..].split(':').map(|x| x.parse::<i64>().unwrap_or(0));
                    let (g, pct, pos) = (it.next().unwrap_or(16).max(1), it.next().unwrap_or(85), it.next().unwrap_or(0));
                    if (i as i64) % g == pos { lo } else { rng.range(((lo as i128 * pct as i128) / 100) as i64, ((hi as i128 * pct as i128) / 100) as i64) }
                }
                // "altdecay:<g>": every g PCM frames a decaying burst of alternating sign (a * (-r)^n): a one-tap linear predictor follows it
                // almost exactly, the fixed polynomial predictors do not - also on the shortest blocks
                k if k.starts_with("altdecay:") => {
                    let g: usize = k[9..].parse().unwrap_or(16).max(1);
                    let a = (hi as f64) * (0.3 - 0.02 * c as f64);
                    let r = -0.8 + 0.03 * c as f64;
                    ((a * r.powi((i % g) as i32)) as i64 + (i / g) as i64 % 3).clamp(lo, hi)
                }
                // "periodic:<p>": a random pattern of p samples repeated exactly (a tone at Nyquist for p = 2): the autocorrelation is
                // ill-conditioned, so the last bits of its floating-point sums decide the LPC parameters
                k if k.starts_with("periodic:") => {
                    let p: usize = k[9..].parse().unwrap_or(2).max(1);
                    let mut r2 = Rng::new(0x9E37 + (i % p) as u64 * 7919 + c as u64 * 104729 + p as u64);
                    r2.range(lo / 3, hi / 3)
                }
                // full-scale alternation in bursts of 6..9 samples between quiet stretches, shifted left by 0..3 wasted bits per channel
                "railburst" => {
                    let w = (c as u32 + (frames as u32 % 4)) % 4;
                    let v = if (i / 9) % 2 == 0 { if i % 2 == 0 { hi } else { lo } } else { rng.range(-2.max(lo), 2.min(hi)) };
                    (v >> w) << w
                }
                "noise" => rng.range(lo, hi),
                // a quiet high-pitched tone with a little noise: linear prediction does far better than the fixed predictors
                "hitone" => {
                    let f = 0.23 + 0.013 * c as f64;
                    (((i as f64 * f * std::f64::consts::TAU).sin() * 300.0f64.min(hi as f64 / 2.0)) as i64 + rng.range(-2.max(lo), 2.min(hi))).clamp(lo, hi)
                }
                // anti-correlated channels reaching both rails: odd channels are the complement of the channel before them,
                // so the side channel (left - right) spans its whole range, e.g. 2^bps - 1
                "anti" => {
                    if c % 2 == 0 {
                        walk[c] = match rng.below(4) { 0 => hi, 1 => lo, _ => rng.range(lo, hi) };
                        walk[c]
                    } else {
                        !walk[c - 1]
                    }
                }
                // residual magnitude varies strongly inside a block: loudness doubles every few samples (period 16 / 64)
                "fade" | "fade64" => {
                    let period = if kind == "fade" { 16 } else { 64 };
                    let top = bps.saturating_sub(2).max(1) as usize;
                    let sh = top - ((i % period) * top / period).min(top);
                    rng.range(lo, hi) >> sh
                }
                // near silence with a loud burst in the last quarter of every 16 samples
                // "clipsine:<gain%>": a sine of gain x full scale, clipped at the rails (the signal runs smoothly into the rail and stays there)
                k if k.starts_with("clipsine:") => {
                    let gain: f64 = k[9..].parse::<f64>().unwrap_or(125.0) / 100.0;
                    let period = 37.0 + 23.0 * c as f64 + (cval[c].rem_euclid(97)) as f64;
                    ((i as f64 / period * std::f64::consts::TAU).sin() * gain * hi as f64).round().clamp(lo as f64, hi as f64) as i64
                }
                // "railglitch": a quiet smooth signal with, every 97 frames, three samples 0.6 x full scale, full scale, -0.9 x full scale: a
                // linear predictor fitted to the quiet part is off by more than the whole range of a sample there
                "railglitch" => {
                    let base = ((i as f64 * (0.05 + 0.01 * c as f64)).sin() * (hi as f64 / 2048.0)) as i64;
                    match i % 97 {
                        50 => hi * 6 / 10,
                        51 => hi,
                        52 => -(hi * 9 / 10),
                        _ => base,
                    }
                }
                "burst" => if i % 16 >= 12 { rng.range(lo / 2, hi / 2) } else { rng.range(-1.max(lo), 1.min(hi)) },
                "small" => rng.range(-3.max(lo), 3.min(hi)),
                "sine" => {
                    let f = 0.01 + 0.013 * c as f64;
                    ((i as f64 * f * std::f64::consts::TAU).sin() * amp) as i64
                        + rng.range(-2.max(lo), 2.min(hi))
                }
                "walk" => {
                    let step = (hi / 64).max(1);
                    walk[c] = (walk[c] + rng.range(-step, step)).clamp(lo, hi);
                    walk[c]
                }
                "const" => cval[c],
                // constants at the rails and with many trailing zero bits (the constant path must not depend on the value)
                "constlo" => lo,
                "consthi" => hi,
                "constm1" => -1i64.max(lo),
                "constpow" => if bps >= 2 { 1i64 << (bps - 2) } else { 0 },
                "zero" => 0,
                "extremes" => {
                    if (i + c) % 2 == 0 { hi } else { lo }
                }
                "stereo" => {
                    // strongly correlated channels
                    if c == 0 {
                        let step = (hi / 64).max(1);
                        walk[0] = (walk[0] + rng.range(-step, step)).clamp(lo, hi);
                        walk[0]
                    } else {
                        (walk[0] + rng.range(-2.max(lo), 2.min(hi))).clamp(lo, hi)
                    }
                }
                "wasted" => {
                    let w = wasted.min(bps - 1);
                    (rng.range(lo, hi) >> w) << w
                }
                "ramp" => (lo + ((i as i64 * 37 + c as i64 * 11) % (hi - lo + 1))).clamp(lo, hi),
                "impulse" => {
                    if rng.chance(1, 17) { *rng.pick(&[lo, hi]) } else { rng.range(-1.max(lo), 1.min(hi)) }
                }
                _ => panic!("unknown signal kind {kind}"),
            };
            out.push(v.clamp(lo, hi) as i32);
        }
    }
    out
}

pub const SIGNALS: &[&str] = &[
    "noise", "small", "sine", "walk", "const", "zero", "extremes", "stereo", "wasted", "ramp", "impulse", "panfirst", "panlast", "chanmix", "blockmix",
];

pub fn bytes_per_sample(bps: u32) -> usize {
    bps.div_ceil(8) as usize
}

/// The harness' own serialisation of samples (independent of the crate's byteorder module)
pub fn samples_to_bytes(samples: &[i32], bps: u32, big_endian: bool) -> Vec<u8> {
    let w = bytes_per_sample(bps);
    let mut out = Vec::with_capacity(samples.len() * w);
    for s in samples {
        let le = (*s as i64).to_le_bytes();
        if big_endian {
            for k in (0..w).rev() {
                out.push(le[k]);
            }
        } else {
            out.extend_from_slice(&le[..w]);
        }
    }
    out
}

pub fn bytes_to_samples(bytes: &[u8], bps: u32, big_endian: bool) -> Vec<i32> {
    let w = bytes_per_sample(bps);
    bytes
        .chunks_exact(w)
        .map(|c| {
            let mut v: i64 = 0;
            for k in 0..w {
                let b = if big_endian { c[w - 1 - k] } else { c[k] };
                v |= (b as i64) << (8 * k);
            }
            let shift = 64 - 8 * w as u32;
            ((v << shift) >> shift) as i32
        })
        .collect()
}

/// All positions at which `data` occurs in `reference` (pure projection used by the traces)
pub fn occurrences<T: PartialEq>(reference: &[T], data: &[T]) -> Vec<usize> {
    if data.is_empty() || data.len() > reference.len() {
        return vec![];
    }
    let mut out = vec![];
    for p in 0..=(reference.len() - data.len()) {
        if reference[p] == data[0] && reference[p..p + data.len()] == *data {
            out.push(p);
        }
    }
    out
}

// ---------------------------------------------------------------------------------
// panic capture

pub struct Caught {
    pub msg: String,
    pub loc: String,
}

thread_local! {
    static LAST_PANIC: std::cell::RefCell<Option<(String, String)>> = const { std::cell::RefCell::new(None) };
}

pub fn install_panic_hook() {
    std::panic::set_hook(Box::new(|info| {
        let msg = if let Some(s) = info.payload().downcast_ref::<&str>() {
            s.to_string()
        } else if let Some(s) = info.payload().downcast_ref::<String>() {
            s.clone()
        } else {
            "<non-string panic>".to_string()
        };
        let loc = info
            .location()
            .map(|l| format!("{}:{}", l.file(), l.line()))
            .unwrap_or_default();
        LAST_PANIC.with(|p| *p.borrow_mut() = Some((msg, loc)));
    }));
}

pub fn catch<T>(f: impl FnOnce() -> T) -> Result<T, Caught> {
    match std::panic::catch_unwind(std::panic::AssertUnwindSafe(f)) {
        Ok(v) => Ok(v),
        Err(_) => {
            let (msg, loc) = LAST_PANIC
                .with(|p| p.borrow_mut().take())
                .unwrap_or(("<unknown>".into(), String::new()));
            Err(Caught { msg, loc })
        }
    }
}

pub fn panic_event(during: &str, c: &Caught) -> Value {
    json!({"ev": "panic", "in": during, "msg": c.msg, "loc": c.loc})
}

// ---------------------------------------------------------------------------------
// trace output

pub struct Trace {
    out: std::io::BufWriter<std::fs::File>,
    pub lines: usize,
}
impl Trace {
    pub fn create(path: &str) -> Self {
        Trace {
            out: std::io::BufWriter::new(std::fs::File::create(path).expect("create trace")),
            lines: 0,
        }
    }
    pub fn emit(&mut self, v: Value) {
        serde_json::to_writer(&mut self.out, &v).unwrap();
        self.out.write_all(b"\n").unwrap();
        self.lines += 1;
    }
    /// everything recorded so far reaches the file (called per item by the drivers that may be killed mid-item)
    pub fn flush(&mut self) {
        self.out.flush().unwrap();
    }
    pub fn finish(mut self) -> usize {
        self.out.flush().unwrap();
        self.lines
    }
}

/// split a u64 into [hi, lo] with a 24-bit lo so that every trace integer fits i32
pub fn hilo(v: u64) -> Value {
    json!([(v >> 24) as i64, (v & 0xFF_FFFF) as i64])
}

pub fn arg_value<'a>(args: &'a [String], name: &str) -> Option<&'a str> {
    args.iter()
        .position(|a| a == name)
        .and_then(|i| args.get(i + 1))
        .map(|s| s.as_str())
}

pub fn read_all<R: Read>(mut r: R) -> Vec<u8> {
    let mut v = vec![];
    r.read_to_end(&mut v).unwrap();
    v
}

pub fn rewind<S: Seek>(s: &mut S) {
    s.seek(SeekFrom::Start(0)).unwrap();
}
