//! Conformance driver: `drive <subcommand> <job.json>`; writes ndjson traces that TLC judges.
use serde_json::Value;
use vharness::*;

#[global_allocator]
static GLOBAL: vharness::alloc::Counting = vharness::alloc::Counting;

fn load_job(path: &str) -> Value {
    serde_json::from_str(&std::fs::read_to_string(path).expect("read job")).expect("parse job")
}

fn main() {
    install_panic_hook();
    let args: Vec<String> = std::env::args().collect();
    if args.len() < 3 {
        eprintln!("usage: drive <subcommand> <job.json>");
        std::process::exit(2);
    }
    let job = load_job(&args[2]);
    match args[1].as_str() {
        "reader" => cmd_reader(&job),
        "writer" => cmd_writer(&job),
        "codec" => {
            let mut t = Trace::create(job["out"].as_str().unwrap());
            let runs = vharness::codec::run(&job, &mut t);
            let lines = t.finish();
            println!("{}", serde_json::json!({"runs": runs, "events": lines}));
        }
        "residuals" => {
            let mut t = Trace::create(job["out"].as_str().unwrap());
            let runs = vharness::codec::run_residuals(&job, &mut t);
            let lines = t.finish();
            println!("{}", serde_json::json!({"runs": runs, "events": lines}));
        }
        "decode" => {
            let mut t = Trace::create(job["out"].as_str().unwrap());
            let runs = vharness::decodeh::run(&job, &mut t);
            let lines = t.finish();
            println!("{}", serde_json::json!({"runs": runs, "events": lines}));
        }
        "damage" => {
            let mut t = Trace::create(job["out"].as_str().unwrap());
            let runs = vharness::decodeh::run_damage(&job, &mut t);
            let lines = t.finish();
            println!("{}", serde_json::json!({"runs": runs, "events": lines}));
        }
        "streamsync" => {
            let mut t = Trace::create(job["out"].as_str().unwrap());
            let runs = vharness::streamsync::run(&job, &mut t);
            let lines = t.finish();
            println!("{}", serde_json::json!({"runs": runs, "events": lines}));
        }
        "serial" => {
            // the serial reference for C18: same jobs, no rayon
            let mut t = Trace::create(job["out"].as_str().unwrap());
            let mut runs = 0;
            for j in job["jobs"].as_array().unwrap() {
                runs += 1;
                let mut ev = vec![];
                let mut scratch = Trace::create("/dev/null");
                let res = vharness::par::encode_with_tasks(j, &mut scratch, runs, &mut ev);
                t.emit(serde_json::json!({"ev": "serial", "job": j["job_id"], "ok": res.is_some(), "len": res.as_ref().map(|b| b.len() as i64).unwrap_or(-1),
                    "md5": res.as_ref().map(|b| vharness::writers::md5_hex(b)).unwrap_or_default(), "tasks": ev.len() as i64}));
            }
            let lines = t.finish();
            println!("{}", serde_json::json!({"runs": runs, "events": lines}));
        }
        "comments" => {
            let mut t = Trace::create(job["out"].as_str().unwrap());
            let runs = vharness::metah::run_comments(&job, &mut t);
            let lines = t.finish();
            println!("{}", serde_json::json!({"runs": runs, "events": lines}));
        }
        "options" => {
            let mut t = Trace::create(job["out"].as_str().unwrap());
            let runs = vharness::writers::run_options(&job, &mut t);
            let lines = t.finish();
            println!("{}", serde_json::json!({"runs": runs, "events": lines}));
        }
        "chmask" => {
            let mut t = Trace::create(job["out"].as_str().unwrap());
            let runs = vharness::metah::run_chmask(&job, &mut t);
            let lines = t.finish();
            println!("{}", serde_json::json!({"runs": runs, "events": lines}));
        }
        "blocklist" => {
            let mut t = Trace::create(job["out"].as_str().unwrap());
            let runs = vharness::metah::run_blocklist(&job, &mut t);
            let lines = t.finish();
            println!("{}", serde_json::json!({"runs": runs, "events": lines}));
        }
        "blocks" => {
            let mut t = Trace::create(job["out"].as_str().unwrap());
            let runs = vharness::metah::run_blocks(&job, &mut t);
            let lines = t.finish();
            println!("{}", serde_json::json!({"runs": runs, "events": lines}));
        }
        "cue" | "total" => {
            let mut t = Trace::create(job["out"].as_str().unwrap());
            let runs = if args[1] == "cue" { vharness::metah::run_cue(&job, &mut t) } else { vharness::metah::run_total(&job, &mut t) };
            let lines = t.finish();
            println!("{}", serde_json::json!({"runs": runs, "events": lines}));
        }
        "crash" => {
            let mut t = Trace::create(job["out"].as_str().unwrap());
            let runs = vharness::crash::run(&job, &mut t);
            let lines = t.finish();
            println!("{}", serde_json::json!({"runs": runs, "events": lines}));
        }
        "faults" => {
            let mut t = Trace::create(job["out"].as_str().unwrap());
            let runs = vharness::faults::run(&job, &mut t);
            let lines = t.finish();
            println!("{}", serde_json::json!({"runs": runs, "events": lines}));
        }
        "metaupdate" => {
            let mut t = Trace::create(job["out"].as_str().unwrap());
            let runs = vharness::meta::run(&job, &mut t);
            let lines = t.finish();
            println!("{}", serde_json::json!({"runs": runs, "events": lines}));
        }
        other => {
            eprintln!("unknown subcommand {other}");
            std::process::exit(2);
        }
    }
}

fn cmd_reader(job: &Value) {
    use vharness::readers::*;
    let mut t = Trace::create(job["out"].as_str().unwrap());
    let mut run_id = 0usize;
    for j in job["jobs"].as_array().unwrap() {
        let cfg = FileCfg::from_json(&j["file"]);
        let (file, pcm) = cfg.build();
        let usize_list = |v: &Value| -> Vec<usize> {
            v.as_array().map(|a| a.iter().map(|x| x.as_u64().unwrap() as usize).collect()).unwrap_or_default()
        };
        let fe = j["fe"].as_str().unwrap();
        let mut run = Run {
            fe,
            file: &file,
            pcm: &pcm,
            cfg: &cfg,
            chunks: usize_list(&j["chunks"]),
            splits: usize_list(&j["splits"]),
            log_data: j["log_data"].as_bool().unwrap_or(false),
            seekable: j["seekable"].as_bool().unwrap_or(true),
            branch_ops: j["branch_ops"].as_array().cloned().unwrap_or_default(),
            fault_at: 0,
            seek_fault_at: 0,
        };
        if let Some(seqs) = j["seqs"].as_array() {
            for s in seqs {
                run_id += 1;
                run.execute(s.as_array().unwrap(), &mut t, run_id);
            }
        }
        // every single split point of the source (C07)
        if j["all_splits"].as_bool().unwrap_or(false) {
            let ops: Vec<Value> = j["split_ops"].as_array().cloned().unwrap_or_default();
            for sp in 1..file.bytes.len() {
                run.splits = vec![sp];
                run_id += 1;
                run.execute(&ops, &mut t, run_id);
            }
            run.splits = vec![];
        }
        if let Some(r) = j.get("random") {
            let n = r["n"].as_u64().unwrap_or(0);
            let len = r["len"].as_u64().unwrap_or(20) as usize;
            let mut rng = Rng::new(r["seed"].as_u64().unwrap_or(1) ^ env_seed().wrapping_mul(0x51ED));
            for _ in 0..n {
                if r["random_chunks"].as_bool().unwrap_or(false) {
                    run.chunks = (0..1 + rng.below(5)).map(|_| 1 + rng.below(97) as usize).collect();
                }
                let ops = random_ops(&mut rng, fe, cfg.frames, run.unit(), len, run.seekable);
                run_id += 1;
                // every third seekable random history meets one transient source fault somewhere behind the metadata
                run.fault_at = if run.seekable && r["faults"].as_bool().unwrap_or(false) && run_id % 3 == 0 { 2 + rng.below(40) as usize } else { 0 };
                // ... and every third one (another third) a source that refuses one of its seek calls, after which the caller just goes on
                run.seek_fault_at = if run.seekable && r["faults"].as_bool().unwrap_or(false) && run_id % 3 == 1 { 1 + rng.below(6) as usize } else { 0 };
                run.execute(&ops, &mut t, run_id);
                run.fault_at = 0;
                run.seek_fault_at = 0;
            }
        }
    }
    let lines = t.finish();
    println!("{}", serde_json::json!({"runs": run_id, "events": lines}));
}

fn cmd_writer(job: &Value) {
    let mut t = Trace::create(job["out"].as_str().unwrap());
    let mut run_id = 0usize;
    // `skip_upto`: continue after a run that ended the process (allocation request beyond the cap, see alloc.rs)
    let skip_upto = job["skip_upto"].as_u64().unwrap_or(0) as usize;
    for j in job["jobs"].as_array().unwrap() {
        run_id += 1;
        if run_id <= skip_upto {
            continue;
        }
        t.flush();
        vharness::alloc::CURRENT_ID.store(run_id as u64, std::sync::atomic::Ordering::Relaxed);
        vharness::writers::run_writer(j, &mut t, run_id);
    }
    let lines = t.finish();
    println!("{}", serde_json::json!({"runs": run_id, "events": lines}));
}
