//! Scripted I/O wrappers: source segmentation, fault injection, write recording.
use std::io::{Read, Seek, SeekFrom, Write};

#[derive(Clone)]
/// A seekable in-memory source whose `read` returns at most the next scripted chunk size.
pub struct ChunkedReader {
    pub data: Vec<u8>,
    pub pos: usize,
    /// chunk sizes used cyclically (1 = one byte per read)
    pub chunks: Vec<usize>,
    pub k: usize,
    /// absolute offsets at which a read must stop (a read never crosses a split point)
    pub splits: Vec<usize>,
    pub reads: usize,
    /// <= 0 = no fault pending; n > 0 = the n-th read call from now fails once with "injected fault" and delivers nothing
    /// (shared with clones of the reader and with the driver, which arms it after the reader was opened)
    pub fault_in: std::sync::Arc<std::sync::atomic::AtomicIsize>,
    /// the same for seek calls: the n-th seek call from now fails once with "injected seek fault" and leaves the position where it was
    pub seek_fault_in: std::sync::Arc<std::sync::atomic::AtomicIsize>,
}
impl ChunkedReader {
    pub fn new(data: Vec<u8>, chunks: Vec<usize>, splits: Vec<usize>) -> Self {
        ChunkedReader { data, pos: 0, chunks, k: 0, splits, reads: 0, fault_in: Default::default(), seek_fault_in: Default::default() }
    }
}
impl Read for ChunkedReader {
    fn read(&mut self, buf: &mut [u8]) -> std::io::Result<usize> {
        self.reads += 1;
        if self.fault_in.load(std::sync::atomic::Ordering::Relaxed) > 0 && self.fault_in.fetch_sub(1, std::sync::atomic::Ordering::Relaxed) == 1 {
            return Err(std::io::Error::new(std::io::ErrorKind::TimedOut, "injected fault"));
        }
        let mut n = buf.len().min(self.data.len().saturating_sub(self.pos));
        if !self.chunks.is_empty() {
            let c = self.chunks[self.k % self.chunks.len()].max(1);
            self.k += 1;
            n = n.min(c);
        }
        for s in &self.splits {
            if *s > self.pos && *s < self.pos + n {
                n = *s - self.pos;
            }
        }
        buf[..n].copy_from_slice(&self.data[self.pos..self.pos + n]);
        self.pos += n;
        Ok(n)
    }
}
impl Seek for ChunkedReader {
    fn seek(&mut self, p: SeekFrom) -> std::io::Result<u64> {
        if self.seek_fault_in.load(std::sync::atomic::Ordering::Relaxed) > 0 && self.seek_fault_in.fetch_sub(1, std::sync::atomic::Ordering::Relaxed) == 1 {
            return Err(std::io::Error::new(std::io::ErrorKind::TimedOut, "injected seek fault"));
        }
        let np: i64 = match p {
            SeekFrom::Start(o) => o as i64,
            SeekFrom::Current(d) => self.pos as i64 + d,
            SeekFrom::End(d) => self.data.len() as i64 + d,
        };
        if np < 0 {
            return Err(std::io::Error::new(std::io::ErrorKind::InvalidInput, "negative seek"));
        }
        self.pos = np as usize;
        Ok(np as u64)
    }
}

#[derive(Clone, Copy, Debug, PartialEq, Eq)]
pub enum FaultMode {
    /// the n-th call and every later one fail
    Permanent,
    /// only the n-th call fails (ErrorKind::Other)
    Transient,
    /// the n-th write accepts only part of the buffer (legal for io::Write)
    Short,
    /// the n-th call fails with ErrorKind::Interrupted (callers are expected to retry)
    Interrupted,
}

#[derive(Clone, Debug)]
pub struct IoCall {
    pub kind: &'static str, // write | flush | seek | read
    pub ok: bool,
    pub off: u64,
    pub len: usize,
}

/// Read + Write + Seek over a Vec<u8> with the n-th underlying call failing.
pub struct FaultyRW {
    pub store: Vec<u8>,
    pub pos: u64,
    pub calls: usize,
    pub fail_at: usize, // 0 = never
    pub mode: FaultMode,
    /// which call kinds count and can fail: "w" writes/flushes/seeks, "r" reads
    pub count_reads: bool,
    pub count_writes: bool,
    pub log: Vec<IoCall>,
}
impl FaultyRW {
    pub fn new(store: Vec<u8>, fail_at: usize, mode: FaultMode, count_reads: bool, count_writes: bool) -> Self {
        FaultyRW { store, pos: 0, calls: 0, fail_at, mode, count_reads, count_writes, log: vec![] }
    }
    fn tick(&mut self, counted: bool) -> Option<std::io::Error> {
        if !counted {
            return None;
        }
        self.calls += 1;
        if self.fail_at == 0 {
            return None;
        }
        let hit = match self.mode {
            FaultMode::Permanent => self.calls >= self.fail_at,
            FaultMode::Transient | FaultMode::Interrupted => self.calls == self.fail_at,
            FaultMode::Short => false,
        };
        if hit {
            Some(match self.mode {
                FaultMode::Interrupted => std::io::Error::new(std::io::ErrorKind::Interrupted, "injected interrupt"),
                _ => std::io::Error::other("injected fault"),
            })
        } else {
            None
        }
    }
}
impl Write for FaultyRW {
    fn write(&mut self, buf: &[u8]) -> std::io::Result<usize> {
        if let Some(e) = self.tick(self.count_writes) {
            self.log.push(IoCall { kind: "write", ok: false, off: self.pos, len: buf.len() });
            return Err(e);
        }
        let mut n = buf.len();
        if self.count_writes && self.mode == FaultMode::Short && self.calls == self.fail_at && n > 1 {
            n /= 2;
        }
        let p = self.pos as usize;
        if self.store.len() < p + n {
            self.store.resize(p + n, 0);
        }
        self.store[p..p + n].copy_from_slice(&buf[..n]);
        self.log.push(IoCall { kind: "write", ok: true, off: self.pos, len: n });
        self.pos += n as u64;
        Ok(n)
    }
    fn flush(&mut self) -> std::io::Result<()> {
        if let Some(e) = self.tick(self.count_writes) {
            self.log.push(IoCall { kind: "flush", ok: false, off: self.pos, len: 0 });
            return Err(e);
        }
        self.log.push(IoCall { kind: "flush", ok: true, off: self.pos, len: 0 });
        Ok(())
    }
}
impl Read for FaultyRW {
    fn read(&mut self, buf: &mut [u8]) -> std::io::Result<usize> {
        if let Some(e) = self.tick(self.count_reads) {
            self.log.push(IoCall { kind: "read", ok: false, off: self.pos, len: buf.len() });
            return Err(e);
        }
        let p = (self.pos as usize).min(self.store.len());
        let mut n = buf.len().min(self.store.len() - p);
        if self.count_reads && self.mode == FaultMode::Short && self.calls == self.fail_at && n > 1 {
            n /= 2;
        }
        buf[..n].copy_from_slice(&self.store[p..p + n]);
        self.log.push(IoCall { kind: "read", ok: true, off: self.pos, len: n });
        self.pos += n as u64;
        Ok(n)
    }
}
impl Seek for FaultyRW {
    fn seek(&mut self, p: SeekFrom) -> std::io::Result<u64> {
        // stream_position() is Seek::seek(Current(0)); it is counted like any other seek
        if let Some(e) = self.tick(self.count_writes) {
            self.log.push(IoCall { kind: "seek", ok: false, off: self.pos, len: 0 });
            return Err(e);
        }
        let np: i64 = match p {
            SeekFrom::Start(o) => o as i64,
            SeekFrom::Current(d) => self.pos as i64 + d,
            SeekFrom::End(d) => self.store.len() as i64 + d,
        };
        if np < 0 {
            return Err(std::io::Error::new(std::io::ErrorKind::InvalidInput, "negative seek"));
        }
        self.pos = np as u64;
        self.log.push(IoCall { kind: "seek", ok: true, off: self.pos, len: 0 });
        Ok(self.pos)
    }
}

/// A shared, recording in-memory Write + Seek (+ Read) sink: the harness keeps a handle so
/// that it can snapshot the bytes while a writer still owns the other handle.
#[derive(Clone, Default)]
pub struct SharedBuf {
    pub inner: std::rc::Rc<std::cell::RefCell<SharedInner>>,
}
#[derive(Default)]
pub struct SharedInner {
    pub data: Vec<u8>,
    pub pos: usize,
    /// (kind, offset, len) of every underlying call, in order
    pub calls: Vec<(&'static str, usize, usize)>,
}
impl SharedBuf {
    pub fn with_prefix(prefix: Vec<u8>) -> Self {
        let pos = prefix.len();
        SharedBuf { inner: std::rc::Rc::new(std::cell::RefCell::new(SharedInner { data: prefix, pos, calls: vec![] })) }
    }
    pub fn snapshot(&self) -> Vec<u8> {
        self.inner.borrow().data.clone()
    }
    pub fn calls(&self) -> Vec<(&'static str, usize, usize)> {
        self.inner.borrow().calls.clone()
    }
}
impl Write for SharedBuf {
    fn write(&mut self, buf: &[u8]) -> std::io::Result<usize> {
        let mut s = self.inner.borrow_mut();
        let p = s.pos;
        if s.data.len() < p + buf.len() {
            s.data.resize(p + buf.len(), 0);
        }
        s.data[p..p + buf.len()].copy_from_slice(buf);
        s.pos += buf.len();
        s.calls.push(("write", p, buf.len()));
        Ok(buf.len())
    }
    fn flush(&mut self) -> std::io::Result<()> {
        let mut s = self.inner.borrow_mut();
        let p = s.pos;
        s.calls.push(("flush", p, 0));
        Ok(())
    }
}
impl Seek for SharedBuf {
    fn seek(&mut self, p: SeekFrom) -> std::io::Result<u64> {
        let mut s = self.inner.borrow_mut();
        let np: i64 = match p {
            SeekFrom::Start(o) => o as i64,
            SeekFrom::Current(d) => s.pos as i64 + d,
            SeekFrom::End(d) => s.data.len() as i64 + d,
        };
        if np < 0 {
            return Err(std::io::Error::new(std::io::ErrorKind::InvalidInput, "negative seek"));
        }
        s.pos = np as usize;
        let pp = s.pos;
        s.calls.push(("seek", pp, 0));
        Ok(np as u64)
    }
}
