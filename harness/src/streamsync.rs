//! C16: raw frame streams through FlacStreamWriter / FlacStreamReader with garbage and
//! scripted buffer boundaries.
use crate::*;
use flac_codec::decode::FlacStreamReader;
use flac_codec::encode::{FlacStreamWriter, Options};
use serde_json::{Value, json};
use std::io::{BufRead, Read};

/// BufRead whose fill_buf hands out at most the next scripted chunk; the refill numbered `fault.0` (counting from 0) answers once
/// with Interrupted (`fault.1 == false`) or with a transient I/O error (`true`) before it delivers
pub struct ScriptedBuf {
    data: Vec<u8>,
    pos: usize,
    chunks: Vec<usize>,
    k: usize,
    avail: usize,
    fault: Option<(usize, bool)>,
    refills: usize,
    pub delivered: usize,
}
impl ScriptedBuf {
    pub fn new(data: Vec<u8>, chunks: Vec<usize>) -> Self {
        ScriptedBuf { data, pos: 0, chunks, k: 0, avail: 0, fault: None, refills: 0, delivered: 0 }
    }
    pub fn with_fault(mut self, at: usize, io_error: bool) -> Self {
        self.fault = Some((at, io_error));
        self
    }
}
impl Read for ScriptedBuf {
    fn read(&mut self, buf: &mut [u8]) -> std::io::Result<usize> {
        let b = self.fill_buf()?;
        let n = b.len().min(buf.len());
        buf[..n].copy_from_slice(&b[..n]);
        self.consume(n);
        Ok(n)
    }
}
impl BufRead for ScriptedBuf {
    fn fill_buf(&mut self) -> std::io::Result<&[u8]> {
        if self.avail == 0 {
            if let Some((at, io_error)) = self.fault {
                if at == self.refills && self.pos < self.data.len() {
                    self.fault = None;
                    self.delivered += 1;
                    return Err(if io_error { std::io::Error::other("injected source error") } else { std::io::Error::from(std::io::ErrorKind::Interrupted) });
                }
            }
            if self.pos < self.data.len() {
                self.refills += 1;
            }
            let c = if self.chunks.is_empty() { usize::MAX } else { self.chunks[self.k % self.chunks.len()].max(1) };
            self.k += 1;
            self.avail = c.min(self.data.len() - self.pos);
        }
        Ok(&self.data[self.pos..self.pos + self.avail])
    }
    fn consume(&mut self, amt: usize) {
        let a = amt.min(self.avail);
        self.pos += a;
        self.avail -= a;
    }
}

struct Written {
    bytes: Vec<u8>,
    samples: Vec<i32>,
    rate: u32,
    channels: u8,
    bps: u32,
}

/// the stream writer takes the same Options as the file writers: rotate through presets and correlation settings
fn stream_options(id: u64) -> Options {
    // every combination of mid-side on / off with exhaustive / quick correlation occurs, next to the presets
    match id % 7 {
        0 => Options::default(),
        1 => Options::fast(),
        2 => Options::best(),
        3 => Options::default().fast_channel_correlation(true).mid_side(false),
        4 => Options::default().fast_channel_correlation(true).mid_side(true),
        5 => Options::default().fast_channel_correlation(false).mid_side(false),
        _ => Options::default().fast_channel_correlation(false).mid_side(true).max_lpc_order(None::<u8>).unwrap(),
    }
}

pub fn run(job: &Value, t: &mut Trace) -> usize {
    let mut n = 0;
    let mut rng = Rng::new(env_seed() ^ 0xC16);
    for a in job["arrangements"].as_array().unwrap() {
        n += 1;
        // the frames
        let mut frames: Vec<Written> = vec![];
        let mut ok = true;
        // "sessions": how many consecutive frames each writer emits before a new writer takes over on the same sink (an encoder restarted
        // on a live feed): frame numbers then start again from 0 in the middle of the concatenation.  Absent: one writer per frame.
        let sessions: Vec<usize> = a["sessions"].as_array().map(|v| v.iter().map(|x| x.as_u64().unwrap() as usize).collect()).unwrap_or_default();
        struct Shared(std::rc::Rc<std::cell::RefCell<Vec<u8>>>);
        impl std::io::Write for Shared {
            fn write(&mut self, b: &[u8]) -> std::io::Result<usize> {
                self.0.borrow_mut().extend_from_slice(b);
                Ok(b.len())
            }
            fn flush(&mut self) -> std::io::Result<()> {
                Ok(())
            }
        }
        let specs = a["frames"].as_array().unwrap();
        let mut at = 0usize;
        let mut si = 0usize;
        while at < specs.len() && ok {
            let count = if sessions.is_empty() { 1 } else { sessions[si % sessions.len()].max(1) }.min(specs.len() - at);
            si += 1;
            let sink = std::rc::Rc::new(std::cell::RefCell::new(Vec::<u8>::new()));
            let mut w = FlacStreamWriter::new(Shared(sink.clone()), stream_options(a["id"].as_u64().unwrap_or(0)));
            for f in &specs[at..at + count] {
                let rate = f["rate"].as_u64().unwrap() as u32;
                let ch = f["channels"].as_u64().unwrap() as u8;
                let bps = f["bps"].as_u64().unwrap() as u32;
                let len = f["len"].as_u64().unwrap() as usize;
                let mut r2 = Rng::new(f["seed"].as_u64().unwrap_or(1));
                let samples = gen_pcm(f["signal"].as_str().unwrap_or("walk"), &mut r2, ch as usize, bps, len);
                let before = sink.borrow().len();
                let res = catch(|| w.write(rate, ch, bps, &samples).map_err(|e| e.to_string()));
                match res {
                    Ok(Ok(())) => {
                        let out = sink.borrow()[before..].to_vec();
                        frames.push(Written { bytes: out, samples, rate, channels: ch, bps })
                    }
                    other => {
                        t.emit(json!({"ev": "writefail", "id": a["id"], "why": format!("{:?}", other.map_err(|c| c.msg))}));
                        ok = false;
                        break;
                    }
                }
            }
            at += count;
        }
        if !ok {
            continue;
        }
        // the same frames through ONE writer, with refused calls in between (parameters no frame header can carry): what reaches the
        // output must be exactly the accepted frames, numbered consecutively from 0 (C02 for raw frame streams)
        if a["sequence"].as_bool().unwrap_or(true) {
            let mut out = vec![];
            let mut refused = 0i64;
            let mut accepted: Vec<Value> = vec![];
            let res = catch(|| {
                let mut w = FlacStreamWriter::new(&mut out, stream_options(a["id"].as_u64().unwrap_or(0)));
                for (i, f) in frames.iter().enumerate() {
                    // before every frame but the first, calls that must be refused without a trace in the stream
                    if i > 0 {
                        let bad: [(u32, u8, u32, usize); 8] = [(1_234_567, f.channels, f.bps, 16), (f.rate, 0, f.bps, 16), (f.rate, 9, f.bps, 16), (f.rate, f.channels, 17, 16),
                            // more PCM frames than a block can hold (the 16-bit block size must not wrap)
                            (f.rate, 1, f.bps, 65536), (f.rate, 1, f.bps, 65537), (f.rate, 2, f.bps, 70000), (f.rate, 1, f.bps, 131073)];
                        let (r, c, b, n) = bad[(i + f.samples.len() + a["id"].as_u64().unwrap_or(0) as usize) % 8];
                        let junk = vec![0i32; n * c.max(1) as usize];
                        if w.write(r, c, b, &junk).is_err() {
                            refused += 1;
                        } else {
                            accepted.push(json!({"rate": r as i64, "channels": c as i64, "bps": b as i64, "samples": junk.iter().map(|s| *s as i64).collect::<Vec<_>>()}));
                        }
                    }
                    if w.write(f.rate, f.channels, f.bps, &f.samples).is_ok() {
                        accepted.push(json!({"rate": f.rate as i64, "channels": f.channels as i64, "bps": f.bps as i64,
                            "samples": f.samples.iter().map(|s| *s as i64).collect::<Vec<_>>()}));
                    }
                }
            });
            t.emit(json!({"ev": "sequence", "id": a["id"], "panicked": res.is_err(), "refused": refused, "accepted": accepted,
                "bytes": Value::from(out.iter().map(|b| *b as i64).collect::<Vec<_>>())}));
        }
        // the frames must be self-describing: hand them to the format model
        if a["log_frames"].as_bool().unwrap_or(false) {
            for (i, f) in frames.iter().enumerate() {
                t.emit(json!({"ev": "frame", "id": a["id"], "index": (i + 1) as i64, "bytes": Value::from(f.bytes.iter().map(|b| *b as i64).collect::<Vec<_>>()),
                    "samples": Value::from(f.samples.iter().map(|s| *s as i64).collect::<Vec<_>>()),
                    "rate": f.rate as i64, "channels": f.channels as i64, "bps": f.bps as i64}));
            }
        }
        // garbage
        let garbage: Vec<Vec<String>> = a["garbage"].as_array().unwrap().iter()
            .map(|g| g.as_array().unwrap().iter().map(|x| x.as_str().unwrap().to_string()).collect()).collect();
        let mut data = vec![];
        let render = |g: &Vec<String>, rng: &mut Rng, data: &mut Vec<u8>| {
            for tok in g {
                data.push(match tok.as_str() {
                    "FF" => 0xFF,
                    "S" => *rng.pick(&[0xF8u8, 0xF9]),
                    _ => *rng.pick(&[0x00u8, 0x41, 0x7F, 0xFE, 0xF0, 0x80]),
                });
            }
        };
        for (i, f) in frames.iter().enumerate() {
            render(&garbage[i], &mut rng, &mut data);
            data.extend_from_slice(&f.bytes);
        }
        render(&garbage[frames.len()], &mut rng, &mut data);
        // "fault_sweep": every chunking is also run once per refill of the fault-free run and per kind of source error (Interrupted, transient)
        let sweep = a["fault_sweep"].as_bool().unwrap_or(false);
        let mut plans: Vec<(Vec<usize>, Option<(usize, bool)>)> = vec![];
        for chunks in a["chunkings"].as_array().unwrap() {
            let chunks: Vec<usize> = chunks.as_array().unwrap().iter().map(|x| x.as_u64().unwrap() as usize).collect();
            plans.push((chunks.clone(), None));
            if sweep {
                // number of refills of the fault-free run
                let mut probe = ScriptedBuf::new(data.clone(), chunks.clone());
                let mut sink = vec![];
                let _ = probe.read_to_end(&mut sink);
                for at in 0..probe.refills {
                    plans.push((chunks.clone(), Some((at, false))));
                    plans.push((chunks.clone(), Some((at, true))));
                }
            }
        }
        for (chunks, fault) in plans {
            let src = ScriptedBuf::new(data.clone(), chunks.clone());
            let mut rd = FlacStreamReader::new(match fault { Some((at, io)) => src.with_fault(at, io), None => src });
            let mut ioerrs_reported = 0i64;
            let mut returned: Vec<i64> = vec![];
            let mut errors: Vec<String> = vec![];
            let mut panicked = false;
            let mut last = 0usize;
            for _ in 0..(frames.len() * 4 + 20) {
                let r = catch(|| rd.read().map(|f| (f.samples.to_vec(), f.sample_rate, f.channels, f.bits_per_sample)).map_err(|e| e.to_string()));
                match r {
                    Ok(Ok((s, rate, ch, bps))) => {
                        // which written frame is this? (search from the last match on, then anywhere)
                        let m = (last..frames.len()).chain(0..last).find(|i| {
                            let w = &frames[*i];
                            w.samples == s && w.rate == rate && w.channels == ch && w.bps == bps
                        });
                        match m {
                            Some(i) => {
                                returned.push((i + 1) as i64);
                                last = i + 1;
                            }
                            None => returned.push(-1),
                        }
                    }
                    Ok(Err(e)) => {
                        let eof = e.contains("eof looking for frame sync");
                        if e.contains("injected source error") {
                            ioerrs_reported += 1;
                        }
                        errors.push(e);
                        if eof {
                            break;
                        }
                    }
                    Err(c) => {
                        errors.push(format!("panic: {} @{}", c.msg, c.loc));
                        panicked = true;
                        break;
                    }
                }
            }
            t.emit(json!({"ev": "arr", "id": a["id"], "n": frames.len() as i64, "garbage": a["garbage"], "chunks": chunks.iter().map(|c| *c as i64).collect::<Vec<_>>(),
                "returned": returned, "errors": errors.len() as i64, "panicked": panicked,
                "fault": match fault { Some((at, io)) => json!({"at": at as i64, "io": io}), None => json!({"at": -1, "io": false}) },
                "ioerrs_reported": ioerrs_reported, "min_frame_bytes": frames.iter().map(|f| f.bytes.len()).min().unwrap_or(0) as i64,
                "last_error": errors.last().cloned().unwrap_or_default(), "pred": a["pred"]}));
        }
    }
    n
}
