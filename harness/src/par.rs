//! C18 support: run one writer job and return the produced bytes plus the task events
//! (start = 1 / end = 0, kind, cache key, thread) in the order the sink recorded them.
use crate::*;
use serde_json::Value;

pub fn encode_with_tasks(j: &Value, t: &mut Trace, run_id: usize, events: &mut Vec<(u8, &'static str, usize, u64)>) -> Option<Vec<u8>> {
    use flac_codec::encode::FlacSampleWriter;
    use flac_codec::verif::Event;
    let rate = j["rate"].as_u64().unwrap_or(44100) as u32;
    let bps = j["bps"].as_u64().unwrap_or(16) as u32;
    let channels = j["channels"].as_u64().unwrap_or(1) as u8;
    let mut rng = Rng::new(j["pcm"]["seed"].as_u64().unwrap_or(3));
    let pcm = gen_pcm(j["pcm"]["signal"].as_str().unwrap_or("walk"), &mut rng, channels as usize, bps, j["pcm"]["frames"].as_u64().unwrap_or(0) as usize);
    let opts = crate::writers::build_options(&j["opts"]).ok()?;
    let mut cur = std::io::Cursor::new(vec![]);
    flac_codec::verif::install();
    let r = catch(|| -> Result<(), String> {
        let mut w = FlacSampleWriter::new(&mut cur, opts, rate, bps, channels, None).map_err(|e| e.to_string())?;
        w.write(&pcm).map_err(|e| e.to_string())?;
        w.finalize().map_err(|e| e.to_string())
    });
    for e in flac_codec::verif::take() {
        match e {
            Event::TaskStart { kind, key, thread } => events.push((1, kind, key, thread)),
            Event::TaskEnd { kind, key, thread } => events.push((0, kind, key, thread)),
            Event::EncodeBegin { .. } => events.push((2, "frame", 0, 0)),
            _ => {}
        }
    }
    let _ = (t, run_id);
    match r {
        Ok(Ok(())) => Some(cur.into_inner()),
        _ => None,
    }
}
