//! C13: fault enumeration. For every scenario the fault-free run is counted, then the n-th
//! underlying call fails for every n and every mode; TLC judges each run against IoFaults.
use crate::io::{FaultMode, FaultyRW};
use crate::writers::{build_options, md5_hex};
use crate::*;
use flac_codec::byteorder::LittleEndian;
use flac_codec::decode::{FlacByteReader, FlacChannelReader, FlacSampleReader};
use flac_codec::encode::{FlacByteWriter, FlacChannelWriter, FlacSampleWriter, FlacStreamWriter, Options};
use flac_codec::metadata::{Application, BlockList, Padding, VorbisComment, update_file, write_blocks};
use serde_json::{Value, json};
use std::io::{Read, Write};

pub struct Outcome {
    pub ret: &'static str,
    pub msg: String,
    pub store: Vec<u8>,
    /// data returned to the caller (read scenarios) or the second sink (rebuild)
    pub out: Vec<u8>,
    pub calls: usize,
}

fn finish(r: Result<Result<Vec<u8>, String>, Caught>, rw: FaultyRW) -> Outcome {
    let calls = rw.calls;
    match r {
        Ok(Ok(out)) => Outcome { ret: "ok", msg: String::new(), store: rw.store, out, calls },
        Ok(Err(e)) => Outcome { ret: "err", msg: e, store: rw.store, out: vec![], calls },
        Err(c) => Outcome { ret: "panic", msg: format!("{} @{}", c.msg, c.loc), store: rw.store, out: vec![], calls },
    }
}

fn pcm40() -> Vec<i32> {
    let mut rng = Rng::new(4040);
    gen_pcm("walk", &mut rng, 2, 16, 40)
}

fn sample_file(seektable: bool, padding: u32) -> Vec<u8> {
    let mut o = Options::default().block_size(16).unwrap();
    o = if seektable { o.seektable_frames(1) } else { o.no_seektable() };
    o = if padding == 0 { o.no_padding() } else { o.padding(padding).unwrap() };
    o = o.tag("TITLE", "fault enumeration");
    // a block late in the metadata (behind the comment and the seek table): an edit of it lies in the last bytes of an in-place rewrite
    o = o.application(Application { id: 0x7465_7374, data: vec![1; 40] });
    let pcm = pcm40();
    let mut cur = std::io::Cursor::new(vec![]);
    let mut w = FlacSampleWriter::new(&mut cur, o, 44100, 16, 2, Some(pcm.len() as u64)).unwrap();
    w.write(&pcm).unwrap();
    w.finalize().unwrap();
    cur.into_inner()
}

fn samples_bytes(v: &[i32]) -> Vec<u8> {
    v.iter().flat_map(|s| s.to_le_bytes()).collect()
}

/// Runs scenario `id` with the given fault plan.
pub fn run_scenario(id: &str, sc: &Value, fail_at: usize, mode: FaultMode) -> Outcome {
    let kind = sc["kind"].as_str().unwrap();
    let reads = kind == "read";
    match sc["what"].as_str().unwrap() {
        "encode" => {
            let fe = sc["fe"].as_str().unwrap();
            let start = sc["start"].as_u64().unwrap_or(0) as usize;
            let declared = sc["declared"].as_bool().unwrap_or(false);
            let opts = build_options(&sc["opts"]).unwrap();
            // "frames": how many of the 40 PCM frames are written (a whole number of blocks or not); "tail": bytes of a torn PCM frame
            // handed to the byte front ends after them (dropped by finalize - the finished file is that of the whole frames)
            let frames = sc["frames"].as_u64().unwrap_or(40) as usize;
            let tail = sc["tail"].as_u64().unwrap_or(0) as usize;
            // "big": one write of that many mono 8-bit PCM frames (several blocks in one call; more than a frame can ever hold when
            // >= 65536), after which the caller finalizes WHATEVER the write returned - as a clean-up path or a Drop would
            if let Some(big) = sc["big"].as_u64() {
                let pcm: Vec<i32> = (0..big as i32).map(|i| (i % 100) - 50).collect();
                let mut rw = FaultyRW::new(vec![0xEE; start], fail_at, mode, false, true);
                rw.pos = start as u64;
                let explicit = sc["explicit_finalize"].as_bool().unwrap_or(true);
                let r = catch(|| -> Result<Vec<u8>, String> {
                    macro_rules! after {
                        ($w:ident, $r:expr) => {{
                            let r = $r;
                            if explicit {
                                let f = $w.finalize().map_err(|e| e.to_string());
                                r.and(f)?;
                            } else {
                                // dropping finalizes without reporting: only a panic is an outcome here (the fault-free run passes as the reference)
                                drop($w);
                                r?;
                                if fail_at != 0 {
                                    return Err("dropped: completion is not reported".to_string());
                                }
                            }
                        }};
                    }
                    match fe {
                        "byte-le" => {
                            let bytes = samples_to_bytes(&pcm, 8, false);
                            let mut w: FlacByteWriter<_, LittleEndian> = FlacByteWriter::new(&mut rw, opts, 44100, 8, 1, None).map_err(|e| e.to_string())?;
                            after!(w, w.write_all(&bytes).map_err(|e| e.to_string()))
                        }
                        "sample" => {
                            let mut w = FlacSampleWriter::new(&mut rw, opts, 44100, 8, 1, None).map_err(|e| e.to_string())?;
                            after!(w, w.write(&pcm).map_err(|e| e.to_string()))
                        }
                        _ => {
                            let mut w = FlacChannelWriter::new(&mut rw, opts, 44100, 8, 1, None).map_err(|e| e.to_string())?;
                            after!(w, w.write([&pcm[..]]).map_err(|e| e.to_string()))
                        }
                    }
                    Ok(vec![])
                });
                return finish(r, rw);
            }
            let pcm = pcm40()[..frames * 2].to_vec();
            let mut rw = FaultyRW::new(vec![0xEE; start], fail_at, mode, false, true);
            rw.pos = start as u64;
            let r = catch(|| -> Result<Vec<u8>, String> {
                match fe {
                    "byte-le" | "byte-be" => {
                        let mut bytes = samples_to_bytes(&pcm, 16, fe == "byte-be");
                        let whole = bytes.len();
                        bytes.extend(std::iter::repeat_n(0x5A, tail));
                        macro_rules! go {
                            ($e:ty) => {{
                                let mut w: FlacByteWriter<_, $e> =
                                    FlacByteWriter::new(&mut rw, opts, 44100, 16, 2, declared.then_some(whole as u64)).map_err(|e| e.to_string())?;
                                w.write_all(&bytes[..50]).map_err(|e| e.to_string())?;
                                w.write_all(&bytes[50..]).map_err(|e| e.to_string())?;
                                if sc["flush"].as_bool().unwrap_or(false) {
                                    w.flush().map_err(|e| e.to_string())?;
                                }
                                w.finalize().map_err(|e| e.to_string())?;
                            }};
                        }
                        if fe == "byte-be" {
                            go!(flac_codec::byteorder::BigEndian)
                        } else {
                            go!(LittleEndian)
                        }
                    }
                    "sample" => {
                        let mut w = FlacSampleWriter::new(&mut rw, opts, 44100, 16, 2, declared.then_some(pcm.len() as u64)).map_err(|e| e.to_string())?;
                        w.write(&pcm[..34]).map_err(|e| e.to_string())?;
                        w.write(&pcm[34..]).map_err(|e| e.to_string())?;
                        w.finalize().map_err(|e| e.to_string())?;
                    }
                    _ => {
                        let l: Vec<i32> = pcm.iter().step_by(2).copied().collect();
                        let r: Vec<i32> = pcm.iter().skip(1).step_by(2).copied().collect();
                        let mut w = FlacChannelWriter::new(&mut rw, opts, 44100, 16, 2, declared.then_some(frames as u64)).map_err(|e| e.to_string())?;
                        w.write([&l[..17], &r[..17]]).map_err(|e| e.to_string())?;
                        w.write([&l[17..], &r[17..]]).map_err(|e| e.to_string())?;
                        w.finalize().map_err(|e| e.to_string())?;
                    }
                }
                Ok(vec![])
            });
            finish(r, rw)
        }
        "encode-multi" => {
            // the channel-count arms of the frame encoder (1 / 2 / 3..8 channels) through the sample and the per-channel front ends
            let ch = sc["ch"].as_u64().unwrap_or(3) as usize;
            let bps = sc["bps"].as_u64().unwrap_or(16) as u32;
            let declared = sc["declared"].as_bool().unwrap_or(false);
            let opts = build_options(&sc["opts"]).unwrap();
            let mut rng = Rng::new(5050 + ch as u64);
            let pcm = gen_pcm(sc["signal"].as_str().unwrap_or("walk"), &mut rng, ch, bps, 40);
            let mut rw = FaultyRW::new(vec![], fail_at, mode, false, true);
            let r = catch(|| -> Result<Vec<u8>, String> {
                if sc["fe"].as_str() == Some("channel") {
                    let chans: Vec<Vec<i32>> = (0..ch).map(|c| pcm.iter().skip(c).step_by(ch).copied().collect()).collect();
                    let mut w = FlacChannelWriter::new(&mut rw, opts, 44100, bps, ch as u8, declared.then_some(40)).map_err(|e| e.to_string())?;
                    w.write(chans.iter().map(|c| &c[..23]).collect::<Vec<_>>()).map_err(|e| e.to_string())?;
                    w.write(chans.iter().map(|c| &c[23..]).collect::<Vec<_>>()).map_err(|e| e.to_string())?;
                    w.finalize().map_err(|e| e.to_string())?;
                } else {
                    let mut w = FlacSampleWriter::new(&mut rw, opts, 44100, bps, ch as u8, declared.then_some(pcm.len() as u64)).map_err(|e| e.to_string())?;
                    w.write(&pcm[..17 * ch]).map_err(|e| e.to_string())?;
                    w.write(&pcm[17 * ch..]).map_err(|e| e.to_string())?;
                    w.finalize().map_err(|e| e.to_string())?;
                }
                Ok(vec![])
            });
            finish(r, rw)
        }
        "stream-multi" => {
            let mut rw = FaultyRW::new(vec![], fail_at, mode, false, true);
            let r = catch(|| -> Result<Vec<u8>, String> {
                let fast = sc["fast"].as_bool().unwrap_or(false);
                let mut w = FlacStreamWriter::new(&mut rw, if fast { Options::fast() } else { Options::default() });
                for (ch, bps, n) in [(1usize, 16u32, 20usize), (3, 16, 18), (2, 24, 16), (6, 8, 17), (8, 20, 16)] {
                    let mut rng = Rng::new(6060 + ch as u64);
                    let pcm = gen_pcm("walk", &mut rng, ch, bps, n);
                    w.write(44100, ch as u8, bps, &pcm).map_err(|e| e.to_string())?;
                }
                Ok(vec![])
            });
            finish(r, rw)
        }
        "stream" => {
            let pcm = pcm40();
            let mut rw = FaultyRW::new(vec![], fail_at, mode, false, true);
            let r = catch(|| -> Result<Vec<u8>, String> {
                let mut w = FlacStreamWriter::new(&mut rw, Options::default());
                w.write(44100, 2, 16, &pcm[..32]).map_err(|e| e.to_string())?;
                w.write(48000, 1, 16, &pcm[32..60]).map_err(|e| e.to_string())?;
                w.write(44100, 2, 8, &[1, -2, 3, -4, 5, -6]).map_err(|e| e.to_string())?;
                Ok(vec![])
            });
            finish(r, rw)
        }
        "write_blocks" => {
            let file = sample_file(true, 50);
            let blocks = BlockList::read(file.as_slice()).unwrap();
            let mut rw = FaultyRW::new(vec![], fail_at, mode, false, true);
            let r = catch(|| -> Result<Vec<u8>, String> {
                write_blocks(&mut rw, blocks.blocks()).map_err(|e| e.to_string())?;
                Ok(vec![])
            });
            finish(r, rw)
        }
        "update" => {
            // edit: "equal" | "equal-late" | "grow" | "shrink" | "rebuild" | "rebuild-sinkfault" | "rebuild-closure"
            let edit = sc["edit"].as_str().unwrap();
            let file = sample_file(true, if edit.starts_with("rebuild") { 0 } else { 60 });
            let sink_fault = edit == "rebuild-sinkfault";
            // faults hit the original (reads or writes) unless the scenario targets the rebuilt sink
            let mut rw = FaultyRW::new(file, if sink_fault { 0 } else { fail_at }, mode, reads, !reads);
            let mut sink = FaultyRW::new(vec![], if sink_fault { fail_at } else { 0 }, mode, false, true);
            let r = catch(|| -> Result<Vec<u8>, String> {
                let rebuilt = update_file::<_, _, flac_codec::Error>(
                    &mut rw,
                    || {
                        if edit == "rebuild-closure" {
                            Err(std::io::Error::other("cannot create file"))
                        } else {
                            Ok(&mut sink)
                        }
                    },
                    |blocks| {
                        match edit {
                            "equal" => blocks.update::<VorbisComment>(|vc| vc.set("TITLE", "FAULT ENUMERATION")),
                            "equal-late" => {
                                if let Some(a) = blocks.get_mut::<Application>() {
                                    a.data = vec![9; 40];
                                }
                            }
                            "grow" => blocks.update::<VorbisComment>(|vc| vc.set("ARTIST", "somebody")),
                            "shrink" => blocks.update::<VorbisComment>(|vc| vc.remove("TITLE")),
                            _ => {
                                blocks.insert(Application { id: 1, data: vec![7; 100] });
                            }
                        }
                        Ok(())
                    },
                )
                .map_err(|e| e.to_string())?;
                Ok(vec![rebuilt as u8])
            });
            let mut o = finish(r, rw);
            if sink_fault || edit.starts_with("rebuild") {
                o.calls = o.calls.max(sink.calls);
                o.out.extend_from_slice(&sink.store);
                if sink_fault {
                    o.calls = sink.calls;
                }
            }
            o
        }
        "read" if sc["api"].as_str() == Some("stream") => {
            // the frame-at-a-time reader over a BufRead whose refills cut the data every `cap` bytes (a refill then falls between the
            // two bytes of a frame's sync code); running out of data while looking for a sync code is the end of the run
            let pcm = pcm40();
            let mut file = vec![];
            {
                let mut w = FlacStreamWriter::new(&mut file, Options::default());
                w.write(44100, 2, 16, &pcm[..32]).unwrap();
                w.write(48000, 1, 16, &pcm[32..60]).unwrap();
                w.write(44100, 2, 8, &[1, -2, 3, -4, 5, -6]).unwrap();
                w.write(44100, 2, 16, &pcm[40..]).unwrap();
            }
            let cap = sc["cap"].as_u64().unwrap_or(8) as usize;
            let mut rw = FaultyRW::new(file, fail_at, mode, true, false);
            let r = catch(|| -> Result<Vec<u8>, String> {
                let mut r = flac_codec::decode::FlacStreamReader::new(std::io::BufReader::with_capacity(cap, &mut rw));
                let mut v = vec![];
                loop {
                    match r.read() {
                        Ok(f) => {
                            v.extend([f.sample_rate as i32, f.channels as i32, f.bits_per_sample as i32, f.samples.len() as i32]);
                            v.extend_from_slice(f.samples);
                        }
                        Err(flac_codec::Error::Io(e)) if e.kind() == std::io::ErrorKind::UnexpectedEof && e.to_string().contains("looking for frame sync") => break,
                        Err(e) => return Err(e.to_string()),
                    }
                }
                Ok(samples_bytes(&v))
            });
            finish(r, rw)
        }
        "read" => {
            let file = sample_file(true, 20);
            let mut rw = FaultyRW::new(file, fail_at, mode, true, false);
            let which = sc["api"].as_str().unwrap();
            let r = catch(|| -> Result<Vec<u8>, String> {
                match which {
                    "blocklist" => {
                        let b = BlockList::read(&mut rw).map_err(|e| e.to_string())?;
                        Ok(format!("{:?}", b.blocks().collect::<Vec<_>>()).into_bytes())
                    }
                    "byte" => {
                        let mut r: FlacByteReader<_, LittleEndian> = FlacByteReader::new(&mut rw).map_err(|e| e.to_string())?;
                        let mut v = vec![];
                        r.read_to_end(&mut v).map_err(|e| e.to_string())?;
                        Ok(v)
                    }
                    "sample" => {
                        let mut r = FlacSampleReader::new(&mut rw).map_err(|e| e.to_string())?;
                        let mut v = vec![];
                        r.read_to_end(&mut v).map_err(|e| e.to_string())?;
                        Ok(samples_bytes(&v))
                    }
                    "sample-iter" => {
                        let r = FlacSampleReader::new(&mut rw).map_err(|e| e.to_string())?;
                        let mut v = vec![];
                        for s in r {
                            v.push(s.map_err(|e| e.to_string())?);
                        }
                        Ok(samples_bytes(&v))
                    }
                    "channel" => {
                        let mut r = FlacChannelReader::new(&mut rw).map_err(|e| e.to_string())?;
                        let mut v = vec![];
                        loop {
                            let chs = r.fill_buf().map_err(|e| e.to_string())?;
                            let n = chs[0].len();
                            if n == 0 {
                                break;
                            }
                            for i in 0..n {
                                for c in &chs {
                                    v.push(c[i]);
                                }
                            }
                            r.consume(n);
                        }
                        Ok(samples_bytes(&v))
                    }
                    "seektable" => {
                        let t = flac_codec::encode::generate_seektable(&mut rw, flac_codec::encode::SeekTableInterval::Frames(1.try_into().unwrap()))
                            .map_err(|e| e.to_string())?;
                        Ok(format!("{:?}", t).into_bytes())
                    }
                    "verify" => {
                        let v = flac_codec::decode::verify_reader(&mut rw).map_err(|e| e.to_string())?;
                        Ok(format!("{v:?}").into_bytes())
                    }
                    _ => Err(format!("unknown api {which}")),
                }
            });
            finish(r, rw)
        }
        other => panic!("unknown scenario {other} ({id})"),
    }
}

pub fn run(job: &Value, t: &mut Trace) -> usize {
    let mut runs = 0;
    let modes = [
        ("permanent", FaultMode::Permanent),
        ("transient", FaultMode::Transient),
        ("short", FaultMode::Short),
        ("interrupted", FaultMode::Interrupted),
    ];
    for sc in job["scenarios"].as_array().unwrap() {
        let id = sc["id"].as_str().unwrap();
        let reference = run_scenario(id, sc, 0, FaultMode::Permanent);
        t.emit(json!({"ev": "scenario", "id": id, "kind": sc["kind"], "what": sc["what"], "ret": reference.ret, "msg": reference.msg,
            "calls": reference.calls as i64, "store_md5": md5_hex(&reference.store), "out_md5": md5_hex(&reference.out),
            "store_len": reference.store.len() as i64}));
        if reference.ret != "ok" {
            continue;
        }
        // ("max_n": only the first calls of a long run are faulted - the later ones repeat the same situation block after block)
        let last = sc["max_n"].as_u64().map(|m| (m as usize).min(reference.calls)).unwrap_or(reference.calls);
        for n in 1..=last {
            for (mname, mode) in modes {
                runs += 1;
                let o = run_scenario(id, sc, n, mode);
                t.emit(json!({"ev": "fault", "id": id, "n": n as i64, "mode": mname, "ret": o.ret, "msg": o.msg,
                    "calls": o.calls as i64, "hit": o.calls >= n,
                    "store_md5": md5_hex(&o.store), "out_md5": md5_hex(&o.out), "store_len": o.store.len() as i64}));
            }
        }
    }
    runs
}
