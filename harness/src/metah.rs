//! C11 / C12 / C20: metadata blocks, cue sheets, picture sniffing, accessors.
use crate::*;
use flac_codec::metadata::{BlockList, Cuesheet, Metadata, Picture, PictureType};
use serde_json::{Value, json};
use std::io::Cursor;

fn layout_of(c: &Cuesheet) -> Value {
    let mut exact = true;
    let mut sect = |v: u64| -> i64 {
        if v % 588 != 0 {
            exact = false;
        }
        (v / 588).min(i32::MAX as u64) as i64
    };
    let all: Vec<_> = c.tracks().collect();
    let mut tracks = vec![];
    let mut leadout = -1i64;
    for t in &all {
        match t.number {
            Some(n) => tracks.push(json!({"number": n as i64, "offset": sect(t.offset), "pre": t.pre_emphasis,
                "isrc": t.isrc.as_ref(), "non_audio": t.non_audio,
                "index": t.index_points.iter().map(|i| json!([i.number as i64, sect(i.offset)])).collect::<Vec<_>>()})),
            None => leadout = sect(t.offset),
        }
    }
    let ranges: Vec<Value> = c.track_sample_ranges().map(|r| json!([sect(r.start), sect(r.end)])).collect();
    json!({"catalog": c.catalog_number().to_string(), "leadout": leadout, "tracks": tracks, "ranges": ranges, "exact": exact,
        "cdda": c.is_cdda(), "track_count": c.track_count() as i64})
}

pub fn run_cue(job: &Value, t: &mut Trace) -> usize {
    let mut n = 0;
    for it in job["items"].as_array().unwrap() {
        n += 1;
        let text = it["text"].as_str().unwrap();
        let total = it["total"].as_u64().unwrap();
        let mut ev = json!({"ev": "cue", "id": it["id"], "variant": it["variant"], "expected": it["expected"], "isrcs": it["isrcs"], "catalog": it["catalog"]});
        let base = crate::alloc::reset_peak();
        match catch(|| Cuesheet::parse(total, text)) {
            Ok(Ok(c)) => {
                ev["ret"] = json!("ok");
                match catch(|| layout_of(&c)) {
                    Ok(l) => ev["layout"] = l,
                    Err(p) => {
                        ev["ret"] = json!("panic");
                        ev["msg"] = json!(format!("accessors: {} @{}", p.msg, p.loc));
                    }
                }
                // export -> import reproduces the layout
                match catch(|| {
                    let shown = c.display("x.flac").to_string();
                    Cuesheet::parse(total, &shown).map(|c2| layout_of(&c2)).map_err(|e| format!("{e:?}"))
                }) {
                    Ok(Ok(l2)) => {
                        let strip = |l: &Value| {
                            let tr: Vec<Value> = l["tracks"].as_array().unwrap().iter().map(|t| json!([t["number"], t["offset"], t["index"]])).collect();
                            json!([tr, l["leadout"], l["ranges"]])
                        };
                        ev["roundtrip_same"] = json!(ev["layout"].is_object() && strip(&l2) == strip(&ev["layout"]));
                    }
                    Ok(Err(e)) => ev["roundtrip_err"] = json!(e),
                    Err(p) => ev["roundtrip_err"] = json!(format!("panic: {} @{}", p.msg, p.loc)),
                }
            }
            Ok(Err(e)) => {
                ev["ret"] = json!("err");
                ev["msg"] = json!(format!("{e:?}"));
            }
            Err(p) => {
                ev["ret"] = json!("panic");
                ev["msg"] = json!(format!("{} @{}", p.msg, p.loc));
            }
        }
        ev["peak_kib"] = json!((crate::alloc::peak_since(base) / 1024) as i64);
        ev["input_len"] = json!(text.len() as i64);
        t.emit(ev);
    }
    n
}

/// C12: totality of sniffers, metadata readers and every accessor
pub fn run_total(job: &Value, t: &mut Trace) -> usize {
    let mut n = 0;
    let skip_upto = job["skip_upto"].as_u64().unwrap_or(0);
    for it in job["items"].as_array().unwrap() {
        let id = it["id"].as_u64().unwrap_or(0);
        if id <= skip_upto {
            continue;
        }
        n += 1;
        t.flush();
        crate::alloc::CURRENT_ID.store(id, std::sync::atomic::Ordering::Relaxed);
        let kind = it["kind"].as_str().unwrap();
        let base = crate::alloc::reset_peak();
        let mut ev = json!({"ev": "total", "id": it["id"], "kind": kind, "class": it["class"], "expect_valid": it["expect_valid"].as_bool().unwrap_or(false),
            "rewrite_failed": false});
        let bytes: Vec<u8> = it["bytes"].as_array().map(|a| a.iter().map(|x| x.as_u64().unwrap() as u8).collect()).unwrap_or_default();
        let r: Result<Result<String, String>, Caught> = match kind {
            "sniff" => catch(|| {
                Picture::new(PictureType::FrontCover, "d", bytes.clone())
                    .map(|p| format!("{} {}x{} depth={} colors={:?}", p.media_type, p.width, p.height, p.color_depth, p.colors_used))
                    .map_err(|e| e.to_string())
            }),
            "cue" => catch(|| {
                let c = Cuesheet::parse(it["total"].as_u64().unwrap_or(588 * 1000), it["text"].as_str().unwrap()).map_err(|e| format!("{e:?}"))?;
                // every accessor and the text rendering
                let _ = layout_of(&c);
                let _ = c.display("f").to_string();
                let _: Vec<_> = c.track_byte_ranges(2, 16).collect();
                let _ = c.lead_in_samples();
                // and serialisation of what was imported
                let mut out = vec![];
                let bl = {
                    let mut b = BlockList::new(flac_codec::metadata::Streaminfo {
                        minimum_block_size: 16, maximum_block_size: 16, minimum_frame_size: None, maximum_frame_size: None,
                        sample_rate: 44100, channels: 2.try_into().unwrap(), bits_per_sample: 16u32.try_into().unwrap(),
                        total_samples: None, md5: None });
                    b.insert(c);
                    b
                };
                flac_codec::metadata::write_blocks(&mut out, bl.blocks()).map_err(|e| format!("write: {e}"))?;
                Ok(format!("ok {} bytes", out.len()))
            }),
            "blocks" => catch(|| {
                // the other reading entry points over the same bytes: STREAMINFO only, first block of a kind, the block iterator;
                // where they succeed they must agree with the full list
                {
                    use flac_codec::metadata::{Application, Cuesheet as Cs, Padding, Picture as Pic, SeekTable, Streaminfo, VorbisComment, read_block, read_blocks, read_info};
                    let info = read_info(Cursor::new(&bytes[..])).ok();
                    let n_iter = read_blocks(Cursor::new(&bytes[..])).take_while(|b| b.is_ok()).count();
                    // a caller that keeps polling after an error (for / count / collect): the iterator must come to an end - every item
                    // but the last few consumes at least a block header, so more items than bytes is a loop that never ends (reported
                    // like a panic: the call has no outcome)
                    let cap = bytes.len() + 16;
                    if read_blocks(Cursor::new(&bytes[..])).take(cap + 1).count() > cap {
                        panic!("HANG: the block iterator yields more than {cap} items over {} bytes and never ends", bytes.len());
                    }
                    let vc: Option<VorbisComment> = read_block(Cursor::new(&bytes[..])).ok().flatten();
                    let _: Option<SeekTable> = read_block(Cursor::new(&bytes[..])).ok().flatten();
                    let _: Option<Cs> = read_block(Cursor::new(&bytes[..])).ok().flatten();
                    let _: Option<Pic> = read_block(Cursor::new(&bytes[..])).ok().flatten();
                    let _: Option<Application> = read_block(Cursor::new(&bytes[..])).ok().flatten();
                    let _: Option<Padding> = read_block(Cursor::new(&bytes[..])).ok().flatten();
                    let si2: Option<Streaminfo> = read_block(Cursor::new(&bytes[..])).ok().flatten();
                    if let Ok(bl) = BlockList::read(Cursor::new(&bytes[..])) {
                        if info.as_ref() != Some(bl.streaminfo()) || si2.as_ref() != Some(bl.streaminfo()) {
                            return Err("read_info / read_block::<Streaminfo> disagree with BlockList::read".into());
                        }
                        if n_iter != bl.blocks().count() {
                            return Err("read_blocks yields a different number of blocks than BlockList::read".into());
                        }
                        if vc.as_ref() != bl.get::<VorbisComment>() {
                            return Err("read_block::<VorbisComment> disagrees with BlockList::read".into());
                        }
                    }
                }
                let bl = BlockList::read(Cursor::new(&bytes[..])).map_err(|e| e.to_string())?;
                // every accessor on a block list that parsed
                let mut s = format!("{:?} {:?} {:?} {} {} {}", bl.duration(), bl.decoded_len(), bl.channel_mask(), bl.channel_count(), bl.sample_rate(), bl.bits_per_sample());
                for b in bl.blocks() {
                    if let flac_codec::metadata::BlockRef::Cuesheet(c) = b {
                        let _ = layout_of(c);
                        let _ = c.display("f").to_string();
                        let _: Vec<_> = c.track_byte_ranges(bl.channel_count(), bl.bits_per_sample()).collect();
                        let _ = c.lead_in_samples();
                        s.push_str(" cue");
                    }
                    s.push_str(&format!(" {}", b.block_type()));
                }
                // what was read can be written again
                let mut out = vec![];
                flac_codec::metadata::write_blocks(&mut out, bl.blocks()).map_err(|e| format!("write: {e}"))?;
                let again = BlockList::read(Cursor::new(&out[..])).map_err(|e| format!("reread: {e}"))?;
                if format!("{:?}", again.blocks().collect::<Vec<_>>()) != format!("{:?}", bl.blocks().collect::<Vec<_>>()) {
                    return Err("reread differs".into());
                }
                Ok(s)
            }),
            _ => Ok(Err("unknown kind".into())),
        };
        match r {
            Ok(Ok(s)) => {
                ev["ret"] = json!("ok");
                ev["msg"] = json!(s);
            }
            Ok(Err(e)) => {
                ev["ret"] = json!("err");
                ev["rewrite_failed"] = json!(e.starts_with("write:") || e.starts_with("reread"));
                ev["entry_points_disagree"] = json!(e.starts_with("read_"));
                ev["msg"] = json!(e);
            }
            Err(p) => {
                ev["ret"] = json!("panic");
                ev["msg"] = json!(format!("{} @{}", p.msg, p.loc));
            }
        }
        ev["peak_kib"] = json!((crate::alloc::peak_since(base) / 1024) as i64);
        ev["input_len"] = json!((bytes.len() + it["text"].as_str().map(|s| s.len()).unwrap_or(0)) as i64);
        t.emit(ev);
    }
    n
}

// ---------------------------------------------------------------------------------------------
// C11: block values built through the public constructors, written, measured, read back

fn ptype(n: u64) -> Option<PictureType> {
    use PictureType::*;
    Some(match n {
        0 => Other, 1 => Png32x32, 2 => GeneralFileIcon, 3 => FrontCover, 4 => BackCover, 5 => LinerNotes, 6 => MediaLabel,
        7 => LeadArtist, 8 => Artist, 9 => Conductor, 10 => Band, 11 => Composer, 12 => Lyricist, 13 => RecordingLocation,
        14 => DuringRecording, 15 => DuringPerformance, 16 => ScreenCapture, 17 => Fish, 18 => Illustration, 19 => BandLogo,
        20 => PublisherLogo,
        _ => return None,
    })
}

fn hl(v: &Value) -> u64 {
    (v[0].as_u64().unwrap() << 24) | v[1].as_u64().unwrap()
}
fn bytes_of(v: &Value) -> Vec<u8> {
    // either an explicit byte list or {"fill": byte, "len": n} for very large bodies
    if let Some(n) = v["len"].as_u64() {
        return vec![v["fill"].as_u64().unwrap_or(0) as u8; n as usize];
    }
    v.as_array().map(|a| a.iter().map(|x| x.as_u64().unwrap() as u8).collect()).unwrap_or_default()
}

enum Built {
    Block(flac_codec::metadata::Block),
    Unbuildable(String),
}

fn build_block(b: &Value) -> Built {
    use flac_codec::metadata::*;
    let kind = b["kind"].as_str().unwrap();
    let r = catch(|| -> Result<Block, String> {
        Ok(match kind {
            "streaminfo" => {
                let md5 = bytes_of(&b["md5"]);
                Block::Streaminfo(Streaminfo {
                    minimum_block_size: b["minbs"].as_u64().unwrap() as u16,
                    maximum_block_size: b["maxbs"].as_u64().unwrap() as u16,
                    minimum_frame_size: std::num::NonZero::new(b["minfs"].as_u64().unwrap() as u32),
                    maximum_frame_size: std::num::NonZero::new(b["maxfs"].as_u64().unwrap() as u32),
                    sample_rate: b["rate"].as_u64().unwrap() as u32,
                    channels: std::num::NonZero::new(b["channels"].as_u64().unwrap() as u8).ok_or("channels 0")?,
                    bits_per_sample: (b["bps"].as_u64().unwrap() as u32).try_into().map_err(|_| "bps")?,
                    total_samples: std::num::NonZero::new(hl(&b["total"])),
                    md5: md5.iter().any(|x| *x != 0).then(|| md5.clone().try_into().unwrap()),
                })
            }
            "padding" => Block::Padding(Padding { size: (b["size"].as_u64().unwrap() as u32).try_into().map_err(|_| "padding size")? }),
            "application" => Block::Application(Application {
                id: ((b["id"][0].as_u64().unwrap() as u32) << 16) | b["id"][1].as_u64().unwrap() as u32,
                data: bytes_of(&b["data"]),
            }),
            "seektable" => {
                let pts: Vec<SeekPoint> = b["points"].as_array().unwrap().iter().map(|p| {
                    if p[0] == "p" { SeekPoint::Placeholder } else {
                        SeekPoint::Defined { sample_offset: hl(&p[1]), byte_offset: hl(&p[2]), frame_samples: p[3].as_u64().unwrap() as u16 }
                    }
                }).collect();
                Block::SeekTable(SeekTable { points: pts.try_into().map_err(|_| "seek points not contiguous".to_string())? })
            }
            "comment" => Block::VorbisComment(VorbisComment {
                vendor_string: String::from_utf8(bytes_of(&b["vendor"])).map_err(|_| "vendor utf8")?,
                fields: b["fields"].as_array().unwrap().iter().map(|f| String::from_utf8(bytes_of(f)).map_err(|_| "field utf8".to_string())).collect::<Result<_, _>>()?,
            }),
            "picture" => Block::Picture(Picture {
                picture_type: ptype(b["ptype"].as_u64().unwrap()).ok_or("reserved picture type")?,
                media_type: String::from_utf8(bytes_of(&b["mime"])).map_err(|_| "mime utf8")?,
                description: String::from_utf8(bytes_of(&b["desc"])).map_err(|_| "desc utf8")?,
                width: b["width"].as_u64().unwrap() as u32,
                height: b["height"].as_u64().unwrap() as u32,
                color_depth: b["depth"].as_u64().unwrap() as u32,
                colors_used: std::num::NonZero::new(b["colors"].as_u64().unwrap() as u32),
                data: bytes_of(&b["data"]),
            }),
            "cuesheet" => {
                let c = Cuesheet::parse(b["text_total"].as_u64().unwrap(), b["text"].as_str().unwrap()).map_err(|e| format!("cue text: {e:?}"))?;
                Block::Cuesheet(c)
            }
            _ => return Err("unknown kind".into()),
        })
    });
    match r {
        Ok(Ok(b)) => Built::Block(b),
        Ok(Err(e)) => Built::Unbuildable(e),
        Err(p) => Built::Unbuildable(format!("panic: {} @{}", p.msg, p.loc)),
    }
}

fn block_size_reported(b: &flac_codec::metadata::Block) -> Option<i64> {
    use flac_codec::metadata::{Block, MetadataBlock};
    let s: Option<flac_codec::metadata::BlockSize> = match b {
        Block::Streaminfo(x) => x.bytes(),
        Block::Padding(x) => x.bytes(),
        Block::Application(x) => x.bytes(),
        Block::SeekTable(x) => x.bytes(),
        Block::VorbisComment(x) => x.bytes(),
        Block::Cuesheet(x) => x.bytes(),
        Block::Picture(x) => x.bytes(),
    };
    s.map(|s| u32::from(s) as i64)
}

pub fn run_blocks(job: &Value, t: &mut Trace) -> usize {
    use flac_codec::metadata::{Block, read_blocks, write_blocks};
    let mut n = 0;
    for it in job["items"].as_array().unwrap() {
        n += 1;
        let mut ev = json!({"ev": "blocks", "id": it["id"], "class": it["class"], "blocks": it["blocks"]});
        let mut built: Vec<Block> = vec![];
        let mut unbuildable = None;
        for b in it["blocks"].as_array().unwrap() {
            match build_block(b) {
                Built::Block(x) => built.push(x),
                Built::Unbuildable(e) => {
                    unbuildable = Some(e);
                    break;
                }
            }
        }
        if let Some(e) = unbuildable {
            // the constructors themselves refuse the value (or panicked while refusing)
            ev["ret"] = json!(if e.starts_with("panic") { "panic" } else { "unbuildable" });
            ev["msg"] = json!(e);
            t.emit(ev);
            continue;
        }
        let sizes: Vec<Value> = built.iter().map(|b| match catch(|| block_size_reported(b)) {
            Ok(Some(s)) => json!(s),
            Ok(None) => json!(-1),
            Err(_) => json!(-2),
        }).collect();
        ev["sizes"] = Value::from(sizes);
        let mut out = vec![];
        match catch(|| write_blocks(&mut out, built.iter())) {
            Ok(Ok(())) => {
                ev["ret"] = json!("ok");
                if out.len() <= 6000 {
                    ev["written"] = Value::from(out.iter().map(|x| *x as i64).collect::<Vec<_>>());
                }
                ev["written_len"] = json!(out.len() as i64);
                // write_blocks takes any iterator: its output must not depend on the iterator's size hints (a filter that drops a
                // trailing block has a loose upper bound, from_fn has none)
                {
                    let mut o2 = vec![];
                    let mut it = built.iter();
                    let r2 = catch(|| write_blocks(&mut o2, std::iter::from_fn(|| it.next())));
                    let mut o3 = vec![];
                    let extra = Block::Padding(flac_codec::metadata::Padding { size: 7u32.try_into().unwrap() });
                    let n_real = built.len();
                    let r3 = catch(|| write_blocks(&mut o3, built.iter().chain(std::iter::once(&extra)).enumerate().filter(|(i, _)| *i < n_real).map(|(_, b)| b)));
                    ev["iter_shapes_same"] = json!(matches!(r2, Ok(Ok(()))) && matches!(r3, Ok(Ok(()))) && o2 == out && o3 == out);
                }
                match catch(|| read_blocks(Cursor::new(&out[..])).collect::<Result<Vec<Block>, _>>()) {
                    Ok(Ok(back)) => {
                        // the same bytes through sources that deliver less than asked for (a BufReader does so whenever a request
                        // straddles its buffer; pipes and sockets at will): the block list read must not depend on it
                        let mut same = back == built;
                        if out.len() <= 200_000 {
                            for chunks in [vec![1500usize], vec![7], vec![3, 1, 64], vec![8192, 1]] {
                                let r = catch(|| read_blocks(crate::io::ChunkedReader::new(out.clone(), chunks.clone(), vec![])).collect::<Result<Vec<Block>, _>>());
                                same = same && matches!(r, Ok(Ok(b)) if b == built);
                            }
                            for cap in [16usize, 100, 4096] {
                                let r = catch(|| read_blocks(std::io::BufReader::with_capacity(cap, Cursor::new(&out[..]))).collect::<Result<Vec<Block>, _>>());
                                same = same && matches!(r, Ok(Ok(b)) if b == built);
                            }
                        }
                        ev["readback_same"] = json!(same);
                    }
                    Ok(Err(e)) => ev["readback_err"] = json!(e.to_string()),
                    Err(p) => ev["readback_err"] = json!(format!("panic: {} @{}", p.msg, p.loc)),
                }
            }
            Ok(Err(e)) => {
                ev["ret"] = json!("err");
                ev["msg"] = json!(e.to_string());
            }
            Err(p) => {
                ev["ret"] = json!("panic");
                ev["msg"] = json!(format!("{} @{}", p.msg, p.loc));
            }
        }
        t.emit(ev);
    }
    n
}

/// growth: VorbisComment field algebra histories (CommentAlgebra.tla)
pub fn run_comments(job: &Value, t: &mut Trace) -> usize {
    use flac_codec::metadata::VorbisComment;
    let keys: Vec<String> = job["keys"].as_array().unwrap().iter().map(|k| k.as_str().unwrap().to_string()).collect();
    let mut n = 0;
    for (hi, h) in job["histories"].as_array().unwrap().iter().enumerate() {
        n += 1;
        t.emit(json!({"ev": "reset", "id": hi as i64}));
        let mut vc = VorbisComment { vendor_string: "v".into(), fields: vec![] };
        for step in h.as_array().unwrap() {
            let op = &step["op"];
            let k = op["k"].as_str().unwrap_or("");
            let r = catch(|| match op["op"].as_str().unwrap() {
                "insert" => vc.insert(k, op["v"].as_str().unwrap()),
                "set" => vc.set(k, op["v"].as_str().unwrap()),
                "remove" => vc.remove(k),
                "replace" => vc.replace(k, op["vs"].as_array().unwrap().iter().map(|v| v.as_str().unwrap().to_string())),
                _ => vc.replace_with(k, |v| format!("{v}!")),
            });
            let fields: Vec<Value> = vc.fields.iter().map(|f| { let (a, b) = f.split_once('=').unwrap_or((f, "")); json!([a, b]) }).collect();
            let mut q = serde_json::Map::new();
            for key in &keys {
                q.insert(key.clone(), Value::from(vc.all(key).map(|s| s.to_string()).collect::<Vec<_>>()));
            }
            t.emit(json!({"ev": "cstep", "id": hi as i64, "op": op, "ret": if r.is_ok() { "ok" } else { "panic" }, "fields": fields, "queries": Value::Object(q)}));
        }
    }
    n
}

// ---------------------------------------------------------------------------------------------
// growth: BlockListOps histories on the real BlockList

/// the tag that tells instances of a kind apart, read back from a block
fn tag_of(b: &flac_codec::metadata::BlockRef<'_>) -> Option<(&'static str, i64)> {
    use flac_codec::metadata::BlockRef::*;
    Some(match b {
        Padding(p) => ("padding", u32::from(p.size) as i64),
        Application(a) => ("application", a.id as i64),
        VorbisComment(c) => ("comment", c.vendor_string.parse().unwrap_or(-1)),
        SeekTable(s) => ("seektable", s.points.len() as i64),
        Cuesheet(c) => ("cuesheet", c.lead_in_samples().map(|v| v as i64).unwrap_or(-2) / 588),
        _ => return None,
    })
}

pub fn run_blocklist(job: &Value, t: &mut Trace) -> usize {
    use flac_codec::metadata::{Application, Cuesheet as Cs, OptionalBlockType, Padding, SeekPoint, SeekTable, Streaminfo, VorbisComment};
    let kinds: Vec<String> = job["kinds"].as_array().unwrap().iter().map(|k| k.as_str().unwrap().to_string()).collect();
    let si = || Streaminfo { minimum_block_size: 16, maximum_block_size: 16, minimum_frame_size: None, maximum_frame_size: None,
        sample_rate: 44100, channels: 2.try_into().unwrap(), bits_per_sample: 16u32.try_into().unwrap(), total_samples: None, md5: None };
    let mut n = 0;
    for (hi, h) in job["histories"].as_array().unwrap().iter().enumerate() {
        n += 1;
        t.emit(json!({"ev": "reset", "id": hi as i64}));
        let mut bl = BlockList::new(si());
        for step in h.as_array().unwrap() {
            let op = &step["op"];
            let k = op["k"].as_str().unwrap_or("");
            let tg = op["t"].as_u64().unwrap_or(0);
            let mut back: Vec<i64> = vec![];
            let r = catch(|| match op["op"].as_str().unwrap() {
                "insert" => match k {
                    "padding" => { if let Some(o) = bl.insert(Padding { size: (tg as u32).try_into().unwrap() }) { back.push(u32::from(o.size) as i64) } }
                    "application" => { if let Some(o) = bl.insert(Application { id: tg as u32, data: vec![] }) { back.push(o.id as i64) } }
                    "comment" => { if let Some(o) = bl.insert(VorbisComment { vendor_string: tg.to_string(), fields: vec![] }) { back.push(o.vendor_string.parse().unwrap_or(-1)) } }
                    "seektable" => {
                        let pts: Vec<SeekPoint> = (0..tg).map(|_| SeekPoint::Placeholder).collect();
                        if let Some(o) = bl.insert(SeekTable { points: pts.try_into().ok().expect("placeholders") }) { back.push(o.points.len() as i64) }
                    }
                    _ => {
                        // lead-in = tag sectors: a CD-DA sheet whose first track starts after a pre-gap cannot carry it, so use
                        // a non-CD-DA sheet? The lead-in is only stored for CD-DA sheets; tag it through the track offset instead
                        let text = format!("TRACK 01 AUDIO\n  INDEX 01 00:00:00\nTRACK 02 AUDIO\n  INDEX 01 {:02}:{:02}:{:02}\n", tg / 4500, (tg / 75) % 60, tg % 75);
                        let c = Cs::parse(588 * 1_000_000, &text).expect("cue text");
                        if let Some(o) = bl.insert(c) { back.push(cue_tag(&o)) }
                    }
                },
                "remove" => match k {
                    "padding" => bl.remove::<Padding>(),
                    "application" => bl.remove::<Application>(),
                    "comment" => bl.remove::<VorbisComment>(),
                    "seektable" => bl.remove::<SeekTable>(),
                    _ => bl.remove::<Cs>(),
                },
                "extract" => match k {
                    "padding" => back = bl.extract::<Padding>().map(|o| u32::from(o.size) as i64).collect(),
                    "application" => back = bl.extract::<Application>().map(|o| o.id as i64).collect(),
                    "comment" => back = bl.extract::<VorbisComment>().map(|o| o.vendor_string.parse().unwrap_or(-1)).collect(),
                    "seektable" => back = bl.extract::<SeekTable>().map(|o| o.points.len() as i64).collect(),
                    _ => back = bl.extract::<Cs>().map(|o| cue_tag(&o)).collect(),
                },
                _ => {
                    let key = op["key"].clone();
                    bl.sort_by(|ty| {
                        let name = match ty {
                            OptionalBlockType::Padding => "padding",
                            OptionalBlockType::Application => "application",
                            OptionalBlockType::VorbisComment => "comment",
                            OptionalBlockType::SeekTable => "seektable",
                            OptionalBlockType::Cuesheet => "cuesheet",
                            _ => "other",
                        };
                        key[name].as_i64().unwrap_or(99)
                    })
                }
            });
            let tag = |b: &flac_codec::metadata::BlockRef<'_>| -> Option<(&'static str, i64)> {
                match b {
                    flac_codec::metadata::BlockRef::Cuesheet(c) => Some(("cuesheet", cue_tag(c))),
                    other => tag_of(other),
                }
            };
            let list: Vec<Value> = bl.blocks().filter_map(|b| tag(&b)).map(|(k, v)| json!([k, v])).collect();
            let mut get = serde_json::Map::new();
            let mut all = serde_json::Map::new();
            for kd in &kinds {
                let (g, a): (i64, Vec<i64>) = match kd.as_str() {
                    "padding" => (bl.get::<Padding>().map(|o| u32::from(o.size) as i64).unwrap_or(0), bl.get_all::<Padding>().map(|o| u32::from(o.size) as i64).collect()),
                    "application" => (bl.get::<Application>().map(|o| o.id as i64).unwrap_or(0), bl.get_all::<Application>().map(|o| o.id as i64).collect()),
                    "comment" => (bl.get::<VorbisComment>().map(|o| o.vendor_string.parse().unwrap_or(-1)).unwrap_or(0), bl.get_all::<VorbisComment>().map(|o| o.vendor_string.parse().unwrap_or(-1)).collect()),
                    "seektable" => (bl.get::<SeekTable>().map(|o| o.points.len() as i64).unwrap_or(0), bl.get_all::<SeekTable>().map(|o| o.points.len() as i64).collect()),
                    _ => (bl.get::<Cs>().map(cue_tag).unwrap_or(0), bl.get_all::<Cs>().map(cue_tag).collect()),
                };
                get.insert(kd.clone(), json!(g));
                all.insert(kd.clone(), json!(a));
            }
            // get_pair_mut over a few type pairs (both orders)
            let mut pairs: Vec<Value> = vec![];
            {
                let (a, b) = bl.get_pair_mut::<VorbisComment, SeekTable>();
                pairs.push(json!(["comment", "seektable", a.map(|o| o.vendor_string.parse().unwrap_or(-1)).unwrap_or(0), b.map(|o| o.points.len() as i64).unwrap_or(0)]));
                let (a, b) = bl.get_pair_mut::<SeekTable, VorbisComment>();
                pairs.push(json!(["seektable", "comment", a.map(|o| o.points.len() as i64).unwrap_or(0), b.map(|o| o.vendor_string.parse().unwrap_or(-1)).unwrap_or(0)]));
                let (a, b) = bl.get_pair_mut::<Padding, Application>();
                pairs.push(json!(["padding", "application", a.map(|o| u32::from(o.size) as i64).unwrap_or(0), b.map(|o| o.id as i64).unwrap_or(0)]));
                let (a, b) = bl.get_pair_mut::<Application, VorbisComment>();
                pairs.push(json!(["application", "comment", a.map(|o| o.id as i64).unwrap_or(0), b.map(|o| o.vendor_string.parse().unwrap_or(-1)).unwrap_or(0)]));
            }
            t.emit(json!({"ev": "bstep", "id": hi as i64, "op": op, "ret": if r.is_ok() { "ok" } else { "panic" }, "list": list, "back": back,
                "get": Value::Object(get), "all": Value::Object(all), "pairs": pairs}));
        }
    }
    n
}

/// the tag of a cue sheet made by run_blocklist: the second track's offset in sectors
fn cue_tag(c: &Cuesheet) -> i64 {
    c.tracks().nth(1).map(|t| (t.offset / 588) as i64).unwrap_or(-3)
}

// ---------------------------------------------------------------------------------------------
// growth: ChannelMask cases (ChannelMask.tla)
pub fn run_chmask(job: &Value, t: &mut Trace) -> usize {
    use flac_codec::metadata::{ChannelMask, Streaminfo, VorbisComment};
    let chars = |s: &str| -> Vec<String> { s.chars().map(|c| c.to_string()).collect() };
    let join = |v: &Value| -> String { v.as_array().unwrap().iter().map(|c| c.as_str().unwrap()).collect::<String>() };
    let as_i = |m: Option<u32>| -> i64 { match m { None => -1, Some(v) if v > i32::MAX as u32 => -2, Some(v) => v as i64 } };
    let mut n = 0;
    let texts = job["texts"].as_array().unwrap();
    let masks = job["masks"].as_array().unwrap();
    for tx in texts {
        n += 1;
        let s = join(tx);
        let r = catch(|| s.parse::<ChannelMask>().ok().map(u32::from));
        t.emit(json!({"ev": "parse", "text": tx, "mask": match r { Ok(m) => as_i(m), Err(_) => -9 }}));
    }
    for m in masks {
        n += 1;
        let mv = m.as_u64().unwrap() as u32;
        let mask = ChannelMask::from(mv);
        let d = mask.to_string();
        let ch: Vec<String> = mask.channels().map(|c| format!("{c:?}")).collect();
        t.emit(json!({"ev": "mask", "mask": mv as i64, "display": chars(&d), "channels": ch, "reparsed": as_i(d.parse::<ChannelMask>().ok().map(u32::from))}));
    }
    // Metadata::channel_mask() on block lists: no comment, a comment without the field, a comment with each text
    let si = |c: u8| Streaminfo { minimum_block_size: 16, maximum_block_size: 16, minimum_frame_size: None, maximum_frame_size: None,
        sample_rate: 44100, channels: c.try_into().unwrap(), bits_per_sample: 16u32.try_into().unwrap(), total_samples: None, md5: None };
    for c in 1u8..=8 {
        let bl = BlockList::new(si(c));
        t.emit(json!({"ev": "effective", "channels": c as i64, "has_field": false, "text": [], "mask": as_i(Some(u32::from(bl.channel_mask())))}));
        let mut bl = BlockList::new(si(c));
        bl.insert(VorbisComment { vendor_string: "v".into(), fields: vec!["TITLE=x".into()] });
        t.emit(json!({"ev": "effective", "channels": c as i64, "has_field": false, "text": [], "mask": as_i(Some(u32::from(bl.channel_mask())))}));
        for (i, tx) in texts.iter().enumerate() {
            if (i + c as usize) % 8 != 0 && texts.len() > 4000 {
                continue;
            }
            n += 1;
            let mut bl = BlockList::new(si(c));
            let mut vc = VorbisComment { vendor_string: "v".into(), fields: vec!["TITLE=x".into()] };
            vc.insert(flac_codec::metadata::fields::CHANNEL_MASK, join(tx));
            bl.insert(vc);
            let r = catch(|| u32::from(bl.channel_mask()));
            t.emit(json!({"ev": "effective", "channels": c as i64, "has_field": true, "text": tx, "mask": match r { Ok(m) => as_i(Some(m)), Err(_) => -9 }}));
        }
    }
    t.emit(json!({"ev": "count", "texts": texts.len() as i64, "masks": masks.len() as i64}));
    n
}
