//! C06 / C07: replay operation sequences on the real readers and record what they return.
use crate::flacfile::{Built, encode_plain, with_seektable};
use crate::io::ChunkedReader;
use crate::*;
use flac_codec::byteorder::{BigEndian, Endianness, LittleEndian};
use flac_codec::decode::{FlacByteReader, FlacChannelReader, FlacSampleReader};
use serde_json::{Value, json};
use std::io::{BufRead, Read, Seek, SeekFrom};

#[derive(Clone, Debug)]
pub struct FileCfg {
    pub id: String,
    pub channels: u8,
    pub bps: u32,
    pub block_size: u16,
    pub frames: usize, // PCM frames
    pub seek: String,
    pub known: bool,
    pub signal: String,
    pub seed: u64,
    pub rate: u32,
    /// a file made elsewhere (FlacGen): path of a JSON object {bytes, pcm (interleaved), frames: [[first sample, offset, pcm frames]]}
    pub given: Option<String>,
}

impl FileCfg {
    pub fn from_json(v: &Value) -> Self {
        FileCfg {
            id: v["id"].as_str().unwrap_or("f").to_string(),
            channels: v["channels"].as_u64().unwrap() as u8,
            bps: v["bps"].as_u64().unwrap() as u32,
            block_size: v["block_size"].as_u64().unwrap() as u16,
            frames: v["frames"].as_u64().unwrap() as usize,
            seek: v["seek"].as_str().unwrap_or("none").to_string(),
            known: v["known"].as_bool().unwrap_or(true),
            signal: v["signal"].as_str().unwrap_or("noise").to_string(),
            seed: v["seed"].as_u64().unwrap_or(7),
            rate: v["rate"].as_u64().unwrap_or(44100) as u32,
            given: v["given"].as_str().map(|s| s.to_string()),
        }
    }
    pub fn build(&self) -> (Built, Vec<i32>) {
        if let Some(path) = &self.given {
            let g: Value = serde_json::from_str(&std::fs::read_to_string(path).expect("given file")).expect("given json");
            let bytes: Vec<u8> = g["bytes"].as_array().unwrap().iter().map(|x| x.as_u64().unwrap() as u8).collect();
            let pcm: Vec<i32> = g["pcm"].as_array().unwrap().iter().map(|x| x.as_i64().unwrap() as i32).collect();
            let frames = g["frames"].as_array().unwrap().iter()
                .map(|f| (f[0].as_u64().unwrap(), f[1].as_u64().unwrap(), f[2].as_u64().unwrap())).collect();
            let (_, frames_start) = crate::flacfile::split_blocks(&bytes).expect("given file has no metadata");
            let plain = Built { bytes, frames_start, frames };
            return (with_seektable(&plain, &self.seek, !self.known), pcm);
        }
        let mut rng = Rng::new(self.seed);
        let pcm = gen_pcm(&self.signal, &mut rng, self.channels as usize, self.bps, self.frames);
        let plain = encode_plain(&pcm, self.channels, self.bps, self.rate, self.block_size, true, None)
            .expect("encode test file");
        (with_seektable(&plain, &self.seek, !self.known), pcm)
    }
}

#[derive(Clone)]
pub enum AnyReader {
    ByteLe(FlacByteReader<ChunkedReader, LittleEndian>),
    ByteBe(FlacByteReader<ChunkedReader, BigEndian>),
    Sample(FlacSampleReader<ChunkedReader>),
    Channel(FlacChannelReader<ChunkedReader>),
}

fn st_json(s: flac_codec::decode::verif::ReaderState) -> Value {
    json!([s.current_sample as i64, s.buffered as i64, s.frame_len as i64])
}

/// Runs one operation sequence; emits the "open" event and one event per call.
pub struct Run<'a> {
    pub fe: &'a str, // byte-le | byte-be | sample | channel
    pub file: &'a Built,
    pub pcm: &'a [i32],
    pub cfg: &'a FileCfg,
    pub chunks: Vec<usize>,
    pub splits: Vec<usize>,
    pub log_data: bool,
    pub seekable: bool,
    /// after the sequence, every one of these operations is tried on a clone of the reader
    /// (push / pop events bracket each branch): edge coverage of the model's state graph
    pub branch_ops: Vec<Value>,
    /// 0 = never; the source's n-th read call fails once (transient): the call that hits it reports the error, the position is
    /// unknown afterwards, and the run goes on with an absolute seek
    pub fault_at: usize,
    /// 0 = never; the source's n-th SEEK call fails once.  The reader's seek reports it; no recovery seek follows: the caller goes on
    /// reading (and asking for the position) - where the reader says it is and what it hands out must still agree
    pub seek_fault_at: usize,
}

fn data_event<T: PartialEq + Clone + Into<i64>>(ev: &str, reference: &[T], data: &[T], log_data: bool) -> Value {
    let at: Vec<i64> = occurrences(reference, data).into_iter().map(|p| p as i64).collect();
    let mut v = json!({"ev": ev, "ret": "data", "len": data.len() as i64, "at": at});
    if log_data {
        v["d"] = Value::from(data.iter().cloned().map(|x| x.into()).collect::<Vec<i64>>());
    }
    v
}

impl Run<'_> {
    pub fn unit(&self) -> usize {
        match self.fe {
            "byte-le" | "byte-be" => bytes_per_sample(self.cfg.bps) * self.cfg.channels as usize,
            "sample" => self.cfg.channels as usize,
            _ => 1,
        }
    }

    pub fn execute(&self, ops: &[Value], t: &mut Trace, run_id: usize) {
        let u = self.unit();
        let total_units = self.cfg.frames * u;
        let src = ChunkedReader::new(self.file.bytes.clone(), self.chunks.clone(), self.splits.clone());
        // the fault is armed after the reader was opened: `fault_at` counts source reads from then on
        let fault_in = src.fault_in.clone();
        let seek_fault_in = src.seek_fault_in.clone();
        // reference unit sequences
        let ref_bytes: Vec<u8> = match self.fe {
            "byte-le" => samples_to_bytes(self.pcm, self.cfg.bps, false),
            "byte-be" => samples_to_bytes(self.pcm, self.cfg.bps, true),
            _ => vec![],
        };
        let mut open = json!({"ev": "open", "run": run_id as i64, "fe": self.fe, "u": u as i64,
            "total": total_units as i64, "known": self.cfg.known, "file": self.cfg.id,
            "seekable": self.seekable});
        if self.log_data {
            open["ref"] = match self.fe {
                "byte-le" | "byte-be" => Value::from(ref_bytes.iter().map(|b| *b as i64).collect::<Vec<_>>()),
                "sample" => Value::from(self.pcm.iter().map(|s| *s as i64).collect::<Vec<_>>()),
                // channel reader: one unit = one PCM frame, coded as its index-free content
                _ => Value::Null,
            };
            if open["ref"].is_null() {
                open.as_object_mut().unwrap().remove("ref");
            }
        }
        let opened = catch(|| -> Result<AnyReader, String> {
            Ok(match (self.fe, self.seekable) {
                ("byte-le", true) => AnyReader::ByteLe(FlacByteReader::new_seekable(src).map_err(|e| e.to_string())?),
                ("byte-le", false) => AnyReader::ByteLe(FlacByteReader::new(src).map_err(|e| e.to_string())?),
                ("byte-be", true) => AnyReader::ByteBe(FlacByteReader::new_seekable(src).map_err(|e| e.to_string())?),
                ("byte-be", false) => AnyReader::ByteBe(FlacByteReader::new(src).map_err(|e| e.to_string())?),
                ("sample", true) => AnyReader::Sample(FlacSampleReader::new_seekable(src).map_err(|e| e.to_string())?),
                ("sample", false) => AnyReader::Sample(FlacSampleReader::new(src).map_err(|e| e.to_string())?),
                ("channel", true) => AnyReader::Channel(FlacChannelReader::new_seekable(src).map_err(|e| e.to_string())?),
                ("channel", false) => AnyReader::Channel(FlacChannelReader::new(src).map_err(|e| e.to_string())?),
                _ => return Err(format!("bad front end {}", self.fe)),
            })
        });
        t.emit(open);
        let mut reader = match opened {
            Ok(Ok(r)) => r,
            Ok(Err(e)) => {
                t.emit(json!({"ev": "openerr", "msg": e}));
                return;
            }
            Err(c) => {
                t.emit(panic_event("open", &c));
                return;
            }
        };
        if self.fault_at != 0 {
            fault_in.store(self.fault_at as isize, std::sync::atomic::Ordering::Relaxed);
        }
        if self.seek_fault_at != 0 {
            seek_fault_in.store(self.seek_fault_at as isize, std::sync::atomic::Ordering::Relaxed);
        }
        // units exposed by the last fill_buf and not yet consumed (API contract for consume)
        let mut avail: usize = 0;
        let mut alive = true;
        for op in ops {
            let name = op["op"].as_str().unwrap_or("");
            let r = catch(|| match &mut reader {
                AnyReader::ByteLe(r) => byte_op(r, name, op, &ref_bytes, self.log_data, &mut avail, t),
                AnyReader::ByteBe(r) => byte_op(r, name, op, &ref_bytes, self.log_data, &mut avail, t),
                AnyReader::Sample(r) => sample_op(r, name, op, self.pcm, self.log_data, &mut avail, t),
                AnyReader::Channel(r) => channel_op(r, name, op, self.pcm, self.cfg.channels as usize, &mut avail, t),
            });
            match r {
                Ok(true) if !INJECTED.with(|f| f.get()) => {}
                Ok(_) if SEEK_INJECTED.with(|f| f.replace(false)) => {
                    // the source refused a seek: no recovery - the byte readers are asked where they are, then the history goes on
                    INJECTED.with(|f| f.set(false));
                    avail = 0;
                    if self.fe.starts_with("byte") {
                        let tell = json!({"op": "seekb", "whence": "current", "off": 0});
                        let r2 = catch(|| match &mut reader {
                            AnyReader::ByteLe(r) => byte_op(r, "seekb", &tell, &ref_bytes, self.log_data, &mut avail, t),
                            AnyReader::ByteBe(r) => byte_op(r, "seekb", &tell, &ref_bytes, self.log_data, &mut avail, t),
                            _ => true,
                        });
                        if !matches!(r2, Ok(true)) {
                            if let Err(c) = r2 {
                                t.emit(panic_event("seekb", &c));
                            }
                            alive = false;
                            break;
                        }
                    }
                }
                Ok(_) if INJECTED.with(|f| f.replace(false)) => {
                    // after the injected fault: an absolute seek (whatever was buffered may be lost), then the history goes on
                    avail = 0;
                    let tgt = ((run_id * 37 + self.fault_at * 11) % (self.cfg.frames + 1)) as i64;
                    let sk = if self.fe.starts_with("byte") { json!({"op": "seekb", "whence": "start", "off": tgt * u as i64}) } else { json!({"op": "seek", "t": tgt}) };
                    let nm = sk["op"].as_str().unwrap().to_string();
                    let r2 = catch(|| match &mut reader {
                        AnyReader::ByteLe(r) => byte_op(r, &nm, &sk, &ref_bytes, self.log_data, &mut avail, t),
                        AnyReader::ByteBe(r) => byte_op(r, &nm, &sk, &ref_bytes, self.log_data, &mut avail, t),
                        AnyReader::Sample(r) => sample_op(r, &nm, &sk, self.pcm, self.log_data, &mut avail, t),
                        AnyReader::Channel(r) => channel_op(r, &nm, &sk, self.pcm, self.cfg.channels as usize, &mut avail, t),
                    });
                    if !matches!(r2, Ok(true)) {
                        if let Err(c) = r2 {
                            t.emit(panic_event(&nm, &c));
                        }
                        alive = false;
                        break;
                    }
                }
                Ok(true) => {}
                Ok(false) => {
                    alive = false;
                    break; // error / garbled: the run ends here
                }
                Err(c) => {
                    t.emit(panic_event(name, &c));
                    alive = false;
                    break;
                }
            }
        }
        if alive {
            for op in &self.branch_ops {
                let name = op["op"].as_str().unwrap_or("");
                let mut fork = reader.clone();
                t.emit(json!({"ev": "push"}));
                let r = catch(|| match &mut fork {
                    AnyReader::ByteLe(r) => byte_op(r, name, op, &ref_bytes, self.log_data, &mut avail, t),
                    AnyReader::ByteBe(r) => byte_op(r, name, op, &ref_bytes, self.log_data, &mut avail, t),
                    AnyReader::Sample(r) => sample_op(r, name, op, self.pcm, self.log_data, &mut avail, t),
                    AnyReader::Channel(r) => channel_op(r, name, op, self.pcm, self.cfg.channels as usize, &mut avail, t),
                });
                let mut probe = matches!(r, Ok(true)) && name != "fill";
                if let Err(c) = r {
                    t.emit(panic_event(name, &c));
                    probe = false;
                }
                if probe {
                    // observe what the reader hands out next: a position-changing call is only as good as the data that follows it
                    let fill = json!({"op": "fill"});
                    let r2 = catch(|| match &mut fork {
                        AnyReader::ByteLe(r) => byte_op(r, "fill", &fill, &ref_bytes, self.log_data, &mut avail, t),
                        AnyReader::ByteBe(r) => byte_op(r, "fill", &fill, &ref_bytes, self.log_data, &mut avail, t),
                        AnyReader::Sample(r) => sample_op(r, "fill", &fill, self.pcm, self.log_data, &mut avail, t),
                        AnyReader::Channel(r) => channel_op(r, "fill", &fill, self.pcm, self.cfg.channels as usize, &mut avail, t),
                    });
                    if let Err(c) = r2 {
                        t.emit(panic_event("fill", &c));
                    }
                }
                t.emit(json!({"ev": "pop"}));
            }
        }
        let _ = total_units;
    }
}

thread_local! { static INJECTED: std::cell::Cell<bool> = const { std::cell::Cell::new(false) }; }
thread_local! { static SEEK_INJECTED: std::cell::Cell<bool> = const { std::cell::Cell::new(false) }; }

/// a refused seek is a verdict of the reader - unless the driver's own source fault caused it
fn seek_err(mut ev: Value) -> Value {
    if ev["msg"].as_str().unwrap_or("").contains("injected seek fault") {
        SEEK_INJECTED.with(|f| f.set(true));
        INJECTED.with(|f| f.set(true));
        ev["ret"] = json!("ioerr");
        return ev;
    }
    if ev["msg"].as_str().unwrap_or("").contains("injected fault") {
        INJECTED.with(|f| f.set(true));
        ev["ret"] = json!("ioerr");
    }
    ev
}

fn err_event(ev: &str, msg: String) -> Value {
    if msg.contains("injected fault") {
        // the driver's own transient source fault: not a verdict on the reader, but the position is unknown from here on
        INJECTED.with(|f| f.set(true));
        return json!({"ev": ev, "ret": "ioerr", "msg": msg});
    }
    json!({"ev": ev, "ret": "err", "msg": msg})
}

fn byte_op<E: Endianness>(
    r: &mut FlacByteReader<ChunkedReader, E>,
    name: &str,
    op: &Value,
    reference: &[u8],
    log_data: bool,
    avail: &mut usize,
    t: &mut Trace,
) -> bool {
    let mut go = true;
    let mut ev = match name {
        "read" => {
            let n = op["n"].as_u64().unwrap() as usize;
            let mut buf = vec![0u8; n];
            match r.read(&mut buf) {
                Ok(0) => json!({"ev": "read", "ret": "eos"}),
                Ok(k) => {
                    *avail = avail.saturating_sub(k);
                    data_event("read", reference, &buf[..k], log_data)
                }
                Err(e) => {
                    go = false;
                    err_event("read", e.to_string())
                }
            }
        }
        "fill" => match r.fill_buf() {
            Ok([]) => json!({"ev": "fill", "ret": "eos"}),
            Ok(b) => {
                *avail = b.len();
                data_event("fill", reference, b, log_data)
            }
            Err(e) => {
                go = false;
                err_event("fill", e.to_string())
            }
        },
        "consume" => {
            let k = op["k"].as_u64().unwrap() as usize;
            // what fill_buf would expose right now (hook state), i.e. the API contract of consume
            *avail = r.verif_state().buffered;
            if k > *avail {
                json!({"ev": "skip", "why": "consume beyond what fill_buf exposed", "k": k as i64, "avail": *avail as i64})
            } else {
                r.consume(k);
                *avail -= k;
                json!({"ev": "consume", "k": k as i64})
            }
        }
        "seekb" => {
            let whence = op["whence"].as_str().unwrap();
            let off = op["off"].as_i64().unwrap();
            let sf = match whence {
                "start" => SeekFrom::Start(off.max(0) as u64),
                "current" => SeekFrom::Current(off),
                _ => SeekFrom::End(off),
            };
            *avail = 0;
            if whence == "current" && off == 0 {
                match r.seek(sf) {
                    Ok(p) => json!({"ev": "tell", "p": p as i64}),
                    Err(e) => {
                        go = false;
                        err_event("tell", e.to_string())
                    }
                }
            } else {
                match r.seek(sf) {
                    Ok(p) => json!({"ev": "seek", "whence": whence, "off": off, "ret": "ok", "rp": p as i64}),
                    Err(e) => seek_err(json!({"ev": "seek", "whence": whence, "off": off, "ret": "err", "msg": e.to_string()})),
                }
            }
        }
        "readall" => {
            let n = op["n"].as_u64().unwrap() as usize;
            let mut buf = vec![0u8; n];
            loop {
                match r.read(&mut buf) {
                    Ok(0) => break json!({"ev": "read", "ret": "eos"}),
                    Ok(k) => {
                        let mut e = data_event("read", reference, &buf[..k], log_data);
                        e["st"] = st_json(r.verif_state());
                        t.emit(e);
                    }
                    Err(e) => {
                        go = false;
                        break err_event("read", e.to_string());
                    }
                }
            }
        }
        "readtoend" => {
            let mut v = vec![];
            match r.read_to_end(&mut v) {
                Ok(_) => {
                    if !v.is_empty() {
                        let mut e = data_event("read", reference, &v, log_data);
                        e["st"] = st_json(r.verif_state());
                        t.emit(e);
                    }
                    json!({"ev": "read", "ret": "eos"})
                }
                Err(e) => {
                    go = false;
                    err_event("read", e.to_string())
                }
            }
        }
        _ => json!({"ev": "skip", "why": format!("op {name} not applicable to byte reader")}),
    };
    ev["st"] = st_json(r.verif_state());
    if matches!(name, "read" | "fill" | "consume" | "seek" | "seekb") {
        ev["op"] = op.clone();
    }
    t.emit(ev);
    go
}

fn sample_op(
    r: &mut FlacSampleReader<ChunkedReader>,
    name: &str,
    op: &Value,
    reference: &[i32],
    log_data: bool,
    avail: &mut usize,
    t: &mut Trace,
) -> bool {
    let mut go = true;
    let mut ev = match name {
        "read" => {
            let n = op["n"].as_u64().unwrap() as usize;
            let mut buf = vec![0i32; n];
            match r.read(&mut buf) {
                Ok(0) => json!({"ev": "read", "ret": "eos"}),
                Ok(k) => {
                    *avail = avail.saturating_sub(k);
                    data_event("read", reference, &buf[..k], log_data)
                }
                Err(e) => {
                    go = false;
                    err_event("read", e.to_string())
                }
            }
        }
        "fill" => match r.fill_buf() {
            Ok([]) => json!({"ev": "fill", "ret": "eos"}),
            Ok(b) => {
                *avail = b.len();
                data_event("fill", reference, b, log_data)
            }
            Err(e) => {
                go = false;
                err_event("fill", e.to_string())
            }
        },
        "consume" => {
            let k = op["k"].as_u64().unwrap() as usize;
            // what fill_buf would expose right now (hook state), i.e. the API contract of consume
            *avail = r.verif_state().buffered;
            if k > *avail {
                json!({"ev": "skip", "why": "consume beyond what fill_buf exposed", "k": k as i64, "avail": *avail as i64})
            } else {
                r.consume(k);
                *avail -= k;
                json!({"ev": "consume", "k": k as i64})
            }
        }
        "seek" => {
            // target in PCM frames; logged in units (samples)
            let tf = op["t"].as_u64().unwrap();
            let ch = r.verif_channels() as i64;
            *avail = 0;
            match r.seek(tf) {
                Ok(()) => json!({"ev": "seek", "whence": "start", "off": tf as i64 * ch, "ret": "ok"}),
                Err(e) => seek_err(json!({"ev": "seek", "whence": "start", "off": tf as i64 * ch, "ret": "err", "msg": e.to_string()})),
            }
        }
        "readall" => {
            let n = op["n"].as_u64().unwrap() as usize;
            let mut buf = vec![0i32; n];
            loop {
                match r.read(&mut buf) {
                    Ok(0) => break json!({"ev": "read", "ret": "eos"}),
                    Ok(k) => {
                        let mut e = data_event("read", reference, &buf[..k], log_data);
                        e["st"] = st_json(r.verif_state());
                        t.emit(e);
                    }
                    Err(e) => {
                        go = false;
                        break err_event("read", e.to_string());
                    }
                }
            }
        }
        "readtoend" => {
            let mut v = vec![];
            match r.read_to_end(&mut v) {
                Ok(_) => {
                    if !v.is_empty() {
                        let mut e = data_event("read", reference, &v, log_data);
                        e["st"] = st_json(r.verif_state());
                        t.emit(e);
                    }
                    json!({"ev": "read", "ret": "eos"})
                }
                Err(e) => {
                    go = false;
                    err_event("read", e.to_string())
                }
            }
        }
        "iterall" => {
            // the iterator consumes the reader: clone it so that the run can go on
            let it = r.clone().into_iter();
            let mut chunk: Vec<i32> = vec![];
            let mut last = json!({"ev": "read", "ret": "eos"});
            for item in it {
                match item {
                    Ok(s) => {
                        chunk.push(s);
                        if chunk.len() == 64 {
                            t.emit(data_event("read", reference, &chunk, log_data));
                            chunk.clear();
                        }
                    }
                    Err(e) => {
                        go = false;
                        last = err_event("read", e.to_string());
                        break;
                    }
                }
            }
            if !chunk.is_empty() {
                t.emit(data_event("read", reference, &chunk, log_data));
            }
            // the clone was iterated, the original did not move: re-synchronise the
            // abstract position by ending the run here
            t.emit(last);
            return false;
        }
        _ => json!({"ev": "skip", "why": format!("op {name} not applicable to sample reader")}),
    };
    ev["st"] = st_json(r.verif_state());
    if matches!(name, "read" | "fill" | "consume" | "seek" | "seekb") {
        ev["op"] = op.clone();
    }
    t.emit(ev);
    go
}

trait VerifChannels {
    fn verif_channels(&self) -> u8;
}
impl<R: Read> VerifChannels for FlacSampleReader<R> {
    fn verif_channels(&self) -> u8 {
        use flac_codec::metadata::Metadata;
        self.channel_count()
    }
}

fn channel_op(
    r: &mut FlacChannelReader<ChunkedReader>,
    name: &str,
    op: &Value,
    pcm: &[i32],
    channels: usize,
    avail: &mut usize,
    t: &mut Trace,
) -> bool {
    // reference: PCM frames (one unit = `channels` samples)
    let frames: Vec<&[i32]> = pcm.chunks_exact(channels).collect();
    let mut go = true;
    let mut ev = match name {
        "fill" | "readall" => {
            let all = name == "readall";
            loop {
                let step = match r.fill_buf() {
                    Ok(chs) => {
                        if chs.len() != channels || chs.iter().any(|c| c.len() != chs[0].len()) {
                            go = false;
                            json!({"ev": "fill", "ret": "garbled", "why": "channel count / lengths inconsistent",
                                   "lens": chs.iter().map(|c| c.len() as i64).collect::<Vec<_>>()})
                        } else if chs[0].is_empty() {
                            json!({"ev": "fill", "ret": "eos"})
                        } else {
                            let n = chs[0].len();
                            // interleave what was returned and look it up among the reference frames
                            let got: Vec<Vec<i32>> = (0..n).map(|i| chs.iter().map(|c| c[i]).collect()).collect();
                            let mut at = vec![];
                            if n <= frames.len() {
                                for p in 0..=(frames.len() - n) {
                                    if (0..n).all(|i| frames[p + i] == got[i].as_slice()) {
                                        at.push(p as i64);
                                    }
                                }
                            }
                            *avail = n;
                            json!({"ev": "fill", "ret": "data", "len": n as i64, "at": at})
                        }
                    }
                    Err(e) => {
                        go = false;
                        err_event("fill", e.to_string())
                    }
                };
                if all && step["ret"] == "data" {
                    let n = step["len"].as_u64().unwrap() as usize;
                    let mut s = step;
                    s["st"] = st_json(r.verif_state());
                    t.emit(s);
                    r.consume(n);
                    *avail = 0;
                    t.emit(json!({"ev": "consume", "k": n as i64, "st": st_json(r.verif_state())}));
                    continue;
                }
                break step;
            }
        }
        "consume" => {
            let k = op["k"].as_u64().unwrap() as usize;
            // what fill_buf would expose right now (hook state), i.e. the API contract of consume
            *avail = {
                let st = r.verif_state();
                st.frame_len.saturating_sub(st.buffered)
            };
            if k > *avail {
                json!({"ev": "skip", "why": "consume beyond what fill_buf exposed", "k": k as i64, "avail": *avail as i64})
            } else {
                r.consume(k);
                *avail -= k;
                json!({"ev": "consume", "k": k as i64})
            }
        }
        "seek" => {
            let tf = op["t"].as_u64().unwrap();
            *avail = 0;
            match r.seek(tf) {
                Ok(()) => json!({"ev": "seek", "whence": "start", "off": tf as i64, "ret": "ok"}),
                Err(e) => seek_err(json!({"ev": "seek", "whence": "start", "off": tf as i64, "ret": "err", "msg": e.to_string()})),
            }
        }
        _ => json!({"ev": "skip", "why": format!("op {name} not applicable to channel reader")}),
    };
    ev["st"] = st_json(r.verif_state());
    if matches!(name, "read" | "fill" | "consume" | "seek" | "seekb") {
        ev["op"] = op.clone();
    }
    t.emit(ev);
    go
}

/// Random operation sequence for the impl -> spec direction (arbitrary targets on larger files)
pub fn random_ops(rng: &mut Rng, fe: &str, frames: usize, unit: usize, n: usize, seeks: bool) -> Vec<Value> {
    let total_units = (frames * unit) as i64;
    let mut ops = vec![];
    for _ in 0..n {
        let k = rng.below(if seeks { 10 } else { 6 });
        let op = match k {
            0..=2 if fe != "channel" => {
                let n = *rng.pick(&[1usize, 2, 3, 7, 64, 500, 5000]);
                json!({"op": "read", "n": n as i64})
            }
            0..=3 => json!({"op": "fill"}),
            4 | 5 => json!({"op": "consume", "k": *rng.pick(&[0i64, 1, 2, 5, 17, 100, 1000])}),
            _ => {
                // interesting targets: anywhere, near the end, beyond
                let tgt = match rng.below(8) {
                    0 => 0,
                    1 => frames as i64,
                    2 => frames as i64 + 1 + rng.below(5) as i64,
                    3 => frames as i64 - 1 - rng.below(3.min(frames as u64)) as i64,
                    _ => rng.below(frames as u64 + 1) as i64,
                }
                .max(0);
                if fe.starts_with("byte") {
                    match rng.below(4) {
                        0 => json!({"op": "seekb", "whence": "start", "off": (tgt * unit as i64 + rng.below(unit as u64) as i64).min(total_units + 3)}),
                        1 => json!({"op": "seekb", "whence": "current", "off": rng.range(-total_units / 2 - 2, total_units / 2 + 2)}),
                        2 => json!({"op": "seekb", "whence": "end", "off": -(rng.below(total_units as u64 + 3) as i64) + rng.below(2) as i64}),
                        _ => json!({"op": "seekb", "whence": "current", "off": 0}),
                    }
                } else {
                    json!({"op": "seek", "t": tgt})
                }
            }
        };
        ops.push(op);
    }
    // finish by draining to the end so that exactly-once delivery is judged to the end
    let n_all = *rng.pick(&[(unit * 13 + 1) as i64, 4096, total_units / 3 + 1, 64 * unit as i64]);
    // ... with the caller's loop, or with the reader's own read_to_end (after whatever partial reads came before), sometimes
    // followed by the consuming iterator over what is left (nothing)
    match (fe != "channel", rng.below(3)) {
        (true, 0) => ops.push(json!({"op": "readtoend"})),
        (true, 1) if fe == "sample" => {
            ops.push(json!({"op": "readtoend"}));
            ops.push(json!({"op": "iterall"}));
        }
        _ => ops.push(json!({"op": "readall", "n": n_all})),
    }
    // poll again after the end: end-of-stream must be signalled again
    ops.push(json!({"op": "fill"}));
    if fe != "channel" {
        ops.push(json!({"op": "read", "n": 3}));
    }
    ops
}
