//! C14: cut the encoder's output before finalize at every write boundary (and every byte for
//! small inputs) and decode each prefix with every reader.
use crate::flacfile::split_blocks;
use crate::io::SharedBuf;
use crate::writers::build_options;
use crate::*;
use flac_codec::byteorder::LittleEndian;
use flac_codec::decode::{FlacByteReader, FlacChannelReader, FlacSampleReader};
use flac_codec::encode::{FlacByteWriter, FlacChannelWriter, FlacSampleWriter};
use serde_json::{Value, json};
use std::io::{Cursor, Read, Write};

fn decode_prefix(reader: &str, prefix: &[u8], bps: u32) -> (String, Vec<i32>, String) {
    // returns (ending, samples delivered, message)
    let mut got: Vec<i32> = vec![];
    let r = catch(|| -> (String, String) {
        match reader {
            "byte" => {
                let mut r: FlacByteReader<_, LittleEndian> = match FlacByteReader::new(Cursor::new(prefix)) {
                    Ok(r) => r,
                    Err(e) => return ("openerr".into(), e.to_string()),
                };
                let mut bytes = vec![];
                let mut buf = [0u8; 4096];
                loop {
                    match r.read(&mut buf) {
                        Ok(0) => {
                            got = bytes_to_samples(&bytes, bps, false);
                            return ("eos".into(), String::new());
                        }
                        Ok(n) => bytes.extend_from_slice(&buf[..n]),
                        Err(e) => {
                            got = bytes_to_samples(&bytes, bps, false);
                            return ("err".into(), e.to_string());
                        }
                    }
                }
            }
            // the copying front end of the sample reader, with caller buffers that do not line up with the frames
            "sample-read" => {
                let mut r = match FlacSampleReader::new(Cursor::new(prefix)) {
                    Ok(r) => r,
                    Err(e) => return ("openerr".into(), e.to_string()),
                };
                let sizes = [100usize, 7, 600, 33];
                let mut buf = vec![0i32; 600];
                let mut k = 0;
                loop {
                    let n = sizes[k % sizes.len()];
                    k += 1;
                    match r.read(&mut buf[..n]) {
                        Ok(0) => return ("eos".into(), String::new()),
                        Ok(m) => got.extend_from_slice(&buf[..m]),
                        Err(e) => return ("err".into(), e.to_string()),
                    }
                }
            }
            "sample" => {
                let mut r = match FlacSampleReader::new(Cursor::new(prefix)) {
                    Ok(r) => r,
                    Err(e) => return ("openerr".into(), e.to_string()),
                };
                loop {
                    match r.fill_buf() {
                        Ok([]) => return ("eos".into(), String::new()),
                        Ok(b) => {
                            let n = b.len();
                            got.extend_from_slice(b);
                            r.consume(n);
                        }
                        Err(e) => return ("err".into(), e.to_string()),
                    }
                }
            }
            _ => {
                let mut r = match FlacChannelReader::new(Cursor::new(prefix)) {
                    Ok(r) => r,
                    Err(e) => return ("openerr".into(), e.to_string()),
                };
                loop {
                    match r.fill_buf() {
                        Ok(chs) => {
                            let n = chs[0].len();
                            if n == 0 {
                                return ("eos".into(), String::new());
                            }
                            for i in 0..n {
                                for c in &chs {
                                    got.push(c[i]);
                                }
                            }
                            r.consume(n);
                        }
                        Err(e) => return ("err".into(), e.to_string()),
                    }
                }
            }
        }
    });
    match r {
        Ok((end, msg)) => (end, got, msg),
        Err(c) => ("panic".into(), got, format!("{} @{}", c.msg, c.loc)),
    }
}

pub fn run(job: &Value, t: &mut Trace) -> usize {
    let mut cuts_done = 0;
    for (ri, j) in job["jobs"].as_array().unwrap().iter().enumerate() {
        let fe = j["fe"].as_str().unwrap_or("sample");
        let channels = j["channels"].as_u64().unwrap_or(2) as u8;
        let bps = j["bps"].as_u64().unwrap_or(16) as u32;
        let frames = j["frames"].as_u64().unwrap() as usize;
        let rate = j["rate"].as_u64().unwrap_or(44100) as u32;
        let declared = j["declared"].as_bool().unwrap_or(false);
        let every_byte = j["every_byte"].as_bool().unwrap_or(false);
        let mut rng = Rng::new(j["seed"].as_u64().unwrap_or(5));
        let pcm = gen_pcm(j["signal"].as_str().unwrap_or("walk"), &mut rng, channels as usize, bps, frames);
        let opts = build_options(&j["opts"]).expect("options");
        let sink = SharedBuf::default();
        flac_codec::verif::install();
        // everything up to (not including) finalize
        let upf = match fe {
            "byte-le" => bytes_per_sample(bps) * channels as usize,
            "sample" => channels as usize,
            _ => 1,
        };
        // "declared_frames": a declared total that differs from what the caller goes on to supply (over- / under-supply);
        // "chunk_frames": the caller writes in chunks of that many PCM frames and dies at the first refused write
        let decl_frames = j["declared_frames"].as_u64().map(|d| d as usize).unwrap_or(frames);
        let total_units = (decl_frames * upf) as u64;
        let chunk = j["chunk_frames"].as_u64().map(|c| c as usize).unwrap_or(frames.max(1));
        let ch = channels as usize;
        let written: Result<Result<u64, String>, Caught> = catch(|| match fe {
            "byte-le" => {
                let bytes = samples_to_bytes(&pcm, bps, false);
                let mut w: FlacByteWriter<_, LittleEndian> =
                    FlacByteWriter::new(sink.clone(), opts, rate, bps, channels, declared.then_some(total_units)).map_err(|e| e.to_string())?;
                for part in bytes.chunks(chunk * upf) {
                    if w.write_all(part).is_err() {
                        break;
                    }
                }
                let b = w.verif_state().bytes;
                std::mem::forget(w); // the process dies: no finalize, no Drop
                Ok(b)
            }
            "sample" => {
                let mut w = FlacSampleWriter::new(sink.clone(), opts, rate, bps, channels, declared.then_some(total_units)).map_err(|e| e.to_string())?;
                for part in pcm.chunks(chunk * ch) {
                    if w.write(part).is_err() {
                        break;
                    }
                }
                let b = w.verif_state().bytes;
                std::mem::forget(w);
                Ok(b)
            }
            _ => {
                let cols: Vec<Vec<i32>> = (0..ch).map(|c| pcm.iter().skip(c).step_by(ch).copied().collect()).collect();
                let mut w = FlacChannelWriter::new(sink.clone(), opts, rate, bps, channels, declared.then_some(total_units)).map_err(|e| e.to_string())?;
                let mut at = 0;
                while at < frames {
                    let n = chunk.min(frames - at);
                    let part: Vec<&[i32]> = cols.iter().map(|c| &c[at..at + n]).collect();
                    if w.write(&part).is_err() {
                        break;
                    }
                    at += n;
                }
                let b = w.verif_state().bytes;
                std::mem::forget(w);
                Ok(b)
            }
        });
        let events = flac_codec::verif::take();
        let audio_bytes = match written {
            Ok(Ok(b)) => b as usize,
            other => {
                t.emit(json!({"ev": "crashrun-failed", "run": ri as i64, "why": format!("{:?}", other.map(|r| r.ok()).ok())}));
                continue;
            }
        };
        let bytes = sink.snapshot();
        let meta_len = split_blocks(&bytes).map(|(_, p)| p).unwrap_or(0);
        // frames: (pcm frames, end offset relative to the first frame)
        let mut fr: Vec<(u64, usize)> = vec![];
        let mut starts: Vec<(u64, usize)> = vec![];
        for e in &events {
            if let flac_codec::verif::Event::EncodeBegin { pcm_frames, bytes_so_far, .. } = e {
                starts.push((*pcm_frames, *bytes_so_far as usize));
            }
        }
        for (i, (n, start)) in starts.iter().enumerate() {
            let end = if i + 1 < starts.len() { starts[i + 1].1 } else { audio_bytes };
            // the hook fires before the length check: a refused frame has no bytes and is not a frame
            if end > *start {
                fr.push((*n, end));
            }
        }
        t.emit(json!({"ev": "crashrun", "run": ri as i64, "fe": fe, "channels": channels as i64, "bps": bps as i64,
            "meta_len": meta_len as i64, "total_bytes": bytes.len() as i64,
            // (clipped to what a TLC integer holds: the monitor only asks whether everything declared was delivered)
            "declared": if declared { (decl_frames as u64).min(i32::MAX as u64) as i64 } else { -1 },
            "frames": fr.iter().map(|(n, e)| json!([*n as i64, *e as i64])).collect::<Vec<_>>(),
            "written_pcm_frames": frames as i64, "opts": j["opts"]}));
        // cut points: after every underlying write call, or every byte
        let mut cuts: Vec<usize> = if every_byte {
            (0..=bytes.len()).collect()
        } else {
            let mut v: Vec<usize> = sink.calls().iter().filter(|c| c.0 == "write").map(|c| c.1 + c.2).collect();
            v.push(0);
            v.push(meta_len);
            v
        };
        cuts.sort();
        cuts.dedup();
        for k in cuts {
            for reader in ["byte", "sample", "sample-read", "channel"] {
                let (end, got, msg) = decode_prefix(reader, &bytes[..k.min(bytes.len())], bps);
                let nfr = got.len() / channels as usize;
                let prefix_ok = got.len() % channels as usize == 0 && got.len() <= pcm.len() && got[..] == pcm[..got.len()];
                t.emit(json!({"ev": "cut", "at": k as i64, "reader": reader, "end": end, "delivered": nfr as i64, "prefix_ok": prefix_ok, "msg": msg}));
                cuts_done += 1;
            }
        }
    }
    cuts_done
}
