//! C10: replay TLC-generated edit histories through metadata::update_file on real files.
use crate::flacfile::{encode_plain, join_blocks, split_blocks};
use crate::*;
use flac_codec::metadata::{Application, BlockList, Padding, Picture, PictureType, VorbisComment, update_file};
use serde_json::{Value, json};
use std::io::Cursor;

pub fn kind_name(t: u8, body: &[u8]) -> &'static str {
    match t {
        0 => "si",
        1 => "pad",
        2 => "app",
        3 => "seek",
        4 => "vc",
        5 => "cue",
        6 => {
            if body.len() >= 4 && body[..4] == [0, 0, 0, 1] {
                "icon"
            } else {
                "pic"
            }
        }
        _ => "other",
    }
}

/// body of a block of the given kind with exactly `n` body bytes (written by hand, not by the crate)
pub fn body_of(kind: &str, n: usize, si: &[u8]) -> (u8, Vec<u8>) {
    match kind {
        "si" => (0, si.to_vec()),
        "pad" => (1, vec![0; n]),
        "app" => {
            let mut b = vec![0x12, 0x34, 0x56, 0x78];
            b.extend(std::iter::repeat_n(0x5A, n - 4));
            (2, b)
        }
        "vc" => {
            // vendor length (LE) + vendor + field count (LE) = 8 + vendor
            let v = n - 8;
            let mut b = (v as u32).to_le_bytes().to_vec();
            b.extend(std::iter::repeat_n(b'v', v));
            b.extend_from_slice(&0u32.to_le_bytes());
            (4, b)
        }
        "icon" => {
            // type 1, mime "", description "", 4 x u32, data of n - 32 bytes
            let mut b = vec![0, 0, 0, 1];
            b.extend_from_slice(&0u32.to_be_bytes());
            b.extend_from_slice(&0u32.to_be_bytes());
            for _ in 0..4 {
                b.extend_from_slice(&0u32.to_be_bytes());
            }
            b.extend_from_slice(&((n - 32) as u32).to_be_bytes());
            b.extend(std::iter::repeat_n(0xC3, n - 32));
            (6, b)
        }
        _ => panic!("kind {kind}"),
    }
}

fn list_json(bytes: &[u8]) -> Value {
    match split_blocks(bytes) {
        Some((blocks, _)) => Value::from(blocks.iter().map(|(t, b)| json!([kind_name(*t, b), b.len() as i64])).collect::<Vec<_>>()),
        None => json!([]), // (the caller records "new_parseable": false; a string here would make the trace monitor throw)
    }
}

fn audio_of(bytes: &[u8]) -> Option<&[u8]> {
    split_blocks(bytes).map(|(_, p)| &bytes[p..])
}

fn decode(bytes: &[u8]) -> Option<Vec<i32>> {
    catch(|| {
        let mut r = flac_codec::decode::FlacSampleReader::new(Cursor::new(bytes)).ok()?;
        let mut v = vec![];
        r.read_to_end(&mut v).ok()?;
        Some(v)
    })
    .ok()
    .flatten()
}

/// applies one model edit through the public BlockList API
fn apply_edit(blocks: &mut BlockList, e: &Value) -> Result<(), flac_codec::Error> {
    let n = e["n"].as_u64().unwrap_or(0) as usize;
    match e["op"].as_str().unwrap_or("") {
        "add_app" => {
            blocks.insert(Application { id: 0x1234_5678, data: vec![0x5A; n - 4] });
        }
        "rm_app" => blocks.remove::<Application>(),
        "set_vc" => {
            let v = VorbisComment { vendor_string: "v".repeat(n - 8), fields: vec![] };
            match blocks.get_mut::<VorbisComment>() {
                Some(b) => *b = v,
                None => {
                    blocks.insert(v);
                }
            }
        }
        "rm_vc" => blocks.remove::<VorbisComment>(),
        "set_pad" => {
            let size = (n as u32).try_into().map_err(|_| flac_codec::Error::ExcessiveBlockSize)?;
            blocks.update::<Padding>(|p| p.size = size);
        }
        "rm_pad" => blocks.remove::<Padding>(),
        "add_pad" => {
            blocks.insert(Padding { size: (n as u32).try_into().map_err(|_| flac_codec::Error::ExcessiveBlockSize)? });
        }
        "add_icon" => {
            blocks.insert(Picture {
                picture_type: PictureType::Png32x32,
                media_type: String::new(),
                description: String::new(),
                width: 0,
                height: 0,
                color_depth: 0,
                colors_used: None,
                data: vec![0xC3; n - 32],
            });
        }
        // an edit of the STREAMINFO block alone (its size never changes): MD5 and frame-size limits as a tagger or repair tool would
        "edit_si" => {
            let si = blocks.streaminfo_mut();
            si.md5 = if n % 2 == 0 { None } else { Some([n as u8; 16]) };
            si.maximum_frame_size = std::num::NonZero::new(1000 + n as u32);
        }
        "fail" => return Err(flac_codec::Error::InvalidMetadataBlock),
        other => panic!("unknown edit {other}"),
    }
    Ok(())
}

pub fn run(job: &Value, t: &mut Trace) -> usize {
    // one small real audio part shared by every history
    let mut rng = Rng::new(99);
    let pcm = gen_pcm("walk", &mut rng, 2, 16, 20);
    let base = encode_plain(&pcm, 2, 16, 44100, 16, true, None).expect("encode base");
    let (bblocks, bstart) = split_blocks(&base.bytes).unwrap();
    let si = bblocks[0].1.clone();
    let audio = base.bytes[bstart..].to_vec();
    let mut runs = 0;
    for h in job["histories"].as_array().unwrap() {
        runs += 1;
        let init: Vec<(u8, Vec<u8>)> = h["init"]
            .as_array()
            .unwrap()
            .iter()
            .map(|b| body_of(b[0].as_str().unwrap(), b[1].as_u64().unwrap() as usize, &si))
            .collect();
        let mut file = join_blocks(&init, &audio);
        t.emit(json!({"ev": "file", "run": runs as i64, "blocks": list_json(&file), "len": file.len() as i64}));
        for e in h["edits"].as_array().unwrap() {
            let before = file.clone();
            let mut rebuilt: Vec<u8> = vec![];
            // some histories keep the stream behind foreign leading bytes (an ID3v2 tag, say) with the handle positioned at "fLaC":
            // the current position is the start of the stream for update_file, as it is for the encoder and the decoders
            let lead: usize = if h["lead"].as_u64().is_some() { h["lead"].as_u64().unwrap() as usize } else { 0 };
            let junk: Vec<u8> = (0..lead).map(|i| 0xD0u8 ^ (i as u8)).collect();
            let mut original = Cursor::new([junk.clone(), file.clone()].concat());
            original.set_position(lead as u64);
            let mut edited_clone: Option<BlockList> = None;
            let r = catch(|| {
                update_file::<_, _, flac_codec::Error>(
                    &mut original,
                    || Ok(&mut rebuilt),
                    |blocks| {
                        apply_edit(blocks, e)?;
                        edited_clone = Some(blocks.clone());
                        Ok(())
                    },
                )
            });
            let whole_after = original.into_inner();
            let lead_intact = whole_after.len() >= lead && whole_after[..lead] == junk[..];
            let orig_after: Vec<u8> = whole_after[lead.min(whole_after.len())..].to_vec();
            let mut ev = json!({"ev": "update", "edit": e, "old": list_json(&before), "len_old": before.len() as i64,
                "orig_after": list_json(&orig_after), "orig_untouched": orig_after == before,
                "rebuilt_len": rebuilt.len() as i64, "lead": lead as i64, "lead_intact": lead_intact});
            let newfile: Option<&Vec<u8>> = match &r {
                Ok(Ok(false)) => {
                    ev["ret"] = json!("inplace");
                    Some(&orig_after)
                }
                Ok(Ok(true)) => {
                    ev["ret"] = json!("rebuilt");
                    Some(&rebuilt)
                }
                Ok(Err(err)) => {
                    ev["ret"] = json!("err");
                    ev["msg"] = json!(err.to_string());
                    None
                }
                Err(c) => {
                    ev["ret"] = json!("panic");
                    ev["msg"] = json!(c.msg);
                    ev["loc"] = json!(c.loc);
                    None
                }
            };
            if let Some(nf) = newfile {
                ev["new_parseable"] = json!(split_blocks(nf).is_some());
                ev["new"] = list_json(nf);
                ev["len_new"] = json!(nf.len() as i64);
                ev["audio_same"] = json!(audio_of(nf) == Some(&audio[..]));
                ev["pcm_same"] = json!(decode(nf).as_deref() == Some(&pcm[..]));
                // content: what the crate reads back equals the edited list apart from padding sizes
                let back = catch(|| BlockList::read(Cursor::new(nf.as_slice())).ok()).ok().flatten();
                ev["content_same"] = json!(match (&back, &edited_clone) {
                    (Some(b), Some(e)) => {
                        let strip = |l: &BlockList| -> Vec<String> {
                            l.blocks()
                                .map(|b| match b {
                                    flac_codec::metadata::BlockRef::Padding(_) => "PADDING".to_string(),
                                    other => format!("{other:?}"),
                                })
                                .collect()
                        };
                        strip(b) == strip(e)
                    }
                    _ => false,
                });
            }
            // the path-taking front end (opens the file read-write, rebuilds by re-creating the same path) must do exactly
            // what update_file did on the in-memory copy: same verdict, same resulting file, original intact on refusal
            if let Some(dir) = job["path_dir"].as_str() {
                let every = job["path_every"].as_u64().unwrap_or(1).max(1) as usize;
                if runs % every == 0 {
                    let path = std::path::Path::new(dir).join(format!("u{}.flac", std::process::id()));
                    std::fs::write(&path, &before).expect("write temp flac");
                    let pr = catch(|| flac_codec::metadata::update::<_, flac_codec::Error>(&path, |blocks| apply_edit(blocks, e)));
                    let after = std::fs::read(&path).unwrap_or_default();
                    let _ = std::fs::remove_file(&path);
                    let (pret, want): (&str, &Vec<u8>) = match &pr {
                        Ok(Ok(false)) => ("inplace", newfile.unwrap_or(&before)),
                        Ok(Ok(true)) => ("rebuilt", newfile.unwrap_or(&before)),
                        Ok(Err(_)) => ("err", &before),
                        Err(_) => ("panic", &before),
                    };
                    ev["path"] = json!({"ret": pret, "same": &after == want});
                }
            }
            t.emit(ev);
            match &r {
                Ok(Ok(false)) => file = orig_after,
                Ok(Ok(true)) => file = rebuilt,
                _ => {}
            }
        }
    }
    runs
}
