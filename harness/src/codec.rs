//! C01 / C02 / C17 / C19: encode with the real writers, hand the bytes to the TLA+ format model,
//! and decode them again with every reader front-end of the crate.
use crate::writers::{md5_hex, run_writer};
use crate::*;
use flac_codec::byteorder::{BigEndian, LittleEndian};
use flac_codec::decode::{FlacByteReader, FlacChannelReader, FlacSampleReader};
use serde_json::{Value, json};
use std::io::{Cursor, Read};

fn ints<T: Copy + Into<i64>>(v: &[T]) -> Value {
    Value::from(v.iter().map(|x| (*x).into()).collect::<Vec<i64>>())
}

/// decodes `stream` with one reader front-end; returns (ret, samples, message)
/// A byte order of the caller's own (the `Endianness` trait is public and not sealed): RIFF WAVE's - one-byte samples are unsigned
/// offset binary, wider ones little-endian.  The byte readers / writers must go through the trait for every width.
#[derive(Clone, Copy)]
pub struct WaveOrder;
impl flac_codec::byteorder::Endianness for WaveOrder {
    fn i8_to_bytes(s: i8) -> [u8; 1] {
        [(s as u8) ^ 0x80]
    }
    fn i16_to_bytes(s: i16) -> [u8; 2] {
        s.to_le_bytes()
    }
    fn i24_to_bytes(s: i32) -> [u8; 3] {
        let b = s.to_le_bytes();
        [b[0], b[1], b[2]]
    }
    fn i32_to_bytes(s: i32) -> [u8; 4] {
        s.to_le_bytes()
    }
    fn bytes_to_i8(b: [u8; 1]) -> i8 {
        (b[0] ^ 0x80) as i8
    }
    fn bytes_to_i16(b: [u8; 2]) -> i16 {
        i16::from_le_bytes(b)
    }
    fn bytes_to_i24(b: [u8; 3]) -> i32 {
        i32::from_le_bytes([0, b[0], b[1], b[2]]) >> 8
    }
    fn bytes_to_i32(b: [u8; 4]) -> i32 {
        i32::from_le_bytes(b)
    }
    fn bytes_to_be(buf: &mut [u8], bytes_per_sample: usize) {
        if bytes_per_sample == 1 {
            buf.iter_mut().for_each(|b| *b ^= 0x80);
        } else {
            buf.chunks_exact_mut(bytes_per_sample).for_each(|c| c.reverse());
        }
    }
    fn bytes_to_le(buf: &mut [u8], bytes_per_sample: usize) {
        if bytes_per_sample == 1 {
            buf.iter_mut().for_each(|b| *b ^= 0x80);
        }
    }
}

pub fn decode_with(reader: &str, stream: &[u8], bps: u32) -> (String, Vec<i32>, String) {
    let r = catch(|| -> Result<Vec<i32>, String> {
        match reader {
            "byte-wave" => {
                let mut r: FlacByteReader<_, WaveOrder> = FlacByteReader::new(Cursor::new(stream)).map_err(|e| e.to_string())?;
                let mut v = vec![];
                r.read_to_end(&mut v).map_err(|e| e.to_string())?;
                if bps <= 8 {
                    v.iter_mut().for_each(|b| *b ^= 0x80);
                }
                Ok(bytes_to_samples(&v, bps, false))
            }
            "byte-le" => {
                let mut r: FlacByteReader<_, LittleEndian> = FlacByteReader::new(Cursor::new(stream)).map_err(|e| e.to_string())?;
                let mut v = vec![];
                r.read_to_end(&mut v).map_err(|e| e.to_string())?;
                Ok(bytes_to_samples(&v, bps, false))
            }
            "byte-be" => {
                let mut r: FlacByteReader<_, BigEndian> = FlacByteReader::new(Cursor::new(stream)).map_err(|e| e.to_string())?;
                let mut v = vec![];
                r.read_to_end(&mut v).map_err(|e| e.to_string())?;
                Ok(bytes_to_samples(&v, bps, true))
            }
            "sample" => {
                let mut r = FlacSampleReader::new(Cursor::new(stream)).map_err(|e| e.to_string())?;
                let mut v = vec![];
                r.read_to_end(&mut v).map_err(|e| e.to_string())?;
                Ok(v)
            }
            "iter" => {
                let r = FlacSampleReader::new(Cursor::new(stream)).map_err(|e| e.to_string())?;
                let mut v = vec![];
                for s in r {
                    v.push(s.map_err(|e| e.to_string())?);
                }
                Ok(v)
            }
            _ => {
                let mut r = FlacChannelReader::new(Cursor::new(stream)).map_err(|e| e.to_string())?;
                let mut v = vec![];
                loop {
                    let chs = r.fill_buf().map_err(|e| e.to_string())?;
                    let n = chs[0].len();
                    if n == 0 {
                        break;
                    }
                    if chs.iter().any(|c| c.len() != n) {
                        return Err("channel lengths differ".into());
                    }
                    for i in 0..n {
                        for c in &chs {
                            v.push(c[i]);
                        }
                    }
                    r.consume(n);
                }
                Ok(v)
            }
        }
    });
    match r {
        Ok(Ok(v)) => ("ok".into(), v, String::new()),
        Ok(Err(e)) => ("err".into(), vec![], e),
        Err(c) => ("panic".into(), vec![], format!("{} @{}", c.msg, c.loc)),
    }
}

pub const READERS: &[&str] = &["byte-le", "byte-be", "byte-wave", "sample", "iter", "channel"];

pub fn run(job: &Value, t: &mut Trace) -> usize {
    let mut runs = 0;
    let log_bytes = job["log_bytes"].as_bool().unwrap_or(true);
    let decode = job["decode"].as_bool().unwrap_or(true);
    for j in job["jobs"].as_array().unwrap() {
        runs += 1;
        let start = j["start_offset"].as_u64().unwrap_or(0) as usize;
        let Some((bytes, pcm)) = run_writer(j, t, runs) else { continue };
        let stream = &bytes[start..];
        let channels = j["channels"].as_u64().unwrap_or(1);
        let bps = j["bps"].as_u64().unwrap_or(16) as u32;
        let small = pcm.len() <= j["inline_limit"].as_u64().unwrap_or(600) as usize;
        let mut ev = json!({"ev": "encoded", "run": runs as i64, "fe": j["fe"], "channels": channels as i64, "bps": bps as i64,
            "rate": j["rate"].as_u64().unwrap_or(44100) as i64, "len": stream.len() as i64, "samples": pcm.len() as i64,
            "tag": j["tag"].as_str().unwrap_or(""), "opts": j["opts"], "signal": j["pcm"]["signal"].as_str().unwrap_or("explicit"),
            "pcm_md5": md5_hex(&samples_to_bytes(&pcm, bps, false)), "small": small});
        if log_bytes {
            ev["bytes"] = ints(stream);
            ev["pcm"] = ints(&pcm);
        }
        t.emit(ev);
        if decode {
            for rd in READERS {
                let (ret, got, msg) = decode_with(rd, stream, bps);
                let mut d = json!({"ev": "decoded", "run": runs as i64, "reader": rd, "ret": ret, "msg": msg, "count": got.len() as i64,
                    "md5": md5_hex(&samples_to_bytes(&got, bps, false)), "small": small});
                if small {
                    d["data"] = ints(&got);
                }
                t.emit(d);
            }
            // parameters reported by the reader
            use flac_codec::metadata::Metadata;
            if let Ok(Ok(r)) = catch(|| FlacSampleReader::new(Cursor::new(stream))) {
                t.emit(json!({"ev": "params", "run": runs as i64, "channels": r.channel_count() as i64, "bps": r.bits_per_sample() as i64,
                    "rate": r.sample_rate() as i64}));
            }
        }
    }
    runs
}

/// Exhaustive grid binding of the residual writer / reader (C01, PartitionLayout)
/// The residual reader alone over hand-made partition headers: coding method 0, the given partition order, and 2^po escaped
/// partitions of width 0 (9 bits each, no residual bits whatever their length) - so acceptance depends on the layout rules only.
fn run_raw_layouts(job: &Value, t: &mut Trace) -> usize {
    let mut n = 0;
    let max_bs = job["raw_max_bs"].as_u64().unwrap_or(0);
    for bs in 1..=max_bs {
        for order in 0..=bs.min(32) {
            for po in 0..=8u32 {
                let mut bits: Vec<u8> = vec![0, 0];
                for k in (0..4).rev() {
                    bits.push(((po >> k) & 1) as u8);
                }
                for _ in 0..(1u32 << po) {
                    bits.extend_from_slice(&[1, 1, 1, 1, 0, 0, 0, 0, 0]);
                }
                while bits.len() % 8 != 0 {
                    bits.push(0);
                }
                let mut bytes: Vec<u8> = bits.chunks(8).map(|c| c.iter().fold(0u8, |a, b| (a << 1) | b)).collect();
                bytes.extend_from_slice(&[0u8; 8]);
                let len = (bs - order) as usize;
                let (rret, zero, msg) = match catch(|| flac_codec::decode::verif::read_residuals(&bytes, order as usize, len)) {
                    Ok(Ok(v)) => ("ok", v.len() == len && v.iter().all(|x| *x == 0), String::new()),
                    Ok(Err(e)) => ("err", false, e.to_string()),
                    Err(c) => ("panic", false, format!("read: {} @{}", c.msg, c.loc)),
                };
                t.emit(json!({"ev": "rawres", "bs": bs as i64, "order": order as i64, "po": po as i64, "rret": rret, "allzero": zero, "msg": msg}));
                n += 1;
            }
        }
    }
    n
}

pub fn run_residuals(job: &Value, t: &mut Trace) -> usize {
    let mut n = run_raw_layouts(job, t);
    let list = |k: &str| -> Vec<u64> { job[k].as_array().map(|a| a.iter().map(|x| x.as_u64().unwrap()).collect()).unwrap_or_default() };
    let sizes = list("sizes");
    let maxpos = list("maxpos");
    let max_order = job["max_order"].as_u64().unwrap_or(32);
    let order_step = job["order_step"].as_u64().unwrap_or(1).max(1);
    let mut rng = Rng::new(env_seed());
    for bs in sizes {
        let mut order = 0;
        while order < bs.min(max_order + 1) {
            for &maxpo in &maxpos {
                for pattern in ["zero", "pm1", "ramp", "outlier", "lastbig", "firstbig", "alt"] {
                    for rice2 in [false, true] {
                        let len = (bs - order) as usize;
                        let res: Vec<i32> = (0..len)
                            .map(|i| match pattern {
                                "zero" => 0,
                                "pm1" => if rng.chance(1, 2) { 1 } else { -1 },
                                "ramp" => (i as i32 % 37) - 18,
                                "lastbig" => if i + 1 == len { 3000 } else { 0 },
                                "firstbig" => if i == 0 { -3000 } else { 0 },
                                "alt" => if i % 2 == 0 { 0 } else { 700 + i as i32 },
                                _ => if i % 7 == 3 { if rice2 { 1 << 28 } else { 40000 } } else { (i as i32 % 3) - 1 },
                            })
                            .collect();
                        let w = catch(|| flac_codec::encode::verif::write_residuals(maxpo as u32, rice2, order as usize, &res));
                        let (wret, bytes, mut msg) = match w {
                            Ok(Ok(b)) => ("ok", b, String::new()),
                            Ok(Err(e)) => ("err", vec![], e.to_string()),
                            Err(c) => ("panic", vec![], format!("write: {} @{}", c.msg, c.loc)),
                        };
                        let po = if bytes.is_empty() { -1 } else { ((bytes[0] >> 2) & 0xF) as i64 };
                        let (rret, eq) = if wret == "ok" {
                            match catch(|| flac_codec::decode::verif::read_residuals(&bytes, order as usize, len)) {
                                Ok(Ok(v)) => ("ok", v == res),
                                Ok(Err(e)) => {
                                    msg = e.to_string();
                                    ("err", false)
                                }
                                Err(c) => {
                                    msg = format!("read: {} @{}", c.msg, c.loc);
                                    ("panic", false)
                                }
                            }
                        } else {
                            ("skipped", false)
                        };
                        t.emit(json!({"ev": "res", "bs": bs as i64, "order": order as i64, "maxpo": maxpo as i64, "pattern": pattern,
                            "rice2": rice2, "wret": wret, "rret": rret, "eq": eq, "po": po, "msg": msg}));
                        n += 1;
                    }
                }
            }
            order += if order < 4 { 1 } else { order_step };
        }
    }
    n
}
