//! Counting allocator: supplies `peak_alloc` observations for C04 / C12.
use std::alloc::{GlobalAlloc, Layout, System};
use std::sync::atomic::{AtomicU64, AtomicUsize, Ordering};

pub struct Counting;
static CUR: AtomicUsize = AtomicUsize::new(0);
static PEAK: AtomicUsize = AtomicUsize::new(0);

/// the item the driver is working on (drivers that feed untrusted inputs set it before each item)
pub static CURRENT_ID: AtomicU64 = AtomicU64::new(0);
/// A single request above this size is never attempted: it is reported (exit 4) as an unbounded allocation of the
/// current item. Nothing the drivers do legitimately needs 4 GiB in one piece.
const REQUEST_CAP: usize = 4 << 30;

fn refuse(size: usize) -> ! {
    eprintln!("VERIF-OOM id={} size={}", CURRENT_ID.load(Ordering::Relaxed), size);
    std::process::exit(4);
}

unsafe impl GlobalAlloc for Counting {
    unsafe fn alloc(&self, l: Layout) -> *mut u8 {
        if l.size() > REQUEST_CAP {
            refuse(l.size());
        }
        let p = unsafe { System.alloc(l) };
        if !p.is_null() {
            let c = CUR.fetch_add(l.size(), Ordering::Relaxed) + l.size();
            PEAK.fetch_max(c, Ordering::Relaxed);
        }
        p
    }
    unsafe fn dealloc(&self, p: *mut u8, l: Layout) {
        unsafe { System.dealloc(p, l) };
        CUR.fetch_sub(l.size(), Ordering::Relaxed);
    }
    unsafe fn realloc(&self, p: *mut u8, l: Layout, n: usize) -> *mut u8 {
        if n > REQUEST_CAP {
            refuse(n);
        }
        let q = unsafe { System.realloc(p, l, n) };
        if !q.is_null() {
            if n >= l.size() {
                let c = CUR.fetch_add(n - l.size(), Ordering::Relaxed) + (n - l.size());
                PEAK.fetch_max(c, Ordering::Relaxed);
            } else {
                CUR.fetch_sub(l.size() - n, Ordering::Relaxed);
            }
        }
        q
    }
}

/// resets the peak to the current level and returns the current level
pub fn reset_peak() -> usize {
    let c = CUR.load(Ordering::Relaxed);
    PEAK.store(c, Ordering::Relaxed);
    c
}
/// peak since the last reset, relative to `base`
pub fn peak_since(base: usize) -> usize {
    PEAK.load(Ordering::Relaxed).saturating_sub(base)
}
