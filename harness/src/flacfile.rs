//! Building and dissecting FLAC files for the drivers.
//!
//! The dissection (metadata block boundaries, seek table assembly) is written here from
//! the format description, not with the crate's metadata code, so that reader tests do
//! not depend on the crate's metadata writer.
use flac_codec::encode::{FlacSampleWriter, Options};
use std::io::Cursor;

#[derive(Clone, Debug)]
pub struct Built {
    pub bytes: Vec<u8>,
    /// byte offset of the first frame
    pub frames_start: usize,
    /// (first sample, byte offset relative to frames_start, pcm frames) per frame
    pub frames: Vec<(u64, u64, u64)>,
}

/// raw metadata blocks: (type, body)
pub fn split_blocks(bytes: &[u8]) -> Option<(Vec<(u8, Vec<u8>)>, usize)> {
    if bytes.len() < 4 || &bytes[..4] != b"fLaC" {
        return None;
    }
    let mut p = 4;
    let mut out = vec![];
    loop {
        if p + 4 > bytes.len() {
            return None;
        }
        let last = bytes[p] & 0x80 != 0;
        let ty = bytes[p] & 0x7f;
        let len = ((bytes[p + 1] as usize) << 16) | ((bytes[p + 2] as usize) << 8) | bytes[p + 3] as usize;
        if p + 4 + len > bytes.len() {
            return None;
        }
        out.push((ty, bytes[p + 4..p + 4 + len].to_vec()));
        p += 4 + len;
        if last {
            return Some((out, p));
        }
    }
}

pub fn join_blocks(blocks: &[(u8, Vec<u8>)], audio: &[u8]) -> Vec<u8> {
    let mut out = b"fLaC".to_vec();
    for (i, (ty, body)) in blocks.iter().enumerate() {
        let last = i + 1 == blocks.len();
        out.push(if last { 0x80 } else { 0 } | ty);
        out.push((body.len() >> 16) as u8);
        out.push((body.len() >> 8) as u8);
        out.push(body.len() as u8);
        out.extend_from_slice(body);
    }
    out.extend_from_slice(audio);
    out
}

/// seek point: Some((sample, byte offset, frame samples)) or None = placeholder
pub fn seektable_body(points: &[Option<(u64, u64, u16)>]) -> Vec<u8> {
    let mut b = vec![];
    for p in points {
        match p {
            Some((s, o, n)) => {
                b.extend_from_slice(&s.to_be_bytes());
                b.extend_from_slice(&o.to_be_bytes());
                b.extend_from_slice(&n.to_be_bytes());
            }
            None => {
                b.extend_from_slice(&u64::MAX.to_be_bytes());
                b.extend_from_slice(&0u64.to_be_bytes());
                b.extend_from_slice(&0u16.to_be_bytes());
            }
        }
    }
    b
}

/// Encodes `samples` (interleaved) with the crate's sample writer and no seek table / padding,
/// recording the frame boundaries through the EncodeBegin hook.
pub fn encode_plain(
    samples: &[i32],
    channels: u8,
    bps: u32,
    rate: u32,
    block_size: u16,
    declare_total: bool,
    options: Option<Options>,
) -> Result<Built, String> {
    let opts = options
        .unwrap_or_else(|| Options::default().no_seektable().no_padding())
        .block_size(block_size)
        .map_err(|e| format!("{e:?}"))?;
    let mut cur = Cursor::new(Vec::new());
    flac_codec::verif::install();
    let total = samples.len() as u64;
    let r = (|| {
        let mut w = FlacSampleWriter::new(&mut cur, opts, rate, bps, channels, declare_total.then_some(total))
            .map_err(|e| format!("new: {e}"))?;
        w.write(samples).map_err(|e| format!("write: {e}"))?;
        w.finalize().map_err(|e| format!("finalize: {e}"))
    })();
    let events = flac_codec::verif::take();
    r?;
    let bytes = cur.into_inner();
    let (_, frames_start) = split_blocks(&bytes).ok_or("cannot split own file")?;
    let mut frames = vec![];
    for e in events {
        if let flac_codec::verif::Event::EncodeBegin { samples_before, pcm_frames, bytes_so_far } = e {
            frames.push((samples_before, bytes_so_far, pcm_frames));
        }
    }
    Ok(Built { bytes, frames_start, frames })
}

/// Replaces the metadata of `built` by STREAMINFO (+ optional total patch) + the given seek table.
/// `shape`: "none" | "all" | "every2" | "first" | "placeholders" (every 2nd + 2 trailing
/// placeholders) | "last" (only the last frame) | "phonly" (placeholders only)
pub fn with_seektable(built: &Built, shape: &str, unknown_total: bool) -> Built {
    let (blocks, start) = split_blocks(&built.bytes).unwrap();
    let mut si = blocks[0].1.clone();
    if unknown_total {
        // total samples: low 4 bits of byte 13 and bytes 14..17
        si[13] &= 0xF0;
        for k in 14..18 {
            si[k] = 0;
        }
    }
    let pt = |i: usize| {
        let (s, o, n) = built.frames[i];
        Some((s, o, n as u16))
    };
    let n = built.frames.len();
    let points: Option<Vec<Option<(u64, u64, u16)>>> = match shape {
        "none" => None,
        "all" => Some((0..n).map(pt).collect()),
        "every2" => Some((0..n).step_by(2).map(pt).collect()),
        "first" => Some(vec![pt(0)]),
        "placeholders" => {
            let mut v: Vec<_> = (0..n).step_by(2).map(pt).collect();
            v.push(None);
            v.push(None);
            Some(v)
        }
        "last" => Some(vec![pt(n - 1)]),
        "phonly" => Some(vec![None, None]),
        _ => panic!("unknown seek table shape {shape}"),
    };
    let mut nb: Vec<(u8, Vec<u8>)> = vec![(0, si)];
    if let Some(p) = points {
        nb.push((3, seektable_body(&p)));
    }
    let bytes = join_blocks(&nb, &built.bytes[start..]);
    let (_, frames_start) = split_blocks(&bytes).unwrap();
    Built { bytes, frames_start, frames: built.frames.clone() }
}
