"""C10: metadata updates (MetaUpdate / Gen_MetaUpdate / Trace_MetaUpdate)."""
import json
import os
import random
import time

from vlib import *


def edits_tla(t):
    vc_sizes = list(range(12, 29)) if t == "quick" else list(range(10, 31))       # base 20, delta -8..+8
    app_sizes = [4, 5, 8, 9, 10, 11, 12, 13, 16]
    pad_sizes = [0, 1, 4, 6]
    e = ['[op |-> "add_app", n |-> %d]' % n for n in app_sizes]
    e += ['[op |-> "rm_app", n |-> 0]', '[op |-> "rm_vc", n |-> 0]', '[op |-> "rm_pad", n |-> 0]', '[op |-> "fail", n |-> 0]']
    e += ['[op |-> "set_vc", n |-> %d]' % n for n in vc_sizes]
    e += ['[op |-> "set_pad", n |-> %d]' % n for n in pad_sizes]
    e += ['[op |-> "add_pad", n |-> %d]' % n for n in (0, 3)]
    e += ['[op |-> "add_icon", n |-> 40]']
    return "{" + ", ".join(e) + "}"


def init_files():
    B = lambda k, n: '[k |-> "%s", n |-> %d]' % (k, n)
    si = B("si", 34)
    files = []
    # (44 = one icon block with its header: padding that holds exactly one, two, or one and a bit of the refused second one)
    for pads in ([], [0], [3], [4], [5], [8], [12], [2, 6], [0, 9], [44], [88], [100], [43, 60]):
        for body in ([], [B("vc", 20)], [B("vc", 20), B("app", 10)]):
            # padding after the other blocks (the encoder's layout) ...
            files.append([si] + body + [B("pad", p) for p in pads])
            # ... and a padding block in front of them
            if pads and body:
                files.append([si, B("pad", pads[0])] + body + [B("pad", p) for p in pads[1:]])
    return "{" + ", ".join("<<" + ", ".join(f) + ">>" for f in files) + "}"


def run(pid):
    t0 = time.time()
    t = tier()
    wd = workdir(pid)
    v = Verdict(pid)
    build_harness("release")
    maxed = 2 if t == "quick" else 3
    common = """cInit == %s
cEdits == %s
""" % (init_files(), edits_tla(t))
    mp = write_text(os.path.join(wd, "MCU.tla"), "---- MODULE MCU ----\nEXTENDS MetaUpdate\n" + common + "====\n")
    consts = "CONSTANTS\n InitFiles <- cInit\n Edits <- cEdits\n MaxEdits = %d\n MaxBlock = 16777215\n" % (maxed + 1)
    cp = write_text(os.path.join(wd, "MCU.cfg"), consts + "SPECIFICATION Spec\nINVARIANT SizeNeutral RebuildExact FailureIsClean AlwaysValid\nCHECK_DEADLOCK FALSE\n")
    r = tlc_model_check(mp, cp, wd, workers=8)
    states, trans = r["distinct"], r["generated"]
    # small MaxBlock: the 24-bit limit as a reachable boundary
    mp2 = write_text(os.path.join(wd, "MCUL.tla"), "---- MODULE MCUL ----\nEXTENDS MetaUpdate\n" + common + "====\n")
    cp2 = write_text(os.path.join(wd, "MCUL.cfg"), consts.replace("MaxBlock = 16777215", "MaxBlock = 24") +
                     "SPECIFICATION Spec\nINVARIANT SizeNeutral RebuildExact FailureIsClean AlwaysValid\nCHECK_DEADLOCK FALSE\n")
    r2 = tlc_model_check(mp2, cp2, wd, workers=8)
    states += r2["distinct"]
    trans += r2["generated"]
    log("[%s] TLC: MetaUpdate %d states, %d transitions (incl. the small-limit configuration)" % (pid, states, trans))

    gp = write_text(os.path.join(wd, "GMU.tla"), "---- MODULE GMU ----\nEXTENDS Gen_MetaUpdate\n" + common + "====\n")
    gc = write_text(os.path.join(wd, "GMU.cfg"), consts.replace("MaxEdits = %d" % (maxed + 1), "MaxEdits = %d" % maxed) +
                    "SPECIFICATION GSpec\nVIEW View\nINVARIANT Emit\nCHECK_DEADLOCK FALSE\n")
    g = tlc(gp, gc, wd, workers=1, timeout=1200)
    hs = gen_payloads(g["out"])
    if not hs:
        sys.stderr.write(g["out"][-3000:])
        raise ToolError("no histories generated")
    histories = [{"init": h["init"], "edits": [s["edit"] for s in h["steps"]]} for h in hs]
    if t == "quick" and len(histories) > 6000:
        # quick tier: a seeded sample of the generated histories (thorough replays all of them)
        random.Random(seed()).shuffle(histories)
        histories = histories[:6000]
    # near the real 24-bit limit: grow / shrink padding across 2^24 - 1
    M = 16777215
    for d in (-8, -1, 0, 1, 8):
        histories.append({"init": [["si", 34], ["vc", 20], ["pad", M - 5]], "edits": [{"op": "set_vc", "n": 20 - d if d <= 0 else 20 - d}]})
        histories.append({"init": [["si", 34], ["vc", 40], ["pad", M - 3 + min(d, 0)]], "edits": [{"op": "set_vc", "n": 40 - 4 + d}, {"op": "set_vc", "n": 12}]})
    # near the 24-bit limit with a SECOND padding block behind the first: slack the first cannot take is no reason to touch another one
    for d in (-8, -1, 0, 1, 8):
        histories.append({"init": [["si", 34], ["vc", 40], ["pad", M - 3 + min(d, 0)], ["pad", 64]], "edits": [{"op": "set_vc", "n": 40 - 4 + d}, {"op": "set_vc", "n": 12}]})
        histories.append({"init": [["si", 34], ["pad", M - 2], ["vc", 40], ["app", 10], ["pad", 64], ["pad", 3]], "edits": [{"op": "set_vc", "n": 30 + d}, {"op": "rm_app", "n": 0}]})
    # refusals by the cross-block rules (a second PNG icon) where the refused list WOULD have fitted in place: with padding in front of /
    # behind the other blocks, an icon already in the file or added by the previous update, and an accepted edit after the refusal
    for pad in (44, 45, 88, 100, 4096):
        for front in (False, True):
            body = [["vc", 20], ["app", 10]]
            base = [["si", 34]] + ([["pad", pad]] + body if front else body + [["pad", pad]])
            ic = {"op": "add_icon", "n": 40}
            histories.append({"init": base, "edits": [ic, ic, {"op": "set_vc", "n": 24}]})
            histories.append({"init": base + [["icon", 40]], "edits": [ic, {"op": "set_vc", "n": 16}]})
            histories.append({"init": [base[0], ["icon", 40]] + base[1:], "edits": [{"op": "rm_app", "n": 0}, ic, ic]})
    rnd = random.Random(seed() * 17 + 10)
    # longer random histories over the same alphabet (impl -> spec)
    alphabet = [{"op": "add_app", "n": n} for n in (4, 5, 9, 10, 16, 300)] + [{"op": "rm_app", "n": 0}, {"op": "rm_vc", "n": 0}, {"op": "rm_pad", "n": 0},
               {"op": "fail", "n": 0}, {"op": "add_icon", "n": 40}, {"op": "add_pad", "n": 7}, {"op": "edit_si", "n": 1}, {"op": "edit_si", "n": 2}, {"op": "edit_si", "n": 7}] + \
               [{"op": "set_vc", "n": n} for n in range(8, 60)] + [{"op": "set_pad", "n": n} for n in (0, 1, 5, 30, 200)]
    for i in range(200 if t == "quick" else 3000):
        init = [["si", 34]] + rnd.choice([[], [["vc", 20]], [["vc", 33], ["app", 9]]]) + [["pad", rnd.choice([0, 1, 4, 7, 20, 100])] for _ in range(rnd.choice([0, 1, 1, 2]))]
        histories.append({"init": init, "edits": [rnd.choice(alphabet) for _ in range(rnd.randint(3, 8))]})
    # every third history keeps the stream behind 7 / 1 / 130 foreign leading bytes
    for i, h in enumerate(histories):
        if i % 3 == 1:
            h["lead"] = (7, 1, 130)[(i // 3) % 3]
    parts = [histories[i::8] for i in range(8)]

    def drive(ip):
        i, part = ip
        tp = os.path.join(wd, "trace_%d.ndjson" % i)
        return tp, run_drive("metaupdate", {"out": tp, "histories": part, "path_dir": wd, "path_every": 5 if t == "quick" else 11}, wd, tag=str(i))

    outs = parallel(drive, [(i, p) for i, p in enumerate(parts) if p], n=8)
    runs = sum(o[1]["runs"] for o in outs)
    events = sum(o[1]["events"] for o in outs)
    spec, cfg = os.path.join(SPEC, "Trace_MetaUpdate.tla"), os.path.join(SPEC, "Trace_MetaUpdate.cfg")
    drift = 0
    outcomes = {}
    for tp, tr in parallel(lambda o: (o[0], tlc_trace(spec, cfg, o[0], wd)), outs, n=8):
        recs = read_ndjson(tp)
        for e in recs:
            if e.get("ev") == "update":
                outcomes[e["ret"]] = outcomes.get(e["ret"], 0) + 1
        for ln in tr["rejects"]:
            m = re.match(r'<<"REJECT", (\d+), (\d+), "(.*)">>$', ln)
            line, rule = int(m.group(2)), m.group(3)
            e = recs[line - 1]
            sig = "%s rule=%s op=%s ret=%s" % (pid, rule, e["edit"]["op"], e.get("ret"))
            if e.get("loc"):
                sig += " panic@" + e["loc"]
            v.violation(sig, "rule %s fails for update at %s line %d: %s" % (rule, os.path.basename(tp), line, json.dumps(e)),
                        {"trace": tp, "event": e})
        drift += len(tr["drifts"])
        for ln in tr["drifts"][:2]:
            log("SPEC-DRIFT module=MetaUpdate " + ln[:300])
    rc = v.finish()
    write_evidence(pid, "model_checking", {
        "states": states, "transitions": trans, "traces_validated_against_impl": runs, "exhaustive": True,
        "samples": [histories[0], histories[len(histories) // 2], histories[-1]],
        "rule": "TLC: MetaUpdate.tla over %d initial layouts (0/1/2 padding blocks, before or after other blocks) x all histories of <= %d edits "
                "(comment sizes sweeping -8..+8 around the fit, application/padding/icon edits, failing callback), with the real and a small "
                "24-bit limit; one shortest history per distinct (file, outcome) is replayed through update_file on real files with exactly those "
                "block sizes, plus near-2^24 padding cases and seeded longer random histories; every call is judged by Trace_MetaUpdate" % (init_files().count("<<"), maxed + 1),
        "generated_histories": len(hs), "update_calls_by_outcome": outcomes, "events_validated": events, "spec_drift_notes": drift,
        "known_findings_hit": {k: n for k, (kk, n) in v.known_hits.items()}},
        time.time() - t0, len(v.violations),
        ["TLC/SANY, CommunityModules Json", "block lists of the files are parsed by the harness (not the crate); block content equality uses the crate's reader (C11 covers it)",
         "update(path) (same path re-created) is not exercised: the rebuilt sink is a separate buffer"])
    log("[%s] histories=%d update-calls=%s drift=%d violations=%d known=%d wall=%.1fs" % (pid, runs, outcomes, drift, len(v.violations), len(v.known_hits), time.time() - t0))
    return rc
