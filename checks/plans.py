"""Stream plans for FlacGen (C03 valid streams, C04/C05 malformed-but-checksummed streams, C16/C17 frames).

Python only CHOOSES syntactic alternatives and picks coding parameters that fit (it computes residual
magnitudes with exact integers to do so); the TLA+ module FlacGen derives the residuals again, validates,
serialises, computes CRCs and MD5, and FlacFormat re-parses the result (self-check)."""
import random

TABLE_RATES = [88200, 176400, 192000, 8000, 16000, 22050, 24000, 32000, 44100, 48000, 96000]
TABLE_BPS = [8, 12, 16, 20, 24, 32]
FIXED = [[], [1], [2, -1], [3, -3, 1], [4, -6, 4, -1]]


def rnd_target(rnd, n, bps, kind):
    lo, hi = -(1 << (bps - 1)), (1 << (bps - 1)) - 1
    if kind == "extremes":
        return [rnd.choice([lo, hi, lo, hi, 0]) for _ in range(n)]
    if kind == "noise":
        return [rnd.randint(lo, hi) for _ in range(n)]
    if kind == "const":
        c = rnd.randint(lo, hi)
        return [c] * n
    if kind == "ramp":
        step = rnd.randint(-max(1, hi // 64), max(1, hi // 64))
        x = rnd.randint(lo // 2, hi // 2)
        out = []
        for _ in range(n):
            out.append(max(lo, min(hi, x)))
            x += step
        return out
    # smooth walk: compresses, so Rice parameters are small
    x = rnd.randint(lo // 4, hi // 4)
    out = []
    amp = max(1, hi >> rnd.randint(3, 12))
    for _ in range(n):
        x = max(lo, min(hi, x + rnd.randint(-amp, amp)))
        out.append(x)
    return out


def residuals(s, coef, shift):
    ordr = len(coef)
    res = []
    for i in range(ordr, len(s)):
        acc = sum(coef[j] * s[i - 1 - j] for j in range(ordr))
        res.append(s[i] - (acc >> shift))
    return res


def fits32(v):
    return -(1 << 31) < v < (1 << 31)


def bitlen_signed(v):
    return 0 if v == 0 else (v.bit_length() + 1 if v > 0 else (-v - 1).bit_length() + 1)


def choose_params(rnd, res, bs, order, method, po):
    """per-partition coding that fits: Rice with a sensible k, or an escape (exact / wider / zero width)"""
    np_ = 1 << po
    psz = bs // np_
    params = []
    maxk = 14 if method == 0 else 30
    for k in range(np_):
        start = 0 if k == 0 else psz * k - order
        cnt = psz - order if k == 0 else psz
        part = res[start:start + cnt]
        need = max([bitlen_signed(r) for r in part] + [0])
        allzero = all(r == 0 for r in part)
        mode = rnd.random()
        if need > 31:
            # a 5-bit escape width cannot say 32: only Rice coding with a large parameter fits (method 1)
            params.append(["rice", 30 if method == 1 else 99])
        elif allzero and mode < 0.5:
            params.append(["esc", 0])                      # zero-width escaped partition
        elif mode < 0.3 or need > 29:
            w = need if rnd.random() < 0.6 else min(31, need + rnd.randint(1, 4))
            params.append(["esc", min(31, max(w, need))])
        else:
            mean = (sum(abs(r) for r in part) // max(1, len(part)))
            kk = min(maxk, max(0, mean.bit_length() + rnd.choice([-1, 0, 0, 1])))
            # keep the unary part short
            while kk < maxk and any(((abs(r) * 2) >> kk) > 300 for r in part):
                kk += 1
            if any(((abs(r) * 2) >> kk) > 300 for r in part):
                params.append(["esc", min(31, need)])
            else:
                params.append(["rice", kk])
    return params


def valid_po(rnd, bs, order):
    cands = [po for po in range(0, 9) if bs % (1 << po) == 0 and (bs >> po) > order]
    return rnd.choice(cands) if cands else None


def make_sub(rnd, ch_vals, bs, depth, force=None, maxw=32):
    """chooses a subframe coding for the channel values (already at this subframe's depth)"""
    allsame = all(v == ch_vals[0] for v in ch_vals)
    types = ["verbatim", "fixed", "lpc", "fixed", "lpc"] + (["constant"] * 3 if allsame else [])
    ty = force or rnd.choice(types)
    if ty == "constant" and not allsame:
        ty = "verbatim"
    # wasted bits actually available
    nz = [v for v in ch_vals if v != 0]
    avail = min(((v & -v).bit_length() - 1) for v in nz) if nz else 0
    w = min(avail, depth - 1, maxw)
    sub = {"type": ty, "wasted": w}
    s = [v >> w for v in ch_vals]
    bps = depth - w
    if ty in ("constant", "verbatim"):
        return sub
    if ty == "fixed":
        order = rnd.randint(0, min(4, bs - 1)) if bs > 1 else 0
        coef, shift = FIXED[order], 0
    else:
        order = min(bs - 1, rnd.choice([1, 2, 3, 4, 8, 12, 13, 20, 31, 32]))
        if order < 1:
            sub["type"] = "verbatim"
            return sub
        prec = rnd.choice([1, 2, 5, 7, 12, 14, 15])
        shift = rnd.randint(0, 15)
        lim = (1 << (prec - 1)) - 1
        # a crude but stable predictor: first coefficient near 2^shift, the rest small
        coef = []
        if rnd.random() < 0.25:
            # adversarial predictor: every coefficient at the edge of its precision, so that the sum of products needs
            # depth + precision + log2(order) bits (decoders that accumulate in too narrow a type wrap here)
            order = min(order, rnd.choice([2, 3, 5, 6, 7, 12]))
            prec = rnd.choice([12, 14, 15])
            lim = (1 << (prec - 1)) - 1
            coef = [rnd.choice([lim, -lim - 1]) for _ in range(order)]
            shift = rnd.randint(max(0, prec - 3), 15)
        else:
            for j in range(order):
                base = (1 << shift) if j == 0 else 0
                c = base + rnd.randint(-max(1, (1 << shift) // 8), max(1, (1 << shift) // 8)) if j < 3 else rnd.randint(-2, 2)
                coef.append(max(-lim - 1, min(lim, c)))
        sub.update({"precision": prec, "shift": shift, "coefs": coef})
    res = residuals(s, coef, shift)
    if not all(fits32(r) for r in res):
        sub = {"type": "verbatim", "wasted": w}
        return sub
    po = valid_po(rnd, bs, order)
    if po is None:
        return {"type": "verbatim", "wasted": w}
    # coding method 1 (5-bit parameters) at any depth
    method = rnd.choice([0, 1])
    params = choose_params(rnd, res, bs, order, method, po)
    if any(p[0] == "rice" and p[1] == 99 for p in params):
        method = 1
        params = choose_params(rnd, res, bs, order, method, po)
    sub.update({"order": order, "method": method, "po": po, "params": params})
    return sub


def stream_plan(rnd, pid, small=True, nframes=None, variable=None, size_pool=None):
    channels = rnd.choice([1, 1, 2, 2, 2, 3, 4, 5, 6, 7, 8])
    bps = rnd.choice([4, 5, 7, 8, 8, 12, 16, 16, 17, 20, 24, 24, 31, 32, 32])
    how = rnd.choice(["table", "khz", "hz", "tenhz", "si"])
    rate = {"table": rnd.choice(TABLE_RATES), "khz": 1000 * rnd.randint(1, 255), "hz": rnd.randint(1, 65535),
            "tenhz": 10 * rnd.randint(1, 65535), "si": rnd.choice([0, 1, 12347, 1048575, 44100])}[how]
    bpscode = "hdr" if bps in TABLE_BPS and rnd.random() < 0.7 else "si"
    variable = (rnd.random() < 0.3) if variable is None else variable
    nframes = rnd.randint(1, 3) if nframes is None else nframes
    if variable:
        sizes = [rnd.choice(size_pool or ([16, 17, 20, 31, 32, 192, 256] if small else [192, 576, 1152, 4096])) for _ in range(nframes)]
    else:
        b = rnd.choice(size_pool or ([16, 18, 24, 32, 33, 64, 192, 256] if small else [192, 576, 1152, 4096, 4608]))
        sizes = [b] * (nframes - 1) + [rnd.choice([b, max(1, b - rnd.randint(1, b - 1))])]
    total = sum(sizes)
    kinds = ["walk", "walk", "noise", "extremes", "ramp", "const"]
    pcm = []
    # wasted bits on some channels
    for c in range(channels):
        w = rnd.choice([0, 0, 0, 1, 2, 5]) if bps > 6 else 0
        t = rnd_target(rnd, total, bps - w, rnd.choice(kinds))
        pcm.append([v << w for v in t])
    frames = []
    pos = 0
    for i, bs in enumerate(sizes):
        chans = [p[pos:pos + bs] for p in pcm]
        pos += bs
        assign = "indep"
        if channels == 2 and rnd.random() < 0.7:
            assign = rnd.choice(["ls", "sr", "ms"])
        L, R = chans[0], chans[1] if channels >= 2 else chans[0]
        side = [l - r for l, r in zip(L, R)]
        mid = [(l + r) >> 1 for l, r in zip(L, R)]
        vals, depths = chans, [bps] * channels
        if assign == "ls":
            vals, depths = [L, side], [bps, bps + 1]
        elif assign == "sr":
            vals, depths = [side, R], [bps + 1, bps]
        elif assign == "ms":
            vals, depths = [mid, side], [bps, bps + 1]
        if bps == 32 and assign != "indep":
            # 33-bit side channel (pair arithmetic in the model): any subframe type; wasted bits up to 16
            sidx = 0 if assign == "sr" else 1
            subs = [make_sub(rnd, vals[c], bs, depths[c], maxw=16 if c == sidx else 32) for c in range(channels)]
        else:
            subs = [make_sub(rnd, vals[c], bs, depths[c]) for c in range(channels)]
        fr = {"bs": bs, "chassign": assign, "subs": subs,
              "bscode": rnd.choice(["auto", "auto", "8", "16"]), "overlong": rnd.choice([0, 0, 0, 1])}
        if fr["bscode"] == "8" and bs > 256:
            fr["bscode"] = "16"
        frames.append(fr)
    md5 = rnd.choice(["good", "good", "good", "bad", "zero"])
    plan = {"id": pid, "channels": channels, "bps": bps, "rate": rate, "ratecode": how, "bpscode": bpscode, "variable": variable,
            "total_known": rnd.random() < 0.8, "md5": md5, "frames": frames, "pcm": pcm}
    # every frame self-describing (no STREAMINFO-referenced code) and fixed blocking: FlacStreamReader can read it
    plan["subset"] = how != "si" and bpscode == "hdr"
    return plan


MUTATIONS = [
    ("po", lambda rnd: {"po": rnd.randint(0, 15)}, "sub"),
    ("subtype", lambda rnd: {"subtype": rnd.choice([2, 3, 4, 7, 13, 14, 15, 16, 31, 63, 40, 1, 0])}, "sub"),
    ("wasted", lambda rnd: {"wasted_unary": rnd.choice([1, 8, 16, 31, 32, 33, 40])}, "sub"),
    ("precision", lambda rnd: {"precision_code": 15}, "sub"),
    ("shift", lambda rnd: {"shift_raw": rnd.choice([-1, -16, 15])}, "sub"),
    ("method", lambda rnd: {"method": rnd.choice([2, 3, 1, 0])}, "sub"),
    ("bscode", lambda rnd: {"bscode": rnd.choice([0, 1, 5, 8, 15, 6, 7])}, "frame"),
    ("srcode", lambda rnd: {"srcode": rnd.choice([15, 0, 12, 13, 14, 1])}, "frame"),
    ("chcode", lambda rnd: {"chcode": rnd.choice([11, 12, 15, 8, 9, 10, 0, 7])}, "frame"),
    ("bpscode", lambda rnd: {"bpscode": rnd.choice([3, 0, 1, 7, 2])}, "frame"),
    ("sync", lambda rnd: {"sync": rnd.choice([16383, 16380, 0])}, "frame"),
    ("reserved", lambda rnd: {"reserved1": 1} if rnd.random() < 0.5 else {"reserved2": 1}, "frame"),
    ("crc8", lambda rnd: {"crc8xor": rnd.randint(1, 255)}, "frame"),
    ("crc16", lambda rnd: {"crc16xor": rnd.randint(1, 65535)}, "frame"),
    ("padbits", lambda rnd: {"padbits": 1}, "frame"),
    ("truncate", lambda rnd: {"truncate": rnd.randint(1, 12)}, "frame"),
]


def mutate(rnd, plan, pid):
    """one or two fields pushed to illegal / extreme values; checksums stay valid (except the crc mutations)"""
    import copy
    p = copy.deepcopy(plan)
    p["id"] = pid
    p["selfcheck"] = False
    names = []
    for _ in range(rnd.choice([1, 1, 2])):
        name, f, where = rnd.choice(MUTATIONS)
        fr = rnd.choice(p["frames"])
        if where == "sub":
            sub = rnd.choice(fr["subs"])
            sub.setdefault("ov", {}).update(f(rnd))
        else:
            fr.setdefault("ov", {}).update(f(rnd))
        names.append(name)
    k = rnd.random()
    if k < 0.15:
        p["total"] = max(1, sum(f["bs"] for f in p["frames"]) - rnd.randint(1, 20))      # frames run past the declared total
        names.append("total-short")
    elif k < 0.25:
        p["total"] = sum(f["bs"] for f in p["frames"]) + rnd.randint(1, 20)
        names.append("total-long")
    elif k < 0.3:
        p["maxbs"] = max(1, max(f["bs"] for f in p["frames"]) - 1)                     # block larger than advertised
        names.append("maxbs-small")
    elif k < 0.34:
        p["total_hi"] = rnd.choice([256, 512, 257, 4095])                              # the declared total is the real one + k * 2^32 (+ ...)
        names.append("total-beyond-2^32")
    p["class"] = "+".join(sorted(set(names)))
    return p


def wide_pair(v):
    return [v >> 16, v & 0xFFFF]


def directed_malformed(start_id):
    """hand-made frames no random mutation reaches: the forbidden residual -2^31, and 33-bit side channels at the
    extremes of their range next to full-scale 32-bit channels"""
    out = []
    k = start_id
    MIN = -(1 << 31)
    for order, pcm in ((0, [0, 1, MIN, -1, 5, MIN, 7, 0]), (1, [1 << 30, -(1 << 30), 0, 3, 1 << 30, -(1 << 30), 0, 0]),
                       (0, [MIN] * 8), (2, [0, 1 << 29, -(1 << 30), 0, 0, 0, 0, 0])):
        for rice in (28, 30):
            k += 1
            out.append({"id": k, "channels": 1, "bps": 32, "rate": 44100, "bpscode": "hdr", "selfcheck": False, "class": "minneg-residual",
                        "frames": [{"bs": 8, "subs": [{"type": "fixed", "order": order, "method": 1, "po": 0, "params": [["rice", rice]], "ov": {"minneg": 1}}]}],
                        "pcm": [pcm]})
    # residuals unrelated to the samples: prediction + residual leaves the 32-bit range again and again
    MAX = (1 << 31) - 1
    for ty, order, extra in (("fixed", 1, {}), ("fixed", 2, {}), ("fixed", 4, {}),
                             ("lpc", 2, {"precision": 15, "shift": 0, "coefs": [16383, 16383]}), ("lpc", 3, {"precision": 12, "shift": 3, "coefs": [2047, -2048, 2047]})):
        for res in ([MAX], [-MAX], [MAX, MAX, -MAX], [MAX, 0, -MAX, -MAX]):
            for bps in (32, 24, 16):
                k += 1
                sub = dict({"type": ty, "order": order, "method": 1, "po": 0, "params": [["rice", 30]], "ov": {"res": res}}, **extra)
                edge_s = [(1 << (bps - 1)) - 1, -(1 << (bps - 1))]
                out.append({"id": k, "channels": 1, "bps": bps, "rate": 44100, "bpscode": "hdr", "selfcheck": False, "class": "pred-overflow",
                            "frames": [{"bs": 8, "subs": [sub]}], "pcm": [[edge_s[i % 2] for i in range(8)]]})
    # a declared total of the real length plus a multiple of 2^32 samples (the field has 36 bits): the file ends long before its total,
    # which is an error like any other truncation, at whatever frame boundary the data stop
    for hi in (256, 512, 3840, 257, 1):
        for nfr, bs in ((1, 16), (3, 16), (2, 20), (4, 192)):
            k += 1
            out.append({"id": k, "channels": 1, "bps": 16, "rate": 44100, "bpscode": "hdr", "selfcheck": False, "class": "total-beyond-2^32", "total_hi": hi,
                        "frames": [{"bs": bs, "subs": [{"type": "verbatim"}]} for _ in range(nfr)], "pcm": [[(i * 37) % 200 - 100 for i in range(nfr * bs)]]})
    # well-formed, self-describing frames under a STREAMINFO that says something else: a decorrelated (2-channel) frame in a stream of
    # 1 or 3..8 channels, an independent 2-channel frame there, a different depth, a different rate
    pcm2 = [[(i * 37) % 200 - 100 for i in range(16)], [(i * 11) % 90 - 45 for i in range(16)]]
    for assign in ("ls", "sr", "ms", "indep"):
        for sich in (1, 3, 4, 5, 6, 7, 8):
            k += 1
            out.append({"id": k, "channels": 2, "bps": 16, "rate": 44100, "bpscode": "hdr", "ratecode": "table", "selfcheck": False, "class": "streaminfo-mismatch",
                        "si_channels": sich, "frames": [{"bs": 16, "chassign": assign, "subs": [{"type": "verbatim"}, {"type": "verbatim"}]}], "pcm": pcm2})
    for extra in ({"si_bps": 24}, {"si_bps": 8}, {"si_rate": 48000}, {"si_rate": 0}):
        k += 1
        out.append(dict({"id": k, "channels": 2, "bps": 16, "rate": 44100, "bpscode": "hdr", "ratecode": "table", "selfcheck": False, "class": "streaminfo-mismatch",
                         "frames": [{"bs": 16, "chassign": "indep", "subs": [{"type": "verbatim"}, {"type": "verbatim"}]}], "pcm": pcm2}, **extra))
    # Rice codes standing for more than 32 bits (q * 2^k + low >= 2^32): no residual has such a value, the code is illegal - and the
    # largest legal ones next to them as a control (class rice-edge: valid)
    for k_, q, low in ((30, 4, 0), (30, 5, 12345), (30, 7, (1 << 30) - 1), (29, 8, 0), (28, 17, 5), (24, 256, 1), (23, 600, 0)):
        for bps in (16, 32):
            for ty, order in (("fixed", 0), ("fixed", 2)):
                k += 1
                out.append({"id": k, "channels": 1, "bps": bps, "rate": 44100, "bpscode": "hdr", "selfcheck": False, "class": "rice-overflow",
                            "frames": [{"bs": 4, "subs": [{"type": ty, "order": order, "method": 1, "po": 0,
                                                           "params": [["rawrice", k_, q, low]], "ov": {"res": [0]}}]}],
                            "pcm": [[0, 1, -1, 2]]})
    # multi-byte coded frame / sample numbers whose continuation bytes do not start with the bits 10 (11xxxxxx, 00xxxxxx, 01xxxxxx), every
    # length class, every continuation position, fixed and variable blocking; checksums valid
    for num in (0x80, 0x7FF, 0x800, 0xFFFF, 0x10000, 0x200000, 0x4000000, 0x7FFFFFFF):
        nbytes = 2 if num < 0x800 else 3 if num < 0x10000 else 4 if num < 0x200000 else 5 if num < 0x4000000 else 6
        for pos in sorted({1, nbytes - 1, (nbytes + 1) // 2}):
            for x in (0x40, 0x80, 0xC0):
                k += 1
                out.append({"id": k, "channels": 1, "bps": 16, "rate": 44100, "bpscode": "hdr", "ratecode": "table", "selfcheck": False,
                            "class": "coded-number-continuation", "variable": (k % 2 == 0), "total_known": (k % 3 != 0),
                            "frames": [{"bs": 16, "number": num, "contxor": [pos, x], "subs": [{"type": "verbatim"}]},
                                       {"bs": 16, "number": min(num + (16 if k % 2 == 0 else 1), 0x7FFFFFFF), "subs": [{"type": "verbatim"}]}],
                            "pcm": [[(i * 31) % 211 - 100 for i in range(32)]]})
    # a block of 1..15 samples that is not the last one, under every coding of its length (8-bit and 16-bit field), in fixed- and
    # variable-blocking streams with a declared total (then it must be refused) and without one (then nothing says it is not the last)
    for short in (1, 2, 10, 14, 15):
        for how in ("8", "16"):
            for variable in (False, True):
                for known in (True, False):
                    for where in (0, 1):
                        k += 1
                        sizes = [16, 16, 16]
                        sizes[where] = short
                        n = sum(sizes)
                        out.append({"id": k, "channels": 1, "bps": 16, "rate": 44100, "bpscode": "hdr", "ratecode": "table", "selfcheck": False,
                                    "class": "short-inner-block", "variable": variable, "total_known": known, "minbs": 16, "maxbs": 16,
                                    "frames": [{"bs": b, "bscode": how if b == short else "auto", "subs": [{"type": "verbatim"}]} for b in sizes],
                                    "pcm": [[(i * 29) % 301 - 150 for i in range(n)]]})
    lo, hi = -(1 << 32) + 1, (1 << 32) - 1
    edge = [MIN, (1 << 31) - 1]
    for assign in ("ls", "sr", "ms"):
        for vals in ([lo], [hi], [lo - 1], [lo, hi], [hi, -1, lo, 0, 1, -3, 3, hi - 1]):
            k += 1
            raw = {"type": "verbatim", "ov": {"wide": [wide_pair(x) for x in vals]}}
            plain = {"type": "verbatim"}
            out.append({"id": k, "channels": 2, "bps": 32, "rate": 44100, "bpscode": "hdr", "selfcheck": False, "class": "raw-side-33",
                        "frames": [{"bs": 8, "chassign": assign, "subs": [raw, plain] if assign == "sr" else [plain, raw]}],
                        "pcm": [[edge[i % 2] for i in range(8)], [edge[(i + 1) % 2] for i in range(8)]]})
    return out


def directed_wide_predictors(start_id):
    """predictors on the 33-bit side channel of 32-bit audio, given by their fields (outside the format model's arithmetic, so these
    only serve must-not-panic / bounded memory): values that GROW through prediction - a large coefficient at shift 0 multiplies the
    history at every step, which no single field pushed to its extreme does"""
    out = []
    k = start_id
    edge = [-(1 << 31), (1 << 31) - 1]
    hi, lo = (1 << 32) - 1, -(1 << 32) + 1
    MAX = (1 << 31) - 1
    shapes = []
    for warm in ([1 << 21], [hi], [lo], [1], [-(1 << 16)]):
        for coef, prec in ((-16384, 15), (16383, 15), (-2, 2), (-32768, 16), (255, 9)):
            for shift in (0, 1, 15):
                shapes.append(("lpc", 1, {"precision": prec, "shift": shift, "coefs": [coef]}, warm, [0]))
    for warm in ([hi, lo], [hi, hi], [1 << 20, -(1 << 20)]):
        shapes.append(("lpc", 2, {"precision": 15, "shift": 0, "coefs": [16383, 16383]}, warm, [0]))
        shapes.append(("lpc", 2, {"precision": 15, "shift": 0, "coefs": [-16384, 16383]}, warm, [MAX, -MAX]))
        shapes.append(("fixed", 2, {}, warm, [MAX]))
        shapes.append(("fixed", 2, {}, warm, [-MAX, MAX]))
    shapes.append(("fixed", 4, {}, [hi, lo, hi, lo], [MAX]))
    shapes.append(("fixed", 4, {}, [hi, lo, hi, lo], [0]))
    shapes.append(("fixed", 1, {}, [hi], [MAX]))
    shapes.append(("fixed", 3, {}, [lo, hi, lo], [-MAX]))
    shapes.append(("lpc", 8, {"precision": 15, "shift": 0, "coefs": [16383] * 8}, [hi] * 8, [MAX]))
    shapes.append(("lpc", 32, {"precision": 15, "shift": 0, "coefs": [-16384] * 32}, [lo] * 32, [-MAX]))
    for ty, order, extra, warm, res in shapes:
        for assign in ("ls", "sr", "ms"):
            for bs in sorted({max(order + 1, 4), order + 5, order + 8, 40}):
                k += 1
                raw = dict({"type": ty, "order": order, "method": 1, "po": 0, "params": [["rice", 30]],
                            "ov": {"wide": [wide_pair(x) for x in warm], "res": res}}, **extra)
                plain = {"type": "verbatim"}
                out.append({"id": k, "channels": 2, "bps": 32, "rate": 44100, "bpscode": "hdr", "selfcheck": False, "class": "wide-predictor",
                            "frames": [{"bs": bs, "chassign": assign, "subs": [raw, plain] if assign == "sr" else [plain, raw]}],
                            "pcm": [[edge[i % 2] for i in range(bs)], [edge[(i + 1) % 2] for i in range(bs)]]})
    return out


def directed_valid(start_id):
    """valid streams at corners random plans hit too rarely: every pair of rail / near-rail values on the two channels of a stereo frame under
    each decorrelation (side = +-(2^bps - 1), mid at the rails), coded verbatim, fixed and with escapes"""
    out = []
    k = start_id
    for bps in (4, 8, 16, 24, 30, 31, 32):
        lo, hi = -(1 << (bps - 1)), (1 << (bps - 1)) - 1
        vals = [lo, hi, 0, -1, 1, lo + 1, hi - 1]
        L = [a for a in vals for _b in vals]
        R = [b for _a in vals for b in vals]
        bs = len(L)
        for assign in ("ls", "sr", "ms", "indep"):
            for ty in ("verbatim", "fixed0"):
                k += 1
                if ty == "verbatim" or (bps == 32 and assign != "indep"):
                    sub = lambda: {"type": "verbatim", "wasted": 0}
                else:
                    sub = lambda: {"type": "fixed", "wasted": 0, "order": 0, "method": 1, "po": 0, "params": [["esc", 31]] if bps < 31 else [["rice", 28]]}
                out.append({"id": k, "channels": 2, "bps": bps, "rate": 44100, "ratecode": "table", "bpscode": "hdr" if bps in TABLE_BPS else "si", "variable": False,
                            "total_known": True, "md5": "good", "subset": False, "class": None,
                            "frames": [{"bs": bs, "chassign": assign, "subs": [sub(), sub()], "bscode": "auto", "overlong": 0}], "pcm": [L, R]})
    # predictors on the 33-bit side channel of 32-bit audio: two smooth channels far apart (side near +-2^32) or close together, every
    # decorrelation, FIXED orders 0..4 and LPC of several orders / precisions / shifts, with and without wasted bits on the side channel
    rnd = random.Random(start_id * 7 + 33)
    for shape in ("far", "near", "crossing", "wasted1", "wasted5", "wasted16"):
        for assign in ("ls", "sr", "ms"):
            for force in ("fixed", "lpc", "lpc", "fixed"):
                bs = rnd.choice([16, 24, 33, 64])
                wsh = {"wasted1": 1, "wasted5": 5, "wasted16": 16}.get(shape, 0)
                hi = (1 << 31) - 1
                amp = rnd.choice([3, 1000, 1 << 20])
                a = (hi - bs * amp - 5) if shape in ("far", "crossing") else rnd.randint(-(1 << 20), 1 << 20)
                b = (-hi + bs * amp + 5) if shape == "far" else (a if shape != "crossing" else -a)
                L, R = [], []
                for i in range(bs):
                    a = max(-hi - 1, min(hi, a + rnd.randint(-amp, amp) + (-(amp * 2) if shape == "crossing" else 0)))
                    b = max(-hi - 1, min(hi, b + rnd.randint(-amp, amp) + ((amp * 2) if shape == "crossing" else 0)))
                    L.append((a >> wsh) << wsh)
                    R.append((b >> wsh) << wsh)
                side = [l - r for l, r in zip(L, R)]
                mid = [(l + r) >> 1 for l, r in zip(L, R)]
                vals, depths = {"ls": ([L, side], [32, 33]), "sr": ([side, R], [33, 32]), "ms": ([mid, side], [32, 33])}[assign]
                sidx = 0 if assign == "sr" else 1
                subs = [make_sub(rnd, vals[c], bs, depths[c], force=force if c == sidx else None, maxw=16 if c == sidx else 32) for c in range(2)]
                k += 1
                out.append({"id": k, "channels": 2, "bps": 32, "rate": 44100, "ratecode": "table", "bpscode": "hdr", "variable": False,
                            "total_known": True, "md5": "good", "subset": True, "class": None,
                            "frames": [{"bs": bs, "chassign": assign, "subs": subs, "bscode": "auto", "overlong": 0}], "pcm": [L, R]})
    # a signal that runs smoothly into a rail and stays there: predictors of order 2 and more overshoot the range of a sample (2 x[n-1] -
    # x[n-2] > max) while every sample and every residual fits - the prediction has no range of its own in the format
    for bps in (32, 32, 31, 24, 16):
        lo, hi = -(1 << (bps - 1)), (1 << (bps - 1)) - 1
        for rail in (hi, lo):
            for kind, order, extra in (("fixed", 2, {}), ("fixed", 3, {}), ("fixed", 4, {}),
                                       ("lpc", 2, {"precision": 4, "shift": 1, "coefs": [4, -2]}), ("lpc", 3, {"precision": 7, "shift": 4, "coefs": [48, -48, 16]}),
                                       ("lpc", 2, {"precision": 15, "shift": 13, "coefs": [16383, -8192]})):
                step = max(1, (hi // 5) if order < 4 else (hi // 12))
                sgn = 1 if rail == hi else -1
                ramp = [rail - sgn * step * (6 - i) for i in range(6)]
                pcm = ramp + [rail] * 6 + [rail - sgn * (step // 3)] + [rail] * 3
                bs = len(pcm)
                k += 1
                sub = dict({"type": kind, "wasted": 0, "order": order, "method": 1, "po": 0, "params": [["rice", min(30, bps - 2)]]}, **extra)
                out.append({"id": k, "channels": 1, "bps": bps, "rate": 44100, "ratecode": "table", "bpscode": "hdr" if bps in TABLE_BPS else "si", "variable": False,
                            "total_known": True, "md5": "good", "subset": False, "class": None,
                            "frames": [{"bs": bs, "chassign": "indep", "subs": [sub], "bscode": "auto", "overlong": 0}], "pcm": [pcm]})
    for p in out:
        del p["class"]
    return out
