"""C19: no expansion beyond verbatim + fixed overhead (SubframeChoice / Trace_Size)."""
import json
import os
import random
import time

from vlib import *
import corpus


def run(pid):
    t0 = time.time()
    t = tier()
    wd = workdir(pid)
    v = Verdict(pid)
    build_harness("release")
    states = 0
    for name, defects, fail in (("fixed", [], False), ("nofallback", ["no_verbatim_fallback"], True)):
        mp = write_text(os.path.join(wd, "MCS_%s.tla" % name), """---- MODULE MCS_%s ----
EXTENDS SubframeChoice
cDefects == %s
ASSUME PrintT(<<"STAT", "neverexpands", NeverExpands>>)
ASSUME PrintT(<<"STAT", "constanttiny", ConstantIsTiny>>)
VARIABLE x
Init == x = 0
Next == x' = x
====
""" % (name, tla_set(defects)))
        cp = write_text(os.path.join(wd, "MCS_%s.cfg" % name), "CONSTANTS\n N = 6\n Bps = 5\n MaxBits = 80\n Defects <- cDefects\nINIT Init\nNEXT Next\n")
        r = tlc(mp, cp, wd, workers=1)
        vals = dict(re.findall(r'<<"STAT", "(\w+)", (TRUE|FALSE)>>', "\n".join(tlc_lines(r["out"], "STAT"))))
        if len(vals) != 2:
            sys.stderr.write(r["out"][-2000:])
            raise ToolError("SubframeChoice evaluation failed")
        if fail and vals["neverexpands"] == "TRUE":
            raise ToolError("SubframeChoice non-vacuity: the no-fallback variant was not refuted")
        if not fail and vals != {"neverexpands": "TRUE", "constanttiny": "TRUE"}:
            raise ToolError("SubframeChoice: NeverExpands / ConstantIsTiny do not hold: %s" % vals)
        states += 2 * 5 * 73 * 73
    log("[%s] TLC: SubframeChoice NeverExpands/ConstantIsTiny hold over %d candidate-size combinations; no-fallback variant refuted" % (pid, states // 2))

    rnd = random.Random(seed() * 1019 + 19)
    jobs = []
    adversarial = ["noise", "extremes", "impulse", "ramp", "stereo", "wasted", "small", "fade", "fade64", "burst", "chanmix", "blockmix"]
    n = 260 if t == "quick" else 40000
    for i in range(n):
        ch = rnd.choice([1, 2, 2, 3, 8])
        bps = rnd.choice([1, 4, 8, 12, 16, 20, 24, 31, 32])
        bs = rnd.choice([16, 64, 192, 576, 1152, 4096])
        frames = bs * rnd.randint(1, 2) + rnd.randint(0, bs - 1)
        if frames * ch > 20000:
            frames = 20000 // ch
        jobs.append({"fe": rnd.choice(corpus.FES), "rate": 44100, "bps": bps, "channels": ch,
                     "opts": {"block_size": bs, "max_lpc": rnd.choice([-1, 1, 8, 12, 32]), "max_po": rnd.choice([0, 3, 6, 15]),
                              "mid_side": rnd.random() < 0.6, "fast_corr": rnd.random() < 0.4, "window": rnd.choice(corpus.WINDOWS),
                              "padding": -1, "seektable": "none"},
                     "pcm": {"signal": rnd.choice(adversarial), "seed": rnd.randint(1, 10 ** 6), "frames": frames}, "tag": "adversarial"})
    # constant blocks of many lengths
    for length in ([1, 2, 15, 16, 17, 100, 4096, 4097, 65535] if t == "quick" else list(range(1, 40)) + [100, 1000, 4096, 4097, 10000, 65535, 70000]):
        for sig in ("const", "zero", "constlo", "consthi", "constm1", "constpow"):
            ch = rnd.choice([1, 2, 4])
            bs = rnd.choice([16, 4096, 65535])
            jobs.append({"fe": rnd.choice(corpus.FES), "rate": 44100, "bps": rnd.choice([8, 16, 24, 32]), "channels": ch,
                         "opts": {"block_size": bs, "max_lpc": rnd.choice([-1, 8]), "max_po": rnd.choice([0, 5, 15]), "padding": -1, "seektable": "none"},
                         "pcm": {"signal": sig, "seed": rnd.randint(1, 10 ** 6), "frames": length}, "tag": "constant"})
    # ... and as ONE block of every length around the multiples of 256 (the partition coder's length-dependent shortcuts: an all-zero
    # partition of any length costs the 9-bit escape, not a bit per residual), with and without LPC to rescue the block
    for length in ([257, 258, 261, 262, 263, 513, 1029, 4098, 4100, 4102, 8193, 65281] if t == "quick"
                  else sorted(set(list(range(250, 270)) + list(range(508, 520)) + list(range(4090, 4106)) + [8193, 8197, 16389, 65281, 65285]))):
        for sig in ("const", "consthi", "constm1"):
            for lpc in (-1, 8):
                jobs.append({"fe": rnd.choice(corpus.FES), "rate": 44100, "bps": rnd.choice([8, 16, 24]), "channels": rnd.choice([1, 2]),
                             "opts": {"block_size": 65535, "max_lpc": lpc, "max_po": rnd.choice([0, 5, 15]), "padding": -1, "seektable": "none"},
                             "pcm": {"signal": sig, "seed": rnd.randint(1, 10 ** 6), "frames": length}, "tag": "constant"})
    # a constant block after a history of incompressible blocks (the choice for a block must not depend on the blocks before it)
    for bs in (16, 64, 256):
        for k in (1, 3, 8, 9, 10, 13, 17, 40):
            for ch in (1, 2):
                jobs.append({"fe": rnd.choice(corpus.FES), "rate": 44100, "bps": rnd.choice([8, 16, 24]), "channels": ch,
                             "opts": {"block_size": bs, "max_lpc": rnd.choice([-1, 8]), "max_po": rnd.choice([0, 5]), "padding": -1, "seektable": "none"},
                             "pcm": {"signal": "ntc:%d" % (k * bs), "seed": rnd.randint(1, 10 ** 6), "frames": (k + 6) * bs}, "tag": "history"})
    # loud noise no predictor gains on, with the most negative value somewhere in every block (at 32 bits the FIXED family cannot code
    # the differences it makes; whichever candidates remain must still be measured against the verbatim size)
    for bps in (32, 32, 24, 16, 8):
        for g in (16, 64, 4096):
            for pct in ((60, 71, 80, 90, 97, 100) if t == "thorough" or g < 4096 else (80, 97)):
                for pos in (0, 1, g // 2, g - 1):
                    jobs.append({"fe": rnd.choice(corpus.FES), "rate": 44100, "bps": bps, "channels": rnd.choice([1, 1, 2]),
                                 "opts": {"block_size": g, "max_lpc": rnd.choice([8, 12, 32, 1]), "max_po": rnd.choice([0, 5, 6]), "padding": -1, "seektable": "none",
                                          "window": rnd.choice(corpus.WINDOWS)},
                                 "pcm": {"signal": "loudrail:%d:%d:%d" % (g, pct, pos), "seed": rnd.randint(1, 10 ** 6), "frames": g * 2 + rnd.choice([0, 7])}, "tag": "loudrail"})
    parts = [jobs[i::8] for i in range(8)]

    def drive(ip):
        i, part = ip
        tp = os.path.join(wd, "trace_%d.ndjson" % i)
        return tp, run_drive("writer", {"out": tp, "jobs": part}, wd, tag=str(i), timeout=3000)

    outs = parallel(drive, [(i, p) for i, p in enumerate(parts) if p], n=8)
    runs = sum(o[1]["runs"] for o in outs)
    spec, cfg = os.path.join(SPEC, "Trace_Size.tla"), os.path.join(SPEC, "Trace_Size.cfg")
    nframes = 0
    worst = 0
    samples = []
    for tp, tr in parallel(lambda o: (o[0], tlc_trace(spec, cfg, o[0], wd)), outs, n=8):
        for ln in tlc_lines(tr["out"], "STAT"):
            m = re.match(r'<<"STAT", (\d+), (\d+)>>', ln)
            nframes += int(m.group(1))
            worst = max(worst, int(m.group(2)))
        recs = None
        for ln in tr["rejects"]:
            m = re.match(r'<<"REJECT", (\d+), (\d+), "([^"]*)", (.*)>>$', ln)
            line, rule, detail = int(m.group(2)), m.group(3), m.group(4)
            recs = recs or read_ndjson(tp)
            j = line - 1
            while recs[j]["ev"] != "new":
                j -= 1
            new = recs[j]
            sig = "%s rule=%s signal=%s" % (pid, rule, (new.get("tag") or ""))
            v.violation(sig, "rule %s fails (frame, size, bound = %s) for run %s" % (rule, detail, json.dumps(new)), {"trace": tp, "new": new})
        if len(samples) < 3:
            recs = recs or read_ndjson(tp)
            e = next(x for x in recs if x["ev"] == "new")
            samples.append({k: e[k] for k in ("fe", "channels", "bps", "opts", "tag")})
    # ---- raw frame streams: one FlacStreamWriter keeps its caches while depth, channels and rate change from call to call; the bound
    # is the frame's own (same block size at a narrower depth after a wider one, and the other way round)
    arrs = []
    k = 0
    for bsz in (16, 192, 4096):
        for depths in ((24, 16), (32, 8), (16, 24, 16), (20, 12, 8), (8, 16, 8), (32, 16, 32, 16)):
            for ch in (1, 2):
                k += 1
                arrs.append({"id": 300000 + k, "frames": [{"rate": 44100, "channels": ch, "bps": d, "len": bsz, "seed": 100 * k + i,
                                                           "signal": ["walk", "noise", "extremes", "noise"][i % 4] if i else "walk"} for i, d in enumerate(depths)],
                             "garbage": [[] for _ in range(len(depths) + 1)], "pred": [], "chunkings": [[]], "log_frames": False})
    sp = os.path.join(wd, "trace_stream.ndjson")
    run_drive("streamsync", {"out": sp, "arrangements": arrs}, wd, tag="stream", timeout=3000)
    trs = tlc_trace(os.path.join(SPEC, "Trace_StreamSync.tla"), os.path.join(SPEC, "Trace_StreamSync.cfg"), sp, wd, timeout=3000)
    nseq = 0
    for ln in tlc_lines(trs["out"], "NOTE"):
        m = re.match(r'<<"NOTE", "oversize", (\d+), (\d+), (\d+), (\d+)>>', ln)
        if m:
            a = next(x for x in arrs if x["id"] == int(m.group(1)))
            v.violation("%s rule=C19.frame-within-verbatim-bound stream-writer" % pid,
                        "frame %s of the stream-writer sequence %s takes %s bytes, bound %s: %s" % (m.group(2), m.group(1), m.group(3), m.group(4), json.dumps(a["frames"])[:400]),
                        {"arrangement": a})
    nseq = len(arrs)
    rc = v.finish()
    write_evidence(pid, "model_checking", {
        "states": states, "transitions": states, "traces_validated_against_impl": runs, "samples": samples, "exhaustive": False,
        "rule": "TLC evaluates SubframeChoice (selection by recorded size with verbatim fallback) over all candidate-size combinations and refutes "
                "the variant without the fallback; real runs over adversarial signals (full-scale noise, alternating extremes, impulses, ramps, "
                "correlated stereo, wasted bits) x depths 1-32 x block sizes 16-4096 x option sets and constant blocks of many lengths; frame "
                "sizes come from the EncodeBegin/FinalizeBegin byte counters and are bounded by Trace_Size",
        "frames_bounded": nframes, "worst_first_frame_percent_of_bound": worst,
        "known_findings_hit": {k: n for k, (kk, n) in v.known_hits.items()}},
        time.time() - t0, len(v.violations),
        ["TLC/SANY, CommunityModules Json", "frame sizes come from the cfg-guarded hooks", "the header allowance is 16 bytes + 40 bits per channel + CRC-16"])
    log("[%s] runs=%d frames=%d worst=%d%% of bound violations=%d known=%d wall=%.1fs" % (pid, runs, nframes, worst, len(v.violations), len(v.known_hits), time.time() - t0))
    return rc
