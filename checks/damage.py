"""C05: damaged or invalid streams are reported (Decoder / Trace_Damage / FlacFormat.MustRejectErrors)."""
import json
import os
import random
import time

from vlib import *
import plans as P
from decodechecks import generate


def base_plan(rnd, pid, known):
    """2-4 frames of 16-40 samples, 1-2 channels, 8/16/24 bit"""
    while True:
        p = P.stream_plan(rnd, pid, small=True)
        if p["channels"] <= 2 and p["bps"] in (8, 16, 24, 12, 20) and not p["variable"] and 2 <= len(p["frames"]) <= 3 \
                and all(16 <= f["bs"] <= 40 for f in p["frames"]):
            p["total_known"] = known
            p["md5"] = "good"
            return p


def run(pid):
    t0 = time.time()
    t = tier()
    wd = workdir(pid)
    v = Verdict(pid)
    build_harness("release")
    # ---- model
    states = 0
    for name, defects, fail in (("ok", [], False), ("early", ["release_before_crc16"], True)):
        mp = write_text(os.path.join(wd, "MCD_%s.tla" % name), "---- MODULE MCD_%s ----\nEXTENDS Decoder\ncDefects == %s\ncDamages == {\"header\", \"crc8\", \"inconsistent\", \"body\", \"crc16\", \"cut\"}\n====\n" % (name, tla_set(defects)))
        cp = write_text(os.path.join(wd, "MCD_%s.cfg" % name), "CONSTANTS\n NFrames = 4\n Damages <- cDamages\n Defects <- cDefects\nSPECIFICATION Spec\nINVARIANT GenuinePrefix DamageIsReported\nCHECK_DEADLOCK FALSE\n")
        if fail:
            expect_model_violation(mp, cp, wd, what="Decoder releasing samples before the CRC-16 comparison")
        else:
            r = tlc_model_check(mp, cp, wd, workers=2)
            states = r["distinct"]
    rnd = random.Random(seed() * 23 + 5)
    nbase = 4 if t == "quick" else 12
    bplans = [base_plan(rnd, i + 1, known=(i % 2 == 0)) for i in range(nbase)]
    gen = {g["id"]: g for g in generate(wd, bplans, "base", k=4) if g["ok"]}
    items = []
    for p in bplans:
        g = gen.get(p["id"])
        if not g:
            continue
        if g["selfErrs"] or not g["selfSame"]:
            raise ToolError("FlacGen / FlacFormat disagree on base plan %d" % p["id"])
        items.append({"id": p["id"], "bytes": g["bytes"], "pcm": g["pcm"], "bps": p["bps"], "channels": p["channels"], "metaLen": g["metaLen"],
                      "frameSamples": [f["bs"] for f in p["frames"]], "known": p["total_known"], "kind": "flacgen",
                      "from_bit": g["metaLen"] * 8 if t == "quick" else 8 * 8})
    # files made by the crate's own encoder
    ejobs = []
    for i in range(2 if t == "quick" else 6):
        ch = rnd.choice([1, 2])
        bps = rnd.choice([8, 16, 24])
        frames = rnd.choice([40, 50, 64])
        ejobs.append({"fe": "sample", "rate": 44100, "bps": bps, "channels": ch,
                      "opts": {"block_size": 16 if i % 2 == 0 else 24, "max_lpc": rnd.choice([-1, 4, 8]), "padding": -1, "seektable": "none"},
                      "pcm": {"signal": rnd.choice(["walk", "sine", "noise"]), "seed": rnd.randint(1, 9999), "frames": frames}, "log_bytes": True, "log_pcm": True,
                      **({"total": frames * ch} if i % 2 == 0 else {})})
    tp = os.path.join(wd, "enc.ndjson")
    run_drive("writer", {"out": tp, "jobs": ejobs}, wd, tag="enc")
    nid = 100
    for e in read_ndjson(tp):
        if e["ev"] == "new":
            new = e
        if e["ev"] == "file" and "bytes" in e:
            nid += 1
            items.append({"id": nid, "bytes": e["bytes"], "pcm": e["pcm"], "bps": new["bps"], "channels": new["channels"],
                          "metaLen": e["desc"]["frames_start"], "frameSamples": [x[1] for x in e["enc"]], "known": new["declared"] != [],
                          "kind": "encoder", "from_bit": e["desc"]["frames_start"] * 8 if t == "quick" else 8 * 8})
    # must-reject classes with valid checksums, and MD5 verdicts
    mplans = []
    src = [P.stream_plan(rnd, 1000 + i, small=True) for i in range(60 if t == "quick" else 600)]
    k = 2000
    for s in src:
        for _ in range(3):
            k += 1
            mplans.append(P.mutate(rnd, s, k))
    for s in src[:30]:
        k += 1
        q = dict(s, id=k)
        q["class"] = "md5-" + s["md5"]
        mplans.append(q)
    mplans += P.directed_malformed(k + 1000)
    mg = generate(wd, mplans, "mut", k=8)
    byp = {p["id"]: p for p in mplans}
    for g in mg:
        p = byp[g["id"]]
        if not g["ok"] or not g["bytes"]:
            continue
        it = {"id": g["id"], "bytes": g["bytes"], "pcm": g["pcm"], "bps": p["bps"], "channels": p["channels"], "metaLen": g["metaLen"],
              "frameSamples": [f["bs"] for f in p["frames"]], "known": p.get("total_known", True), "kind": "explicit", "explicit": True,
              "class": p.get("class", "")}
        if p.get("class", "").startswith("md5-"):
            it["md5mode"] = p["md5"]
        items.append(it)
    parts = [items[i::8] for i in range(8)]

    def drive(ip):
        i, part = ip
        tp_ = os.path.join(wd, "trace_%d.ndjson" % i)
        return tp_, run_drive("damage", {"out": tp_, "items": part}, wd, tag=str(i), timeout=3000)

    outs = parallel(drive, [(i, p) for i, p in enumerate(parts) if p], n=8)
    nd = sum(o[1]["runs"] for o in outs)
    spec, cfg = os.path.join(SPEC, "Trace_Damage.tla"), os.path.join(SPEC, "Trace_Damage.cfg")
    ends = {}
    distinct = 0
    for tp_, tr in parallel(lambda o: (o[0], tlc_trace(spec, cfg, o[0], wd, timeout=3000)), outs, n=8):
        recs = read_ndjson(tp_)
        for e in recs:
            if e["ev"] == "dmg":
                kk = e["kind"].split("+")[0] if e["kind"] in ("flip", "cut") else "class"
                ends[kk + ":" + e["end"]] = ends.get(kk + ":" + e["end"], 0) + 1
                distinct += 1
        for ln in tr["rejects"]:
            m = re.match(r'<<"REJECT", (\d+), (\d+), "([^"]*)", (.*)>>$', ln, re.S)
            line, rule, detail = int(m.group(2)), m.group(3), m.group(4)
            e = recs[line - 1]
            slim = {k: e[k] for k in e if k not in ("bytes", "data")}
            kind = e.get("kind", "")
            sig = "%s rule=%s kind=%s reader=%s" % (pid, rule, kind if kind in ("flip", "cut") else "class:" + kind, e.get("reader", ""))
            v.violation(sig, "rule %s fails: %s ; %s" % (rule, json.dumps(slim), detail[:300]), {"trace": tp_, "event": slim, "bytes": e.get("bytes")})
    # ---- the residual reader alone over hand-made partition headers (no checksum in the way): a predictor order that exceeds the
    # partition length must be refused, whatever the bytes that follow look like (PartitionLayout.RfcLayout)
    rp = os.path.join(wd, "trace_rawres.ndjson")
    rawn = run_drive("residuals", {"out": rp, "raw_max_bs": 40 if t == "quick" else 160, "sizes": [], "maxpos": []}, wd, tag="rawres")["runs"]
    trc = write_text(os.path.join(wd, "Trace_Residuals.cfg"), "CONSTANTS\n MaxBs = 0\n MaxOrder = 0\n MaxPoOpt = 0\n MaxPartitions = 64\n Defects = {}\n BigBs = {}\n"
                     "SPECIFICATION Spec\nPOSTCONDITION Post\nCHECK_DEADLOCK FALSE\n")
    tr = tlc_trace(os.path.join(SPEC, "Trace_Residuals.tla"), trc, rp, wd)
    rawrecs = None
    for ln in tr["rejects"]:
        m = re.match(r'<<"REJECT", (\d+), (\d+), "([^"]*)", (.*)>>$', ln, re.S)
        rawrecs = rawrecs or read_ndjson(rp)
        e = rawrecs[int(m.group(2)) - 1]
        v.violation("%s rule=%s" % (pid, m.group(3)), "rule %s fails for the residual reader on block %d, predictor order %d, partition order %d: %s" % (
            m.group(3), e["bs"], e["order"], e["po"], json.dumps(e)), {"event": e})
    for ln in tr["drifts"][:3]:
        log("SPEC-DRIFT module=PartitionLayout " + ln[:200])
    rc = v.finish()
    write_evidence(pid, "fault_enumeration", {
        "evaluations": distinct, "distinct_nontrivial": distinct,
        "rule": "for each base file (valid streams from FlacGen and files from the crate's encoder, known / unknown totals) EVERY single-bit flip "
                "from the first frame on [thorough: from STREAMINFO on] and EVERY truncation length is decoded by the sample and byte readers; plus "
                "must-reject classes made by FlacGen with valid checksums and MD5 verdict cases; each damaged decode is distinct (position x "
                "reader). TLC judges: error => genuine whole-frame prefix; no error => the damaged bytes must be another valid stream "
                "(FlacFormat.MustRejectErrors = {}) decoding to exactly what was delivered",
        "samples": [{"id": it["id"], "kind": it["kind"], "len": len(it["bytes"]), "frames": it["frameSamples"]} for it in items[:4]],
        "exhaustive": True, "outcomes": ends, "base_files": len([i for i in items if not i.get("explicit")]),
        "states": states, "transitions": states, "traces_validated_against_impl": nd,
        "known_findings_hit": {k: n for k, (kk, n) in v.known_hits.items()}},
        time.time() - t0, len(v.violations),
        ["TLC/SANY, CommunityModules", "FlacFormat decides whether damaged bytes form another valid stream",
         "the reserved header bit, padding bits and a partition order not dividing the block are not required to be rejected (leniencies)"])
    log("[%s] damaged decodes=%d outcomes=%s violations=%d known=%d wall=%.1fs" % (pid, distinct, ends, len(v.violations), len(v.known_hits), time.time() - t0))
    return rc
