"""C16: raw frame streams (StreamSync / Gen_StreamSync / Trace_StreamSync)."""
import json
import os
import random
import time

from vlib import *

G_QUICK = [[], ["x"], ["FF"], ["S"], ["FF", "S"], ["S", "FF"], ["FF", "FF"], ["x", "FF"], ["FF", "x"], ["FF", "S", "x"], ["x", "FF", "S"],
           ["FF", "FF", "S"], ["FF", "S", "FF"], ["FF", "S", "x", "x", "x", "x"]]


def gtla(gs):
    return "{" + ", ".join(tla_seq(g) for g in gs) + "}"


def run(pid):
    t0 = time.time()
    t = tier()
    wd = workdir(pid)
    v = Verdict(pid)
    build_harness("release")
    gs = G_QUICK
    consts = "CONSTANTS\n NFrames = %d\n FrameLen = 6\n HeaderLen = 4\n GarbageStrings <- cG\n Defects <- cD\n MaxFaults = 0\n"
    INV = "INVARIANT InOrderSubsequence OnlyWrittenFrames SyncFreeGarbageCostsNothing ErrorsPropagated LossesAreReported\n"
    mp = write_text(os.path.join(wd, "MCSS.tla"), "---- MODULE MCSS ----\nEXTENDS StreamSync\ncG == %s\ncD == {}\n====\n" % gtla(gs))
    cp = write_text(os.path.join(wd, "MCSS.cfg"), consts % 3 + "SPECIFICATION Spec\n" + INV + "CHECK_DEADLOCK FALSE\n")
    r = tlc_model_check(mp, cp, wd, workers=8)
    states, trans = r["distinct"], r["generated"]
    # the source may answer refills with errors (Interrupted / transient): 2 frames, up to 2 such answers; the two ways of mishandling
    # them are refuted (non-vacuity)
    small = gs[:8]
    for name, defects, fail in (("MCSF", [], False), ("NVSI", ["interrupted_rescans"], True), ("NVSE", ["header_io_error_swallowed"], True)):
        mpf = write_text(os.path.join(wd, name + ".tla"), "---- MODULE %s ----\nEXTENDS StreamSync\ncG == %s\ncD == %s\n====\n" % (name, gtla(small), tla_set(defects)))
        cpf = write_text(os.path.join(wd, name + ".cfg"), (consts % 2).replace("MaxFaults = 0", "MaxFaults = 2") + "SPECIFICATION Spec\n" + INV + "CHECK_DEADLOCK FALSE\n")
        if fail:
            expect_model_violation(mpf, cpf, wd, what="StreamSync with " + defects[0])
        else:
            rf = tlc_model_check(mpf, cpf, wd, workers=8)
            states += rf["distinct"]
            trans += rf["generated"]
    log("[%s] TLC: StreamSync %d states, %d transitions (3 frames, %d garbage strings in each of 4 gaps; 2 frames with up to 2 source errors); "
        "interrupted-rescans and swallowed-header-error variants refuted" % (pid, states, trans, len(gs)))
    # generator: 2 frames, all garbage combinations (14^3) in quick; 3 frames sampled in thorough
    nfr = 2
    gp = write_text(os.path.join(wd, "GSS.tla"), "---- MODULE GSS ----\nEXTENDS Gen_StreamSync\ncG == %s\ncD == {}\n====\n" % gtla(gs))
    gc = write_text(os.path.join(wd, "GSS.cfg"), consts % nfr + "SPECIFICATION GSpec\nINVARIANT Emit\nCHECK_DEADLOCK FALSE\n")
    g = tlc(gp, gc, wd, workers=1, timeout=1200)
    raw = gen_payloads(g["out"])
    if not raw:
        raise ToolError("no arrangements generated")
    # group the possible outcomes per arrangement (the model is nondeterministic in how much a failed header attempt eats)
    grouped = {}
    for a in raw:
        grouped.setdefault(json.dumps(a["garbage"]), {"garbage": a["garbage"], "pred": []})
        if a["pred"] not in grouped[json.dumps(a["garbage"])]["pred"]:
            grouped[json.dumps(a["garbage"])]["pred"].append(a["pred"])
    arrs = list(grouped.values())
    rnd = random.Random(seed() * 37 + 16)
    # (every table rate; the edges of the kHz / Hz / tens-of-Hz codings incl. rates that have a shorter coding than the one the writer picks)
    rates = [8000, 16000, 22050, 24000, 32000, 44100, 48000, 88200, 96000, 176400, 192000, 1000, 254000, 255000, 256000, 12345, 65534, 65540, 655340, 7,
             10, 1, 11025, 37800, 64000, 352800, 100000, 65530, 2000, 300000]
    if t == "quick":
        rnd.shuffle(arrs)
        arrs = arrs[:900]

    def frame(i):
        return {"rate": rnd.choice(rates), "channels": rnd.choice([1, 2, 2, 3, 8]), "bps": rnd.choice([8, 12, 16, 20, 24, 32]),
                "len": rnd.choice([1, 5, 16, 17, 64, 192]), "seed": rnd.randint(1, 10 ** 6), "signal": rnd.choice(["walk", "noise", "sine", "const", "panfirst", "panlast", "chanmix", "anti", "wasted", "stereo", "stereo"])}

    arrangements = []
    for i, a in enumerate(arrs):
        arrangements.append({"id": i + 1, "frames": [frame(k) for k in range(nfr)], "garbage": a["garbage"], "pred": a["pred"],
                             "chunkings": [[], [1], [2], [3, 1, 7]] if i % 5 else [[], [1], [2], [3], [5], [7, 1], [64]], "log_frames": i % 20 == 0})
    # one writer, a history of correlated stereo frames, under every option variant (ids 200000.. cycle through id % 7): state the
    # writer keeps between frames (correlation buffers, caches) must not leak from one frame into the next
    for k in range(21):
        frs = []
        for j, (ch, bps, ln, sig) in enumerate(((2, 16, 64, "stereo"), (2, 16, 192, "stereo"), (1, 8, 17, "walk"), (2, 24, 64, "stereo"), (2, 8, 20, "stereo"), (2, 16, 64, "chanmix"))):
            frs.append({"rate": rnd.choice(rates), "channels": ch, "bps": bps, "len": ln + (k % 3), "seed": 1000 * k + j, "signal": sig})
        arrangements.append({"id": 200000 + k, "frames": frs, "garbage": [[] for _ in range(len(frs) + 1)], "pred": [],
                             "chunkings": [[], [3, 1, 7]], "log_frames": k < 7})
    # ... and digital silence / constants in the same channel slot at changing depths and channel counts (ids 200100..)
    for k in range(14):
        frs = []
        for j, (ch, bps, ln, sig) in enumerate(((2, 16, 32, "zero"), (2, 24, 32, "zero"), (1, 8, 17, "zero"), (2, 8, 32, "zero"), (2, 32, 20, "stereo"), (2, 12, 32, "zero"),
                                                (2, 16, 32, "gapmix:8"), (2, 20, 32, "zero"), (3, 16, 16, "const"), (3, 24, 16, "const"))):
            frs.append({"rate": rnd.choice(rates), "channels": ch, "bps": bps, "len": ln + (k % 2), "seed": 3000 * k + j, "signal": sig})
        arrangements.append({"id": 200100 + k, "frames": frs, "garbage": [[] for _ in range(len(frs) + 1)], "pred": [],
                             "chunkings": [[], [5]], "log_frames": k < 7, "sessions": [len(frs)]})
    # a source that answers one refill with Interrupted / a transient error: every refill of the fault-free run in turn, tiny frames,
    # buffer sizes that cut inside the sync code, clean and sync-free-garbage concatenations (ids 300000..)
    for k in range(6 if t == "quick" else 40):
        nfr_ = rnd.randint(2, 4)
        frs = [{"rate": rnd.choice(rates), "channels": rnd.choice([1, 2]), "bps": rnd.choice([8, 16]), "len": rnd.choice([1, 2, 5]), "seed": 5000 * k + j,
                "signal": rnd.choice(["walk", "noise", "zero"])} for j in range(nfr_)]
        garb = [[] if k % 2 == 0 else [rnd.choice(["x", "S", "x"]) for _ in range(rnd.randint(0, 3))] for _ in range(nfr_ + 1)]
        arrangements.append({"id": 300000 + k, "frames": frs, "garbage": garb, "pred": [], "chunkings": [[1], [2], [3], [5, 1]], "log_frames": False,
                             "fault_sweep": True, **({"sessions": [nfr_]} if k % 3 == 0 else {})})
    # impl -> spec: long clean and dirty concatenations with random garbage bytes (pred unknown: <<-1>>)
    toks = ["FF", "S", "x", "x", "x"]
    for i in range(60 if t == "quick" else 8000):
        n = rnd.randint(20, 50) if i % 2 else rnd.randint(3, 8)
        clean = i % 3 == 0
        garbage = []
        for k in range(n + 1):
            if clean:
                garbage.append([])
            else:
                gstr = [rnd.choice(toks) for _ in range(rnd.randint(0, 6))]
                if i % 3 == 1:
                    # no sync look-alikes: break every FF S pair
                    gstr = [x for j, x in enumerate(gstr) if not (x == "S" and j > 0 and gstr[j - 1] == "FF")]
                garbage.append(gstr)
        arrangements.append({"id": 100000 + i, "frames": [frame(k) for k in range(n)], "garbage": garbage, "pred": [],
                             "chunkings": [[], [1], [rnd.randint(2, 9), rnd.randint(1, 40)]], "log_frames": i < (6 if t == "quick" else 400)})
        if i % 4 != 3:
            # several writers in turn on the same sink (an encoder restarted on a live feed): frame numbers 0, 1, 2, 0, 1, ...
            arrangements[-1]["sessions"] = [[3, 2], [1, 4, 2], [2]][i % 4]
            arrangements[-1]["log_frames"] = False
    parts = [arrangements[i::8] for i in range(8)]

    def drive(ip):
        i, part = ip
        tp = os.path.join(wd, "trace_%d.ndjson" % i)
        return tp, run_drive("streamsync", {"out": tp, "arrangements": part}, wd, tag=str(i), timeout=3000)

    outs = parallel(drive, [(i, p) for i, p in enumerate(parts) if p], n=8)
    spec, cfg = os.path.join(SPEC, "Trace_StreamSync.tla"), os.path.join(SPEC, "Trace_StreamSync.cfg")
    nruns = drift = nframes_checked = growth = 0
    for tp, tr in parallel(lambda o: (o[0], tlc_trace(spec, cfg, o[0], wd, timeout=3000)), outs, n=8):
        recs = read_ndjson(tp)
        nruns += sum(1 for e in recs if e["ev"] == "arr")
        nframes_checked += sum(1 for e in recs if e["ev"] == "frame")
        for e in recs:
            if e["ev"] == "writefail":
                raise ToolError("stream writer refused a frame the driver considers valid: " + json.dumps(e))
        for ln in tr["rejects"]:
            m = re.match(r'<<"REJECT", (\d+), (\d+), "([^"]*)"(.*)>>$', ln, re.S)
            line, rule = int(m.group(2)), m.group(3)
            e = recs[line - 1]
            slim = {k: e[k] for k in e if k not in ("bytes", "samples")}
            if rule.startswith("growth."):
                # beyond C16's statement (the clause is C13's, gated there): reported, never a violation of this check
                growth += 1
                log("GROWTH-SPEC-MISMATCH %s: %s" % (rule, json.dumps(slim)[:300]))
                continue
            sig = "%s rule=%s %s" % (pid, rule, "chunked" if slim.get("chunks") else "unchunked")
            v.violation(sig, "rule %s fails: %s" % (rule, json.dumps(slim)[:700]), {"trace": tp, "event": slim})
        drift += len(tr["drifts"])
        for ln in tr["drifts"][:2]:
            log("SPEC-DRIFT module=StreamSync " + ln[:300])
    rc = v.finish()
    write_evidence(pid, "model_checking", {
        "states": states, "transitions": trans, "traces_validated_against_impl": nruns, "exhaustive": True,
        "samples": [{k: a[k] for k in ("garbage", "pred", "chunkings")} for a in arrangements[:3]],
        "rule": "TLC explores StreamSync (3 frames, 14 garbage strings over {FF, sync-second-half, other} in each gap: all 14^4 arrangements) and "
                "checks InOrderSubsequence / OnlyWrittenFrames / SyncFreeGarbageCostsNothing; every arrangement of the 2-frame generator "
                "(sampled in quick) is rendered with real FlacStreamWriter frames of independently varying rate / channels / depth / length and "
                "read back under several segmentations of the buffered source incl. 1-byte buffers (a split inside the sync code); plus long "
                "clean / sync-free / dirty concatenations; emitted frames are decoded from their own header by FlacFormat",
        "frames_checked_by_format_model": nframes_checked, "spec_drift_notes": drift, "growth_mismatches": growth,
        "source_fault_runs": sum(1 for a in arrangements if a.get("fault_sweep")),
        "known_findings_hit": {k: n for k, (kk, n) in v.known_hits.items()}},
        time.time() - t0, len(v.violations),
        ["TLC/SANY, CommunityModules", "frame payload bytes that happen to look like a sync code are not modelled (only matters after sync was lost)"])
    log("[%s] arrangements=%d reads=%d drift=%d violations=%d known=%d wall=%.1fs" % (pid, len(arrangements), nruns, drift, len(v.violations), len(v.known_hits), time.time() - t0))
    return rc
