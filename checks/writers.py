"""C08 (composition independence), C09 (truthful STREAMINFO/SEEKTABLE), C15 (parameter validation, length contract)."""
import itertools
import json
import os
import random
import time

from vlib import *

TW = os.path.join(SPEC, "Trace_Writer.tla")
TWC = os.path.join(SPEC, "Trace_Writer.cfg")
FES = ["byte-le", "byte-be", "sample", "channel"]


def upf_of(fe, ch, bps):
    if fe.startswith("byte"):
        return ch * ((bps + 7) // 8)
    return ch if fe == "sample" else 1


def mc_writer(wd, name, base, upf, bs, maxu, declared, defects=(), spec="Spec", extra=""):
    mp = write_text(os.path.join(wd, name + ".tla"), """---- MODULE %s ----
EXTENDS %s
cDeclared == %d
cDefects == %s
cSizes == 1..%d
====
""" % (name, base, declared, tla_set(list(defects)), maxu))
    cp = write_text(os.path.join(wd, name + ".cfg"), """CONSTANTS
 UPF = %d
 BS = %d
 MaxUnits = %d
 WriteSizes <- cSizes
 Declared <- cDeclared
 Defects <- cDefects
SPECIFICATION %s
%s
CHECK_DEADLOCK FALSE
""" % (upf, bs, maxu, spec, extra))
    return mp, cp


INV_W = "INVARIANT Deterministic NoPanic UndeclaredSucceeds LengthContract OverfillReported Draining"


def validate(pid, traces, wd, v, stats, sig_extra=None):
    def one(tp):
        return tp, tlc_trace(TW, TWC, tp, wd, env={"PROP": pid})

    for tp, tr in parallel(one, traces, n=8):
        recs = None
        for ln in tr["rejects"]:
            m = re.match(r'<<"REJECT", (\d+), (\d+), "(.*)">>$', ln)
            run_id, line, rule = int(m.group(1)), int(m.group(2)), m.group(3)
            if recs is None:
                recs = read_ndjson(tp)
            # collect the run's events
            j = line - 1
            i = j
            while i > 0 and recs[i].get("ev") != "new":
                i -= 1
            evs = [{k: x[k] for k in x if k not in ("bytes", "pcm")} for x in recs[i:j + 1]]
            new = evs[0]
            fin = next((e for e in evs if e.get("ev") == "finalize"), {})
            sig = "%s rule=%s fe=%s fin=%s" % (pid, rule, new.get("fe", "").split("-")[0], fin.get("ret", new.get("ret")))
            loc = fin.get("loc") or new.get("loc") or next((e.get("loc") for e in evs if e.get("ev") == "panic"), None)
            if loc:
                sig += " panic@" + loc
            if sig_extra:
                sig += sig_extra(new, evs)
            v.violation(sig, "rule %s fails for run %d (%s line %d): new=%s finalize=%s" % (
                rule, run_id, os.path.basename(tp), line, json.dumps({k: new[k] for k in new if k != "opts"} | {"opts": new.get("opts")}),
                json.dumps(fin)), {"trace": tp, "events": evs[-8:], "job_tag": new.get("tag")})
        stats["drift"] += len(tr["drifts"])
        for ln in tr["drifts"][:2]:
            log("SPEC-DRIFT module=Writer " + ln[:300])


def pcm_spec(signal, seed, frames):
    return {"signal": signal, "seed": seed, "frames": frames}


def frame_volume_jobs(t, rnd, base_id):
    """frames whose sample count (channels x block length) sits around 2^16 / bytes-per-sample and 2^16 itself, for every byte width: the same
    content through all four front ends (one group each: same bytes; C09 checks the MD5 in STREAMINFO against the PCM)"""
    jobs = []
    shapes = [(24, 6, 4096), (24, 8, 4096), (24, 2, 10923), (24, 2, 10922), (24, 1, 21846), (24, 1, 21845), (20, 3, 7282), (17, 8, 2731),
              (16, 1, 32768), (16, 2, 16384), (16, 1, 32769), (16, 8, 4608), (12, 2, 16385), (8, 1, 65535), (8, 8, 8192), (4, 2, 32768),
              (32, 1, 16384), (32, 1, 16385), (32, 2, 8192), (32, 8, 4096)]
    if t == "quick":
        shapes = shapes[:6] + rnd.sample(shapes[6:], 5)
    for i, (bps, ch, bs) in enumerate(shapes):
        frames = bs * 2 + rnd.choice([0, 1, 77])
        sig = rnd.choice(["walk", "noise", "sine"])
        for fe in FES:
            jobs.append({"fe": fe, "rate": 44100, "bps": bps, "channels": ch, "opts": {"block_size": bs, "max_lpc": -1, "max_po": 0, "seektable": "none", "padding": -1},
                         "pcm": pcm_spec(sig, base_id + i, frames), "writes": [frames * upf_of(fe, ch, bps)], "pcm_id": base_id + i, "opts_id": 9,
                         "tag": "frame-volume"})
    return jobs


# =============================================================================== C08
def run_c08(pid):
    t0 = time.time()
    t = tier()
    wd = workdir(pid)
    v = Verdict(pid)
    build_harness("release")
    stats = dict(drift=0)
    states = trans = 0
    # ---- model checks: all compositions, three unit sizes, declared / undeclared
    mcs = []
    for upf in (1, 2, 4, 6):
        for decl in (-1, 2, 3):
            mcs.append(mc_writer(wd, "MCW_%d_%d" % (upf, decl + 1), "Writer", upf, 2, 10 if t == "quick" else 12, decl, extra=INV_W))
    res = parallel(lambda mc: tlc_model_check(mc[0], mc[1], wd, workers=2), mcs, n=6)
    for r in res:
        states += r["distinct"]
        trans += r["generated"]
    mp, cp = mc_writer(wd, "NVW", "Writer", 4, 2, 8, -1, defects=("tail_zero_frame",), extra=INV_W)
    expect_model_violation(mp, cp, wd, what="Writer with the finalize tail defect")
    log("[%s] TLC: %d Writer configurations, %d states, %d transitions; defect model refuted" % (pid, len(mcs), states, trans))

    # ---- generated compositions replayed on the real writers
    jobs = []
    gid = 0
    nseq = 0
    samples = []
    for (ch, bps) in ((1, 8), (2, 16), (2, 8), (1, 24), (3, 16)):
        for fe in FES:
            upf = upf_of(fe, ch, bps)
            maxu = 10 if t == "quick" else 12
            if fe == "channel":
                maxu = 6
            gm, gc = mc_writer(wd, "GW_%d_%d_%s" % (ch, bps, fe.replace("-", "")), "Gen_Writer", upf, 16, maxu, -1,
                               spec="GSpec", extra="INVARIANT Emit")
            g = tlc(gm, gc, wd, workers=1)
            comps = gen_payloads(g["out"])
            if not comps:
                raise ToolError("no compositions generated")
            nseq += len(comps)
            if len(samples) < 3:
                samples.append({"fe": fe, "channels": ch, "bps": bps, "composition": comps[len(comps) // 2]})
            for c in comps:
                frames = 40
                jobs.append({"fe": fe, "rate": 44100, "bps": bps, "channels": ch, "opts": {"block_size": 16, "seektable": {"frames": 2}},
                             "pcm": pcm_spec("walk", 100 + ch * 7 + bps, frames), "writes": c["writes"],
                             "pcm_id": ch * 100 + bps, "opts_id": 1, "tag": "gen",
                             # every other stereo 16-bit run goes through the CD-DA convenience constructor: same group, same bytes
                             "cdda": ch == 2 and bps == 16 and len(jobs) % 2 == 1,
                             # every third channel-writer run also makes calls that must be refused (unequal channel lengths) on the way
                             **({"refuse_before": [k for k in range(len(c["writes"])) if k % 2 == 1 or len(c["writes"]) == 1]}
                                if fe == "channel" and ch >= 2 and len(jobs) % 3 == 0 else {}),
                             # every third byte-writer run flushes (std::io::Write::flush) after some of its writes
                             **({"flush_after": [k for k in range(len(c["writes"])) if k % 2 == 0]} if fe.startswith("byte") and len(jobs) % 3 == 1 else {})})
    # ---- every single split point, inputs of 2.5 blocks, all front ends
    rnd = random.Random(seed() * 31 + 8)
    for (ch, bps, frames) in ((1, 16, 40), (2, 16, 40), (2, 24, 33)) + (((4, 8, 47), (8, 32, 35), (1, 12, 48)) if t == "thorough" else ()):
        pid_ = 1000 + ch * 100 + bps
        for fe in FES:
            upf = upf_of(fe, ch, bps)
            total = frames * upf
            jobs.append({"fe": fe, "rate": 48000, "bps": bps, "channels": ch, "opts": {"block_size": 16}, "pcm": pcm_spec("sine", pid_, frames),
                         "writes": [total], "pcm_id": pid_, "opts_id": 2, "tag": "oneshot"})
            for k in range(1, total):
                jobs.append({"fe": fe, "rate": 48000, "bps": bps, "channels": ch, "opts": {"block_size": 16}, "pcm": pcm_spec("sine", pid_, frames),
                             "writes": [k, total - k], "pcm_id": pid_, "opts_id": 2, "tag": "split"})
            # partial trailing PCM frame: hand in k extra units beyond the whole frames
            for extra in range(1, upf):
                jobs.append({"fe": fe, "rate": 48000, "bps": bps, "channels": ch, "opts": {"block_size": 16},
                             "pcm": pcm_spec("sine", pid_, frames + 1), "writes": [total + extra], "pcm_id": pid_, "opts_id": 2,
                             "tag": "partial"})
    # ---- random chunkings of larger inputs, default-ish options, repeated (run-to-run determinism)
    nbig = 6 if t == "quick" else 40
    for i in range(nbig):
        ch = rnd.choice([1, 2, 2, 3, 6, 8])
        bps = rnd.choice([8, 16, 16, 24, 20, 32])
        bs = rnd.choice([16, 64, 256, 1152])
        frames = bs * rnd.randint(2, 5) + rnd.randint(0, bs - 1)
        opts = {"block_size": bs, "max_lpc": rnd.choice([-1, 4, 8, 12]), "mid_side": rnd.random() < 0.5, "fast_corr": rnd.random() < 0.5}
        pidn = 5000 + i
        for rep in range(2):
            for fe in FES:
                upf = upf_of(fe, ch, bps)
                total = frames * upf
                cuts = sorted(rnd.sample(range(1, total), min(total - 1, rnd.randint(0, 12))))
                writes = [b - a for a, b in zip([0] + cuts, cuts + [total])]
                jobs.append({"fe": fe, "rate": 44100, "bps": bps, "channels": ch, "opts": opts,
                             "pcm": pcm_spec(rnd.choice(["walk", "sine", "noise", "stereo"]) if rep == 0 and fe == FES[0] else None, 0, frames),
                             "writes": writes, "pcm_id": pidn, "opts_id": 3, "tag": "random"})
        # all runs of the group must use the same signal
        sig = next(j["pcm"]["signal"] for j in jobs if j["pcm_id"] == pidn and j["pcm"]["signal"])
        for j in jobs:
            if j["pcm_id"] == pidn:
                j["pcm"] = pcm_spec(sig, pidn, frames)
    jobs += frame_volume_jobs(t, rnd, 7000)
    # every 40th run is repeated through the path-taking constructor over an existing, longer file
    for i, j in enumerate(jobs):
        if i % 40 == 7:
            j["path_dir"] = wd
    # shuffle so that "first run of a group" is not always the one-shot reference
    rnd.shuffle(jobs)
    chunks = [jobs[i::8] for i in range(8)]
    # groups must stay within one trace: partition by group key instead
    bykey = {}
    for j in jobs:
        bykey.setdefault((j["pcm_id"], j["opts_id"]), []).append(j)
    parts = [[] for _ in range(8)]
    for i, k in enumerate(sorted(bykey)):
        parts[i % 8].extend(bykey[k])
    # ---- the file depends on nothing else: encoders used one after the other in the same process and thread, with option sets that
    # differ in one setting (window, LPC order, correlation, partition order) over the same input and block length, in an order in
    # which every variant runs first, right after every other variant, and right after itself; plus a shorter stream in between
    hist = []
    base = {"block_size": 256, "max_lpc": 8, "mid_side": True, "fast_corr": False, "window": "tukey"}
    variants = [dict(base), dict(base, window="hann"), dict(base, window="rect"), dict(base, window="tukey:0.25"), dict(base, max_lpc=12),
                dict(base, max_lpc=-1), dict(base, mid_side=False), dict(base, fast_corr=True), dict(base, max_po=0)]
    for hi, (ch, bps, frames) in enumerate(((1, 16, 256 * 3), (2, 16, 256 * 3), (2, 24, 256 * 2 + 7))):     # whole blocks: the last block analysed has the length of the next first one
        order = []
        nv = len(variants)
        for a in range(nv):                       # a, b, a for every ordered pair: each variant is met fresh, after itself and after each other
            for b in range(nv):
                order += [a, b]
        order = order + order[::-1]
        if t == "quick":
            order = order[hi::3][:70] + list(range(nv)) + list(range(nv))[::-1]
        fe = FES[hi % len(FES)]
        for n_, vi in enumerate(order):
            hist.append({"fe": fe, "rate": 44100, "bps": bps, "channels": ch, "opts": variants[vi], "pcm": pcm_spec(("hitone", "periodic:7", "altdecay:3")[hi], 9100 + hi, frames),
                         "writes": [frames * upf_of(fe, ch, bps)], "pcm_id": 9100 + hi, "opts_id": 100 + vi, "tag": "history"})
            if n_ % 5 == 4:                       # another stream of another length in between
                hist.append({"fe": fe, "rate": 44100, "bps": bps, "channels": ch, "opts": variants[(vi + 3) % nv], "pcm": pcm_spec("hitone", 9200 + hi, 300),
                             "writes": [300 * upf_of(fe, ch, bps)], "pcm_id": 9200 + hi, "opts_id": 100 + (vi + 3) % nv, "tag": "history"})
    parts.append(hist)
    traces = []

    def drive(ip):
        i, part = ip
        tp = os.path.join(wd, "trace_%d.ndjson" % i)
        return tp, run_drive("writer", {"out": tp, "jobs": part}, wd, tag=str(i))

    outs = parallel(drive, [(i, p) for i, p in enumerate(parts) if p], n=9)
    runs = sum(o[1]["runs"] for o in outs)
    events = sum(o[1]["events"] for o in outs)
    validate(pid, [o[0] for o in outs], wd, v, stats)
    rc = v.finish()
    write_evidence(pid, "model_checking", {
        "states": states, "transitions": trans, "traces_validated_against_impl": runs, "samples": samples, "exhaustive": True,
        "rule": "TLC: all compositions of <= %d units into write calls for 4 unit sizes x declared/undeclared totals (Writer.tla invariants); "
                "every TLC-generated composition, every single split point of 2.5-block inputs, partial trailing frames and seeded random "
                "chunkings (each twice) are run through all front-ends; Trace_Writer requires identical bytes within each (content, options) group"
                % (10 if t == "quick" else 12),
        "generated_compositions": nseq, "events_validated": events, "spec_drift_notes": stats["drift"],
        "known_findings_hit": {k: n for k, (kk, n) in v.known_hits.items()}},
        time.time() - t0, len(v.violations),
        ["TLC/SANY, CommunityModules Json", "file equality is compared by (length, MD5) of the finished file, MD5 computed by the md5 crate in the harness"])
    log("[%s] runs=%d events=%d drift=%d violations=%d known=%d wall=%.1fs" % (pid, runs, events, stats["drift"], len(v.violations), len(v.known_hits), time.time() - t0))
    return rc


# =============================================================================== C09
def mc_encoder(wd, name, defects=(), maxframes=5):
    mp = write_text(os.path.join(wd, name + ".tla"), """---- MODULE %s ----
EXTENDS Encoder
cIntervals == {<<"off", 0>>, <<"frames", 1>>, <<"frames", 2>>, <<"frames", 3>>, <<"samples", 1>>, <<"samples", 2>>, <<"samples", 3>>, <<"samples", 5>>}
cDeclared == {-1, 1, 2, 3, 4, 7, 8, 9}
cPadding == {-1, 0, 21, 22, 23, 39, 40, 41, 57, 58, 75, 76, 200}
cDefects == %s
====
""" % (name, tla_set(list(defects))))
    cp = write_text(os.path.join(wd, name + ".cfg"), """CONSTANTS
 BS = 2
 MaxFrames = %d
 FrameBytes = {1, 2}
 DeclaredSet <- cDeclared
 IntervalSet <- cIntervals
 PaddingSet <- cPadding
 ExtraSet = {0, 14}
 MaxPoints = 3
 Defects <- cDefects
SPECIFICATION Spec
INVARIANT Truthful HeaderRewriteIsNeutral NoPanic Regenerates
CHECK_DEADLOCK FALSE
""" % maxframes)
    return mp, cp


def run_c09(pid):
    t0 = time.time()
    t = tier()
    wd = workdir(pid)
    v = Verdict(pid)
    build_harness("release")
    stats = dict(drift=0)
    mp, cp = mc_encoder(wd, "MCE", maxframes=5 if t == "quick" else 6)
    r = tlc_model_check(mp, cp, wd, workers=8)
    states, trans = r["distinct"], r["generated"]
    mp2, cp2 = mc_encoder(wd, "NVE", defects=("carve_unwrap",))
    expect_model_violation(mp2, cp2, wd, what="Encoder with the carve unwrap defect")
    log("[%s] TLC: Encoder grid %d states, %d transitions; defect model refuted" % (pid, states, trans))

    rnd = random.Random(seed() * 97 + 9)
    jobs = []
    frames_l = [1, 15, 16, 17, 32, 40, 96]
    intervals = ["none", {"frames": 1}, {"frames": 2}, {"frames": 3}, {"seconds": 1}, {"seconds": 2}, None]
    rates = [8, 20, 40, 44100]
    paddings = [-1, 0, 17, 18, 21, 22, 23, 39, 40, 41, 57, 58, 59, 75, 76, 77, 111, 112, 113, 4096, None]
    extras = [[], [{"app": 10}], [{"tags": 2}], [{"app": 3}, {"tags": 1}], [{"pad": 30}]]
    grid = list(itertools.product(frames_l, intervals, [True, False], paddings, extras, [0, 5]))
    rnd.shuffle(grid)
    n = 700 if t == "quick" else 6000
    for (fr, iv, declared, pad, extra, start) in grid[:n]:
        fe = rnd.choice(FES)
        ch = rnd.choice([1, 2, 3])
        bps = rnd.choice([8, 16, 24])
        rate = rnd.choice(rates)
        opts = {"block_size": 16, "extra": extra}
        if iv is not None:
            opts["seektable"] = iv
        if pad is not None:
            opts["padding"] = pad
        upf = upf_of(fe, ch, bps)
        j = {"fe": fe, "rate": rate, "bps": bps, "channels": ch, "opts": opts, "start_offset": start,
             "pcm": pcm_spec(rnd.choice(["walk", "sine", "noise", "const", "zero"]), rnd.randint(1, 9999), fr),
             "writes": [fr * upf], "log_pcm": fr * ch <= 64, "tag": "grid"}
        if declared:
            j["total"] = fr * upf
        jobs.append(j)
    # larger inputs with realistic options (shared shape with C01's big-input family)
    for i in range(12 if t == "quick" else 80):
        ch = rnd.choice([1, 2, 2, 4, 8])
        bps = rnd.choice([8, 12, 16, 20, 24, 32])
        bs = rnd.choice([192, 576, 1152, 4096, 4608])
        fr = bs * rnd.randint(1, 4) + rnd.randint(0, bs - 1)
        fe = rnd.choice(FES)
        opts = {"block_size": bs, "max_lpc": rnd.choice([-1, 8, 12, 32]), "seektable": rnd.choice([{"frames": 1}, {"seconds": 1}, "none"]),
                "padding": rnd.choice([-1, 100, 4096])}
        jobs.append({"fe": fe, "rate": rnd.choice([8000, 44100, 96000, 3]), "bps": bps, "channels": ch, "opts": opts,
                     "pcm": pcm_spec(rnd.choice(["walk", "sine", "noise", "stereo", "wasted"]), 777 + i, fr),
                     "writes": [fr * upf_of(fe, ch, bps)], "tag": "big", **({"total": fr * upf_of(fe, ch, bps)} if i % 2 else {})})
    jobs += frame_volume_jobs(t, rnd, 7000)
    # the smallest sample rates (0 = "not audio", 1, 7) under every seek table policy, declared and undeclared: a time-based interval
    # of 0 samples is an interval like any other - whatever finalize writes, regeneration with the same interval gives the same points
    for rate in (0, 1, 7, 15):
        for st in ({"seconds": 1}, None, {"seconds": 255}, {"frames": 2}, "none"):
            for declared in (False, True):
                fe = rnd.choice(FES)
                ch, bps, fr = rnd.choice([1, 2]), rnd.choice([8, 16]), 16 * rnd.randint(3, 9) + rnd.choice([0, 5])
                j = {"fe": fe, "rate": rate, "bps": bps, "channels": ch, "opts": {"block_size": 16, "seektable": st, "padding": rnd.choice([-1, 64])},
                     "pcm": pcm_spec("walk", 31 + rate, fr), "writes": [fr * upf_of(fe, ch, bps)], "tag": "tiny-rate"}
                if st is None:
                    del j["opts"]["seektable"]
                if declared:
                    j["total"] = fr * upf_of(fe, ch, bps)
                jobs.append(j)
    # long streams (more than 65535 samples) with a declared length and time-based seek points: the placeholder
    # table reserved up front must be the table finalize needs
    for i in range(10 if t == "quick" else 60):
        rate = rnd.choice([8000, 11025, 44100])
        bs = rnd.choice([1152, 4096, 4608])
        frames = rnd.randint(66000, 400000)
        secs = rnd.choice([1, 1, 2, 10])
        jobs.append({"fe": rnd.choice(FES), "rate": rate, "bps": 8, "channels": 1,
                     "opts": {"block_size": bs, "seektable": {"seconds": secs} if i % 5 else None, "max_lpc": -1, "padding": rnd.choice([-1, 4096])},
                     "pcm": pcm_spec("zero", 1, frames), "writes": [frames], "total": frames, "tag": "long-declared-seconds"})
        if jobs[-1]["opts"]["seektable"] is None:
            del jobs[-1]["opts"]["seektable"]
    # more frames than a seek table can hold, length undeclared: the carve path must not panic
    for pad in ([4096] if t == "quick" else [4096, 16777215, 16777000]):
        jobs.append({"fe": "sample", "rate": 44100, "bps": 8, "channels": 1, "opts": {"block_size": 16, "seektable": {"frames": 1}, "padding": pad,
                     "max_lpc": -1}, "pcm": pcm_spec("zero", 1, 16 * 932100), "writes": [16 * 932100], "tag": "maxpoints", "light": True})
    # ... and the same with sparse tables (every n-th frame, every n seconds, the default), declared and undeclared: the points past the
    # 932067th frame are points like the others
    n_long = 16 * 940001
    for st, total in (({"frames": 10000}, None), ({"frames": 7}, n_long), ({"seconds": 10}, None), (None, n_long), ({"frames": 933000}, None)):
        jobs.append({"fe": "sample", "rate": 8000, "bps": 8, "channels": 1, "opts": {"block_size": 16, "seektable": st, "padding": 4096, "max_lpc": -1},
                     "pcm": pcm_spec("zero", 1, n_long), "writes": [n_long], "tag": "maxpoints-sparse", "light": True})
        if st is None:
            del jobs[-1]["opts"]["seektable"]
        if total:
            jobs[-1]["total"] = total
    parts = [jobs[i::8] for i in range(8)]

    def drive(ip):
        i, part = ip
        tp = os.path.join(wd, "trace_%d.ndjson" % i)
        return tp, run_drive("writer", {"out": tp, "jobs": part}, wd, tag=str(i), timeout=3000)

    outs = parallel(drive, [(i, p) for i, p in enumerate(parts) if p], n=8)
    runs = sum(o[1]["runs"] for o in outs)
    events = sum(o[1]["events"] for o in outs)
    # which finalize layout cases were exercised on the real code (non-vacuity)
    branches = {}
    fins = 0
    for tp, _ in outs:
        for e in read_ndjson(tp):
            if e.get("ev") == "file":
                key = e.get("branch") or "no-table-policy"
                d = e.get("desc", {})
                if key == "carve" and "seektable" not in d:
                    key = "carve-noroom"
                branches[key] = branches.get(key, 0) + 1
            if e.get("ev") == "finalize" and e.get("ret") == "ok":
                fins += 1
    validate(pid, [o[0] for o in outs], wd, v, stats,
             sig_extra=lambda new, evs: " tag=" + str(new.get("tag")))
    ol = options_layout(wd, t)
    log("[%s] growth: OptionsLayout %d builder states, %d runs replayed on Options + sample writer, branches %s, %d mismatches (non-gating)"
        % (pid, ol["states"], ol["runs"], ol["branches"], ol["mismatches"]))
    rc = v.finish()
    write_evidence(pid, "model_checking", {
        "states": states, "transitions": trans, "traces_validated_against_impl": runs, "growth_options_layout": ol,
        "samples": [{k: jobs[i][k] for k in ("fe", "rate", "bps", "channels", "opts", "writes")} for i in (0, 1, 2)],
        "exhaustive": True,
        "rule": "TLC: Encoder.tla over the full grid declared x interval x padding x extra blocks, frames <= %d, all frame sizes (Truthful, "
                "HeaderRewriteIsNeutral, NoPanic, Regenerates); real runs over a seeded sample of frames x interval x declared x padding "
                "sizes around 4+18k x extra blocks x start offset x front-end, judged by Trace_Writer's C09 rules from the independently "
                "parsed file and the EncodeBegin hook" % (5 if t == "quick" else 6),
        "successful_finalizes": fins, "finalize_branches_seen": branches, "events_validated": events,
        "known_findings_hit": {k: n for k, (kk, n) in v.known_hits.items()}},
        time.time() - t0, len(v.violations),
        ["TLC/SANY, CommunityModules Json", "frame boundaries come from the cfg-guarded EncodeBegin hook",
         "MD5 of small PCM is recomputed by the TLA+ MD5 module; for larger inputs by the md5 crate inside the harness"])
    log("[%s] runs=%d events=%d branches=%s violations=%d known=%d wall=%.1fs" % (pid, runs, events, branches, len(v.violations), len(v.known_hits), time.time() - t0))
    return rc


# =============================================================================== C15
def options_layout(wd, t):
    """Growth beyond the listed properties (non-gating): Options builder calls -> provisional and final metadata layout (OptionsLayout.tla)."""
    consts = "cPad == {20, 40, 300}\ncSteps == {0, 1, 2}\ncFrames == {1, 3, 4}\n"
    cfgc = "CONSTANTS\n PadSizes <- cPad\n Steps <- cSteps\n FrameCounts <- cFrames\n MaxOps = %d\n" % (3 if t == "quick" else 4)
    mp = write_text(os.path.join(wd, "MCOL.tla"), "---- MODULE MCOL ----\nEXTENDS OptionsLayout\n" + consts + "====\n")
    cp = write_text(os.path.join(wd, "MCOL.cfg"), cfgc + "SPECIFICATION Spec\nVIEW View\nINVARIANT Emit BuildIsFold ProvisionalSorted SingleKinds FinalizeIsSizeNeutral "
                    "FinalizeKeepsTheRest NoIntervalNoTable DeclaredAlwaysGetsItsTable TableHasThePoints UserBlocksKeepTheirOrder\nCHECK_DEADLOCK FALSE\n")
    r = tlc(mp, cp, wd, workers=1, timeout=2400)
    if r["errors"]:
        sys.stderr.write(r["out"][-2000:])
        raise ToolError("OptionsLayout model check failed")
    hs = gen_payloads(r["out"])
    tp = os.path.join(wd, "trace_options.ndjson")
    res = run_drive("options", {"out": tp, "histories": hs, "frames": [1, 3, 4]}, wd, tag="options")
    branches = {}
    for e in read_ndjson(tp):
        branches[e.get("branch") or "-"] = branches.get(e.get("branch") or "-", 0) + 1
    tm = write_text(os.path.join(wd, "TROL.tla"), "---- MODULE TROL ----\nEXTENDS Trace_Options\n" + consts + "====\n")
    tc = write_text(os.path.join(wd, "TROL.cfg"), cfgc + "SPECIFICATION TSpec\nPOSTCONDITION Post\nCHECK_DEADLOCK FALSE\n")
    tr = tlc_trace(tm, tc, tp, wd)
    for ln in tr["rejects"][:5]:
        log("GROWTH-SPEC-MISMATCH module=OptionsLayout " + ln[:300])
    return {"states": r["distinct"], "histories": len(hs), "runs": res["runs"], "branches": branches, "mismatches": len(tr["rejects"])}


def run_c15(pid):
    t0 = time.time()
    t = tier()
    wd = workdir(pid)
    v = Verdict(pid)
    stats = dict(drift=0)
    # ---- model: the length contract over all write histories (Writer.tla with declared totals)
    mcs = []
    for upf in (1, 2, 3):
        for decl in (-1, 1, 2, 3, 4, 5):
            mcs.append(mc_writer(wd, "MCL_%d_%d" % (upf, decl + 1), "Writer", upf, 2, 12, decl, extra=INV_W))
    res = parallel(lambda mc: tlc_model_check(mc[0], mc[1], wd, workers=2), mcs, n=6)
    states = sum(r["distinct"] for r in res)
    trans = sum(r["generated"] for r in res)
    log("[%s] TLC: %d Writer length-contract configurations, %d states, %d transitions" % (pid, len(mcs), states, trans))

    nominal = dict(rate=44100, bps=16, channels=2, block_size=4096, max_lpc=8, max_po=5, padding=4096)
    sweeps = dict(
        # incl. the edges of every frame-header coding: kHz in 8 bits (255000 / 256000), Hz in 16 bits, tens of Hz in 16 bits
        rate=[0, 1, 8000, 44100, 65535, 65536, 254000, 255000, 256000, 257000, 655340, 655350, 655351, 655360, 1000000, 1048575, 1048576, 4294967295],
        bps=[0, 1, 2, 3, 4, 7, 8, 12, 16, 17, 20, 24, 31, 32, 33, 64],
        channels=[0, 1, 2, 3, 7, 8, 9, 255],
        block_size=[0, 1, 15, 16, 17, 192, 4096, 65535],
        max_lpc=[-1, 0, 1, 2, 8, 12, 31, 32, 33, 255],
        max_po=[0, 1, 5, 6, 7, 8, 14, 15, 16, 100],
        padding=[-1, 0, 1, 4096, 16777215, 16777216],
    )
    rnd = random.Random(seed() * 13 + 15)
    points = []
    for k, vals in sweeps.items():
        for x in vals:
            p = dict(nominal)
            p[k] = x
            points.append(p)
    # all pairs of boundary values (two parameters off-nominal at a time)
    keys = list(sweeps)
    pairs = []
    for a, b in itertools.combinations(keys, 2):
        for x in sweeps[a]:
            for y in sweeps[b]:
                p = dict(nominal)
                p[a] = x
                p[b] = y
                pairs.append(p)
    rnd.shuffle(pairs)
    points += pairs[: (600 if t == "quick" else len(pairs))]

    def job_of(p, fe, frames, total_units, writes=None, tag="grid", signal="walk"):
        opts = {"block_size": p["block_size"], "max_lpc": p["max_lpc"], "max_po": p["max_po"], "padding": p["padding"],
                "seektable": {"frames": 1}}
        ch = max(1, min(8, p["channels"]))
        bps = max(1, min(32, p["bps"]))
        upf = upf_of(fe, ch, bps)
        j = {"fe": fe, "rate": p["rate"], "bps": p["bps"], "channels": p["channels"], "opts": opts,
             "pcm": pcm_spec(signal, 4242, frames), "writes": writes if writes is not None else [frames * upf], "tag": tag}
        if total_units is not None:
            j["total"] = total_units
        return j

    jobs = []
    for p in points:
        fe = rnd.choice(FES)
        # at least one full block plus a short final block
        frames = (p["block_size"] + 40) if 16 <= p["block_size"] <= 4608 else 70
        jobs.append(job_of(p, fe, frames, None, signal=rnd.choice(["walk", "noise", "sine"])))
    # every front end at every single-parameter sweep point for the core parameters
    for k in ("bps", "channels", "rate"):
        for x in sweeps[k]:
            for fe in FES:
                p = dict(nominal)
                p[k] = x
                p["block_size"] = 16
                jobs.append(job_of(p, fe, 40, None, tag="core"))
                # the same construction with a declared total (the constructors divide the total by the channel count / byte width)
                ch = max(1, min(8, p["channels"]))
                bps = max(1, min(32, p["bps"]))
                jobs.append(job_of(p, fe, 40, 40 * upf_of(fe, ch, bps), tag="core-declared"))
                jobs.append(job_of(p, fe, 40, 7, tag="core-declared"))
                # ... and with the degenerate totals 0 and 1 (0 is a declared total for the byte and sample writers)
                jobs.append(job_of(p, fe, 40, 0, tag="core-declared"))
                jobs.append(job_of(p, fe, 40, 1, tag="core-declared"))
    # window parameters: every f32 is an option value (tiny tapers, NaN, infinities, negative, above 1) x block sizes around the taper length
    for w in ("tukey:nan", "tukey:inf", "tukey:-inf", "tukey:-1", "tukey:2", "tukey:1e-9", "tukey:0.0001", "tukey:0.124", "tukey:0.125", "tukey:0.13",
              "tukey:0.999999", "tukey:1", "tukey:0", "tukey:-0", "tukey:3e38", "hann", "rect"):
        for bs in (16, 17, 31, 4096):
            p = dict(nominal)
            p["block_size"] = bs
            j = job_of(p, rnd.choice(FES), bs + 9, None, tag="window")
            j["opts"]["window"] = w
            jobs.append(j)
    # declared totals: boundary values in the front end's unit
    for fe in FES:
        for ch, bps in ((1, 16), (2, 16), (2, 24), (3, 8)):
            upf = upf_of(fe, ch, bps)
            p = dict(nominal, channels=ch, bps=bps, block_size=16)
            w_ = (bps + 7) // 8 if fe.startswith("byte") else 1
            # (also: a whole number of samples that is not a whole number of PCM frames)
            for tot in sorted({0, 1, upf - 1, upf, upf + 1, 40 * upf, 40 * upf + 1, w_, upf + w_, 2 * upf - w_, 40 * upf - w_, 40 * upf + w_, 3 * w_}):
                if tot < 0:
                    continue
                jobs.append(job_of(p, fe, 40, tot, tag="total"))
        p1 = dict(nominal, channels=1, bps=8, block_size=16)
        for tot in (2 ** 36 - 1, 2 ** 36, 2 ** 36 + 1, 2 ** 40):
            jobs.append(job_of(p1, fe, 40, tot, tag="hugetotal"))
    # length histories: all sequences of <= 3 writes with sizes around the block size against declared totals
    bs = 16
    sizes = [0, 1, bs - 1, bs, bs + 1]
    for fe in FES:
        ch, bps = (2, 16) if fe != "channel" else (2, 16)
        upf = upf_of(fe, ch, bps)
        p = dict(nominal, channels=ch, bps=bps, block_size=bs)
        for T in (1, bs, bs + 1, 2 * bs):
            for n in range(0, 4 if t == "quick" else 5):
                for seq in itertools.product(sizes, repeat=n):
                    jobs.append(job_of(p, fe, 5 * bs, T * upf, writes=[s * upf for s in seq], tag="length"))
        for n in range(0, 4):
            for seq in itertools.product(sizes, repeat=n):
                jobs.append(job_of(p, fe, 5 * bs, None, writes=[s * upf for s in seq], tag="length"))
    # the length contract does not depend on what else the file carries: the same histories under every seek table policy (none, every
    # n frames incl. 0, every n seconds incl. 0, the default) and with / without padding
    pol = ["none", {"frames": 0}, {"seconds": 0}, {"seconds": 1}, None, {"frames": 3}]
    k_ = 0
    for j in [j for j in jobs if j["tag"] in ("length", "total", "core-declared")]:
        k_ += 1
        if t == "quick" and k_ % 3:
            continue
        jj = json.loads(json.dumps(j))
        st = pol[(k_ // 3) % len(pol)]
        if st is None:
            del jj["opts"]["seektable"]
        else:
            jj["opts"]["seektable"] = st
        jj["opts"]["padding"] = [-1, 4096, 0][(k_ // 18) % 3]
        jj["tag"] = j["tag"] + "-policy"
        jobs.append(jj)
    parts = [jobs[i::8] for i in range(8)]
    runs = events = 0
    newok = newerr = 0
    for profile in ("release", "checked"):
        build_harness(profile)

        def drive(ip):
            i, part = ip
            tp = os.path.join(wd, "trace_%s_%d.ndjson" % (profile, i))
            tps, incidents = run_drive_items("writer", {"out": tp, "jobs": part}, wd, profile=profile, tag="%s%d" % (profile, i), timeout=3000)
            return tps, incidents, part

        outs = []
        for tps, incidents, part in parallel(drive, [(i, p) for i, p in enumerate(parts) if p], n=8):
            outs += [(tp, None) for tp in tps]
            for idx, size in incidents:
                # a constructor / write that asks for more than 4 GiB in one piece is not "a writer or an error"
                j = part[idx - 1]
                v.violation("%s rule=C15.new-no-panic single-request profile=%s" % (pid, profile),
                            "run %d asked for a single allocation of %d bytes: %s" % (idx, size, json.dumps({k: j[k] for k in j if k != "pcm"})[:600]),
                            {"job": {k: j[k] for k in j if k != "pcm"}, "size": size})
        for tp, _ in outs:
            n_ev = sum(1 for _l in open(tp))
            events += n_ev
        runs += len(parts) and sum(len(p) for p in parts if p)
        for tp, _ in outs:
            for e in read_ndjson(tp):
                if e.get("ev") == "new":
                    if e.get("ret") == "ok":
                        newok += 1
                    else:
                        newerr += 1
        validate(pid, [o[0] for o in outs], wd, v, stats,
                 sig_extra=lambda new, evs: " profile=%s new=%s" % (profile, new.get("ret")))
    rc = v.finish()
    write_evidence(pid, "model_checking", {
        "states": states, "transitions": trans, "traces_validated_against_impl": runs,
        "samples": [{k: jobs[i][k] for k in ("fe", "rate", "bps", "channels", "opts", "writes")} for i in (0, len(jobs) // 2, len(jobs) - 1)],
        "exhaustive": False,
        "rule": "TLC: Writer.tla length contract over all write histories (<= 12 units) for 18 declared/unit configurations; real runs: every "
                "single-parameter sweep point + sampled pairs of boundary values (rate, bps, channels, block size, LPC order, partition order, "
                "padding) + declared-total boundary values + all write-size histories (<= 3 writes from {0,1,bs-1,bs,bs+1}) against declared "
                "totals, x front-ends x {release, overflow-checked} profiles; Trace_Writer's C15 rules classify parameters from the documented ranges",
        "constructor_ok": newok, "constructor_refused": newerr, "events_validated": events,
        "known_findings_hit": {k: n for k, (kk, n) in v.known_hits.items()}},
        time.time() - t0, len(v.violations),
        ["TLC/SANY, CommunityModules Json", "'works' is judged with the crate's own sample reader (losslessness proper is C01/C02)"])
    log("[%s] runs=%d events=%d new ok/refused=%d/%d violations=%d known=%d wall=%.1fs" % (pid, runs, events, newok, newerr, len(v.violations), len(v.known_hits), time.time() - t0))
    return rc
