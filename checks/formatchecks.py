"""C02 (independent validator/decoder = FlacFormat in TLC) and C01 (lossless through every front-end pair)."""
import json
import os
import random
import time

from vlib import *
import corpus

TF = os.path.join(SPEC, "Trace_Format.tla")
TFC = os.path.join(SPEC, "Trace_Format.cfg")


def selftest_format(wd):
    """FlacFormat must reproduce the STREAMINFO MD5 written by libFLAC for the reference-encoded fixtures."""
    out = []
    for name in ("all-frames", "comment", "seektable", "picture"):
        p = os.path.join(REPO, "tests", "data", name + ".flac")
        data = list(open(p, "rb").read())
        jp = os.path.join(wd, name + ".json")
        json.dump(data, open(jp, "w"))
        out.append(jp)
    mp = write_text(os.path.join(wd, "SelfTest.tla"), """---- MODULE SelfTest ----
EXTENDS FlacFormat, Json, IOUtils
M == INSTANCE MD5
File == JsonDeserialize(IOEnv.FLACJSON)
VARIABLE x
Init == x = 0
Next == x' = x
St == ParseStream(File)
FrameErrs == UNION {St.frames[i].errs : i \\in 1..Len(St.frames)}
ASSUME PrintT(<<"STAT", Len(St.frames), FrameErrs, M!Digest(PcmBytes(Pcm(St.frames), St.si.bps)) = St.si.md5>>)
ASSUME M!Digest(<<97, 98, 99>>) = <<144, 1, 80, 152, 60, 210, 79, 176, 214, 150, 63, 125, 40, 225, 127, 114>>
ASSUME Crc8(<<49, 50, 51, 52, 53, 54, 55, 56, 57>>, 0, 9) = 244
ASSUME Crc16(<<49, 50, 51, 52, 53, 54, 55, 56, 57>>, 0, 9) = 65256
====
""")
    cp = write_text(os.path.join(wd, "SelfTest.cfg"), "INIT Init\nNEXT Next\n")
    n = 0
    for jp in out:
        r = tlc(mp, cp, wd, workers=1, env={"FLACJSON": jp})
        st = tlc_lines(r["out"], "STAT")
        if r["errors"] or not st or not st[0].rstrip().endswith("{}, TRUE>>"):
            sys.stderr.write(r["out"][-3000:])
            raise ToolError("FlacFormat self-test failed on %s" % jp)
        n += 1
    return n


def split_by_cost(jobs, k):
    parts = [[] for _ in range(k)]
    cost = [0] * k
    def c(j):
        p = j["pcm"]
        return (len(p["samples"]) if "samples" in p else p["frames"] * j["channels"]) + 50
    for j in sorted(jobs, key=c, reverse=True):
        i = cost.index(min(cost))
        parts[i].append(j)
        cost[i] += c(j)
    return [p for p in parts if p]


def run_c02(pid):
    t0 = time.time()
    t = tier()
    wd = workdir(pid)
    v = Verdict(pid)
    build_harness("release")
    nself = selftest_format(wd)
    log("[%s] FlacFormat self-test: %d libFLAC-encoded fixtures decoded with matching MD5; CRC/MD5 unit vectors hold" % (pid, nself))
    rnd = random.Random(seed() * 1009 + 2)
    jobs = corpus.small_scope(wd, t, rnd)
    jobs += corpus.short_final_blocks(t, rnd)
    jobs += corpus.large_inputs(t, rnd, 190 if t == "quick" else 2500, big=2 if t == "quick" else 12)
    jobs += corpus.table_block_sizes(t, rnd, limit=1200 if t == "quick" else 9300)
    jobs += corpus.silence_histories(t, rnd)
    jobs += corpus.rail_alternations(t, rnd)
    jobs += corpus.clipped_sines(t, rnd, light=True)
    corpus.fix_declared(jobs, rnd)
    parts = split_by_cost(jobs, 14)

    def drive(ip):
        i, part = ip
        tp = os.path.join(wd, "trace_%d.ndjson" % i)
        return tp, run_drive("codec", {"out": tp, "jobs": part, "decode": False, "log_bytes": True}, wd, tag=str(i), timeout=3000)

    outs = parallel(drive, list(enumerate(parts)), n=8)
    runs = sum(o[1]["runs"] for o in outs)
    kinds = {}
    nframes = 0
    nfiles = 0
    samples = []
    for tp, tr in parallel(lambda o: (o[0], tlc_trace(TF, TFC, o[0], wd, timeout=3000)), outs, n=14):
        recs = None
        for ln in tlc_lines(tr["out"], "STAT"):
            m = re.match(r'<<"STAT", (\d+), (\d+), (.*)>>$', ln)
            if m:
                nfiles += 1
                nframes += int(m.group(2))
                for k in re.findall(r'<<"(\w+)", (\d+)>>', m.group(3)):
                    kinds["%s/ch%s" % k] = kinds.get("%s/ch%s" % k, 0) + 1
        for ln in tr["rejects"]:
            m = re.match(r'<<"REJECT", (\d+), (\d+), "([^"]*)", (.*)>>$', ln, re.S)
            line, rule, detail = int(m.group(2)), m.group(3), m.group(4)
            if recs is None:
                recs = read_ndjson(tp)
            e = recs[line - 1]
            firsterr = re.findall(r'"([^"]+)"', detail)
            sig = "%s rule=%s first=%s" % (pid, rule, firsterr[0] if firsterr else "")
            slim = {k: e[k] for k in e if k not in ("bytes", "pcm")}
            v.violation(sig, "rule %s fails for %s: %s" % (rule, json.dumps(slim), detail[:400]),
                        {"trace": tp, "event": slim, "bytes": e.get("bytes") if len(e.get("bytes", [])) < 4000 else None,
                         "pcm": e.get("pcm") if len(e.get("pcm", [])) < 2000 else None})
        if len(samples) < 3:
            recs = recs or read_ndjson(tp)
            e = next(x for x in recs if x["ev"] == "encoded")
            samples.append({k: e[k] for k in ("fe", "channels", "bps", "rate", "opts", "len", "samples", "signal")})
    # encoder refusals / failures are C01's business; here only count them
    rc = v.finish()
    write_evidence(pid, "model_checking", {
        "evaluations": nfiles, "distinct_nontrivial": nfiles,
        "states": nfiles, "transitions": nframes, "traces_validated_against_impl": nfiles,
        "samples": samples, "exhaustive": False,
        "rule": "every file the real encoder produced for the corpus (TLC-enumerated short sequences x sampled options; final blocks of "
                "1..2*order+2 samples; files of 1..20 samples; seeded grid over channels 1-8 x depths 1-32 x all sample-rate header codings x "
                "block sizes x LPC orders x partition orders x windows x mid-side/fast; big-block files) is parsed, validated against every "
                "MUST of the frame grammar, decoded and MD5-hashed by the FlacFormat TLA+ model inside TLC; 'states' = files, 'transitions' = frames",
        "frames_validated": nframes, "encoder_runs": runs, "subframe_kinds_seen": kinds, "selftest_fixtures": nself,
        "known_findings_hit": {k: n for k, (kk, n) in v.known_hits.items()}},
        time.time() - t0, len(v.violations),
        ["TLC/SANY, CommunityModules Json/Bitwise/SequencesExt", "FlacFormat.tla is written from RFC 9639 as I know it and validated only against four libFLAC-encoded fixtures",
         "33-bit side channels are outside the model (the encoder never emits them)"])
    log("[%s] files=%d frames=%d kinds=%s violations=%d known=%d wall=%.1fs" % (pid, nfiles, nframes, kinds, len(v.violations), len(v.known_hits), time.time() - t0))
    return rc


# =============================================================================== C01
# block sizes at which the high partition orders are legal (2^k, 3 * 2^k, 5 * 2^k, 9 * 2^k), their neighbours, the limits of the field
BIG_BS = sorted(set([1 << k for k in range(8, 16)] + [3 << k for k in range(7, 15)] + [5 << 12, 5 << 13, 9 << 11, 15 << 12, 65535, 65534, 65520, 65280, 61440, 49151,
                     32767, 32769, 16383, 4608, 1152, 576, 2304, 18432, 36864]))


def partition_layout_checks(wd, t):
    """TLC evaluates PartitionLayout's statements over the grid; defect-enabled variants must fail."""
    res = {}
    for name, defects, maxbs in (("fixed", [], 160 if t == "quick" else 300), ("count_not_checked", ["count_not_checked"], 16),
                                 ("no_partition_cap", ["no_partition_cap"], 256), ("dec_zero_chunk", ["dec_zero_chunk"], 16)):
        mp = write_text(os.path.join(wd, "MCP_%s.tla" % name), """---- MODULE MCP_%s ----
EXTENDS PartitionLayout
cDefects == %s
cBig == %s
ASSUME PrintT(<<"STAT", "agree", Agree>>)
ASSUME PrintT(<<"STAT", "decsound", DecoderSound>>)
ASSUME PrintT(<<"STAT", "decstrict", DecoderStrict>>)
VARIABLE x
Init == x = 0
Next == x' = x
====
""" % (name, tla_set(defects), "{" + ", ".join(str(b) for b in (BIG_BS if name == "fixed" else [])) + "}"))
        cp = write_text(os.path.join(wd, "MCP_%s.cfg" % name), """CONSTANTS
 MaxBs = %d
 MaxOrder = 32
 MaxPoOpt = 15
 MaxPartitions = 64
 Defects <- cDefects
 BigBs <- cBig
INIT Init
NEXT Next
""" % maxbs)
        r = tlc(mp, cp, wd, workers=1, timeout=1200)
        vals = {}
        for ln in tlc_lines(r["out"], "STAT"):
            m = re.match(r'<<"STAT", "(\w+)", (TRUE|FALSE)>>', ln)
            vals[m.group(1)] = m.group(2) == "TRUE"
        if len(vals) != 3:
            sys.stderr.write(r["out"][-3000:])
            raise ToolError("PartitionLayout evaluation failed (%s)" % name)
        res[name] = vals
    if not (res["fixed"]["agree"] and res["fixed"]["decsound"]):
        raise ToolError("PartitionLayout: the model of the repaired code does not satisfy Agree/DecoderSound")
    if res["count_not_checked"]["agree"] or res["no_partition_cap"]["agree"] or res["dec_zero_chunk"]["decsound"]:
        raise ToolError("PartitionLayout non-vacuity: a defect-enabled model was not refuted: %s" % res)
    return res


def run_c01(pid):
    t0 = time.time()
    t = tier()
    wd = workdir(pid)
    v = Verdict(pid)
    build_harness("release")
    pl = partition_layout_checks(wd, t)
    grid_bs = 160 if t == "quick" else 300
    grid_points = (grid_bs + len(BIG_BS)) * 33 * 16
    log("[%s] TLC: PartitionLayout Agree/DecoderSound hold on bs<=%d x order<=32 x maxpo<=15 (%d points); 3 defect models refuted; DecoderStrict=%s"
        % (pid, grid_bs, grid_points, pl["fixed"]["decstrict"]))
    # Codec (A) tiny exhaustive configuration
    mp = write_text(os.path.join(wd, "MCCodec.tla"), "---- MODULE MCCodec ----\nEXTENDS Codec\n====\n")
    cp = write_text(os.path.join(wd, "MCCodec.cfg"), "CONSTANTS\n Channels = 2\n Samples = {0, 1}\nSPECIFICATION Spec\nINVARIANT Lossless\nCONSTRAINT Bound\nCHECK_DEADLOCK FALSE\n")
    write_text(os.path.join(wd, "MCCodec.tla"), "---- MODULE MCCodec ----\nEXTENDS Codec\nBound == Len(written) <= 5\n====\n")
    r = tlc_model_check(mp, cp, wd, workers=2)
    states, trans = r["distinct"], r["generated"]

    rnd = random.Random(seed() * 1013 + 1)
    # ---- residual writer/reader grid through the hooks
    sizes = list(range(1, 49)) + [64, 96, 128, 192, 255, 256, 4096] if t == "quick" else list(range(1, 130)) + [192, 255, 256, 257, 576, 1152, 4096, 4608]
    rp = os.path.join(wd, "trace_res.ndjson")
    rres = run_drive("residuals", {"out": rp, "sizes": sizes, "maxpos": [0, 1, 2, 3, 5, 6, 7, 8, 15], "max_order": 32,
                                   "order_step": 3 if t == "quick" else 1}, wd, tag="res")
    # split for parallel validation
    lines = open(rp).read().splitlines()
    k = 8
    rparts = []
    for i in range(k):
        pp = os.path.join(wd, "trace_res_%d.ndjson" % i)
        open(pp, "w").write("\n".join(lines[i::k]) + "\n")
        rparts.append(pp)
    trs = os.path.join(SPEC, "Trace_Residuals.tla")
    trc = write_text(os.path.join(wd, "Trace_Residuals.cfg"), """CONSTANTS
 MaxBs = 0
 MaxOrder = 0
 MaxPoOpt = 0
 MaxPartitions = 64
 Defects = {}
 BigBs = {}
SPECIFICATION Spec
POSTCONDITION Post
CHECK_DEADLOCK FALSE
""")
    drift = 0
    for pp, tr in parallel(lambda pp: (pp, tlc_trace(trs, trc, pp, wd)), rparts, n=8):
        recs = None
        for ln in tr["rejects"]:
            m = re.match(r'<<"REJECT", (\d+), (\d+), "([^"]*)", (.*)>>$', ln)
            line, rule = int(m.group(2)), m.group(3)
            recs = recs or read_ndjson(pp)
            e = recs[line - 1]
            region = "bs<=2*order" if e["bs"] <= 2 * e["order"] else "bs>2*order"
            sig = "%s rule=%s %s w=%s r=%s" % (pid, rule, region, e["wret"], e["rret"])
            v.violation(sig, "rule %s fails for residual grid point %s" % (rule, json.dumps(e)), {"event": e})
        drift += len(tr["drifts"])
        for ln in tr["drifts"][:2]:
            log("SPEC-DRIFT module=PartitionLayout " + ln[:300])

    # ---- the corpus through every writer front-end, decoded by every reader front-end
    jobs = corpus.small_scope(wd, t, rnd)
    jobs += corpus.short_final_blocks(t, rnd)
    jobs += corpus.large_inputs(t, rnd, 700 if t == "quick" else 6000, max_samples=6000, big=6 if t == "quick" else 40)
    jobs += corpus.table_block_sizes(t, rnd)
    jobs += corpus.silence_histories(t, rnd)
    jobs += corpus.rail_alternations(t, rnd)
    jobs += corpus.clipped_sines(t, rnd)
    corpus.fix_declared(jobs, rnd)
    # front-end pairs: the same content through all four writers for a slice of the corpus
    extra = []
    for j in jobs[:: (7 if t == "quick" else 3)]:
        for fe in corpus.FES:
            if fe != j["fe"]:
                jj = json.loads(json.dumps(j))
                jj["fe"] = fe
                jj.pop("total", None)
                extra.append(jj)
    jobs += extra
    parts = split_by_cost(jobs, 8)

    def drive(ip):
        i, part = ip
        tp = os.path.join(wd, "trace_%d.ndjson" % i)
        return tp, run_drive("codec", {"out": tp, "jobs": part, "decode": True, "log_bytes": False}, wd, tag=str(i), timeout=3000)

    outs = parallel(drive, list(enumerate(parts)), n=8)
    runs = sum(o[1]["runs"] for o in outs)
    events = sum(o[1]["events"] for o in outs)
    tc, tcc = os.path.join(SPEC, "Trace_Codec.tla"), os.path.join(SPEC, "Trace_Codec.cfg")
    pairs = {}
    samples = []
    for tp, tr in parallel(lambda o: (o[0], tlc_trace(tc, tcc, o[0], wd)), outs, n=8):
        recs = read_ndjson(tp)
        cur = None
        for e in recs:
            if e["ev"] == "encoded":
                cur = e
            elif e["ev"] == "decoded" and cur is not None:
                kk = "%s->%s" % (cur["fe"], e["reader"])
                pairs[kk] = pairs.get(kk, 0) + 1
        for ln in tr["rejects"]:
            m = re.match(r'<<"REJECT", (\d+), (\d+), "([^"]*)", (.*)>>$', ln, re.S)
            run_id, line, rule, detail = int(m.group(1)), int(m.group(2)), m.group(3), m.group(4)
            j = line - 1
            while j > 0 and recs[j].get("ev") != "new":
                j -= 1
            new = recs[j]
            e = recs[line - 1]
            sig = "%s rule=%s fe=%s reader=%s %s" % (pid, rule, new.get("fe", "").split("-")[0], e.get("reader", ""),
                                                    re.sub(r"[0-9]+", "N", (e.get("msg") or "")[:60]))
            v.violation(sig, "rule %s fails at %s line %d: %s ; run: %s" % (rule, os.path.basename(tp), line, json.dumps({k: e[k] for k in e if k != "data"})[:400],
                        json.dumps(new)[:600]), {"trace": tp, "new": new, "event": {k: e[k] for k in e if k != "data"}})
        if len(samples) < 3:
            e = next(x for x in recs if x["ev"] == "encoded")
            samples.append({k: e[k] for k in ("fe", "channels", "bps", "rate", "opts", "samples", "signal")})
    rc = v.finish()
    write_evidence(pid, "model_checking", {
        "states": states + grid_points, "transitions": trans + grid_points, "traces_validated_against_impl": runs,
        "samples": samples, "exhaustive": False,
        "rule": "TLC evaluates PartitionLayout (encoder candidate layouts = decoder layouts = RFC layouts) on the full grid block size x predictor "
                "order x max partition order (counted in states) and refutes three defect-enabled variants; the real residual writer and reader "
                "are run over the grid through hooks (x 4 residual patterns x rice2) and judged by Trace_Residuals; the corpus (TLC-enumerated short "
                "sequences, final blocks of 1..2*order+2 samples, 1..20-sample files, seeded grid over the C01 option space, big blocks) is encoded "
                "through every writer front-end and decoded by five reader front-ends; Trace_Codec requires success and identical samples/parameters",
        "residual_grid_points": rres["runs"], "writer_reader_pairs": pairs, "events_validated": events + rres["events"], "spec_drift_notes": drift,
        "partition_layout": pl,
        "known_findings_hit": {k: n for k, (kk, n) in v.known_hits.items()}},
        time.time() - t0, len(v.violations),
        ["TLC/SANY, CommunityModules Json", "large inputs are compared by (count, MD5) computed in the harness; small ones by TLC on the integer sequences",
         "sample sequences beyond the small scope are sampled"])
    log("[%s] encoder runs=%d residual grid=%d pairs=%d violations=%d known=%d wall=%.1fs" % (pid, runs, rres["runs"], len(pairs), len(v.violations), len(v.known_hits), time.time() - t0))
    return rc
