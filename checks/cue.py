"""C20: cue sheet text import (CueText / Trace_Cue)."""
import json
import os
import random
import time

from vlib import *

GAPS = [[1], [74, 1, 4500], [450000, 75, 3], [4499, 4501], [2, 60 * 75 - 1, 1]]


def mmssff(sectors):
    return "%02d:%02d:%02d" % (sectors // 4500, (sectors // 75) % 60, sectors % 75)


def render(lines, rnd, variant):
    """spelling variants accepted by the format: indentation, quoting, TRACK 1 vs 01, unknown lines, CRLF, FLAGS before / after ISRC"""
    out = []
    isrcs = []
    catalog = ""
    quote = variant % 2 == 1
    lead0 = (variant // 2) % 2 == 1
    extra = (variant // 4) % 2 == 1
    crlf = (variant // 8) % 2 == 1
    flags_first = (variant // 16) % 2 == 1
    indent = ["", "  ", "\t", "    "][variant % 4]
    # blanks between the tokens of a line are spacing as well: one blank, several, a tab (one choice per sheet)
    sep = rnd.choice([" ", " ", " ", "  ", "\t", " \t ", "   "])
    cat_where = (variant // 64) % 3
    if cat_where and lines and lines[0]["kind"] == "CATALOG":
        # CATALOG is a disc-level line that may stand anywhere in the sheet: after the first track's lines, or last
        lines = list(lines)
        cat = lines.pop(0)
        second = next((i for i, ln in enumerate(lines) if ln["kind"] == "TRACK" and i > 0), len(lines))
        lines.insert(second if cat_where == 1 else len(lines), cat)
    if flags_first:
        # the order of a track's ISRC and FLAGS lines is a matter of spelling too
        lines = list(lines)
        for i in range(len(lines) - 1):
            if lines[i]["kind"] == "ISRC" and lines[i + 1]["kind"] == "FLAGS":
                lines[i], lines[i + 1] = lines[i + 1], lines[i]
    if extra:
        out.append('REM GENRE "Test"')
        out.append('PERFORMER "Somebody"')
        out.append('FILE "audio.wav" WAVE')
        # comments that real sheets carry (exported by other tools, for a file that has since changed): no comment changes the layout
        for _ in range(rnd.randint(0, 3)):
            out.append(rnd.choice(['REM FLAC__lead-in 88200', 'REM FLAC__lead-out 170 %d' % (588 * rnd.choice([1, 75, 1000, 45000, 10 ** 6])),
                                   'REM FLAC__lead-out 170 0', 'REM DATE 1999', 'REM DISCID 860B640B', 'REM COMMENT "ExactAudioCopy v1.0"',
                                   'REM REPLAYGAIN_ALBUM_GAIN -6.50 dB', 'REM TRACK 01 AUDIO', 'REM INDEX 01 00:00:00', 'REM CATALOG 1234567890123', 'REM']))
    for ln in lines:
        k = ln["kind"]
        if k == "CATALOG":
            # 13 digits; special values are digits like any others
            catalog = rnd.choice(["".join(rnd.choice("0123456789") for _ in range(13))] * 3 + ["0000000000000", "9999999999999", "0000000000001", "1000000000000"])
            out.append(("", ["CATALOG", '"%s"' % catalog if quote else catalog]))
        elif k == "TRACK":
            out.append((indent, ["TRACK", ("%02d" % ln["n"]) if lead0 else str(ln["n"]), "AUDIO"]))
            isrcs.append("")
            if extra:
                out.append(indent * 2 + 'TITLE "Track %d"' % ln["n"])
        elif k == "ISRC":
            code = rnd.choice(["US", "ZZ", "AA"]) + rnd.choice(["S1Z", "ABC", "A1B", "000", "ZZZ", "999"]) + rnd.choice(["%02d" % rnd.randint(0, 99), "00", "99"]) + rnd.choice(["%05d" % rnd.randint(0, 99999), "00000", "99999"])
            isrcs[-1] = code
            shown = code if variant % 3 else code[:2] + "-" + code[2:5] + "-" + code[5:7] + "-" + code[7:]
            out.append((indent * 2, ["ISRC", '"%s"' % shown if quote else shown]))
        elif k == "FLAGS":
            # a FLAGS line lists one or more of DCP 4CH PRE SCMS in any order; PRE is the one a FLAC cue sheet records
            out.append((indent * 2, ["FLAGS"] + rnd.choice(["PRE", "PRE", "DCP PRE", "PRE DCP", "4CH PRE SCMS", "DCP 4CH PRE"]).split()))
        elif k == "INDEX":
            out.append((indent * 2, ["INDEX", ("%02d" % ln["n"]) if (lead0 or ln["n"] > 9) else str(ln["n"]), mmssff(ln["sectors"])]))
    if extra:
        if rnd.random() < 0.5:
            out.append('REM FLAC__lead-out 170 %d' % (588 * rnd.choice([3, 7500, 123456])))
        out.append("")
    out = [ln if isinstance(ln, str) else ln[0] + sep.join(ln[1]) for ln in out]
    if (variant // 32) % 2 == 1:
        # blanks after the last token of a line are spacing too
        out = [ln + rnd.choice([" ", "\t", "  ", " \t "]) if ln else ln for ln in out]
    text = ("\r\n" if crlf else "\n").join(out) + ("\r\n" if crlf else "\n")
    return text, isrcs, catalog


def run(pid):
    t0 = time.time()
    t = tier()
    wd = workdir(pid)
    v = Verdict(pid)
    build_harness("release")
    mt, mx = (2, 2) if t == "quick" else (3, 2)
    mp = write_text(os.path.join(wd, "MCCue.tla"), "---- MODULE MCCue ----\nEXTENDS CueText\ncGaps == %s\n====\n" % tla_seq(GAPS))
    cp = write_text(os.path.join(wd, "MCCue.cfg"), "CONSTANTS\n MaxTracks = %d\n MaxExtra = %d\n Gaps <- cGaps\n TailSectors = 10\nSPECIFICATION Spec\nINVARIANT WellFormed Emit\nCHECK_DEADLOCK FALSE\n" % (mt, mx))
    r = tlc(mp, cp, wd, workers=1, timeout=3000)
    if r["errors"]:
        sys.stderr.write(r["out"][-3000:])
        raise ToolError("CueText generation failed")
    sheets = gen_payloads(r["out"])
    states = r["distinct"]
    if not sheets:
        raise ToolError("CueText produced no sheets")
    rnd = random.Random(seed() * 43 + 20)
    if t == "quick" and len(sheets) > 4000:
        rnd.shuffle(sheets)
        sheets = sheets[:4000]
    items = []
    iid = 0
    for s in sheets:
        for variant in ([rnd.randint(0, 191)] if t == "quick" else [rnd.randint(0, 191), rnd.randint(0, 191), 0]):
            iid += 1
            text, isrcs, catalog = render(s["lines"], rnd, variant)
            items.append({"id": iid, "variant": variant, "text": text, "total": s["expected"]["leadout"] * 588, "expected": s["expected"],
                          "isrcs": isrcs, "catalog": catalog})
    # shapes at the limits (spec -> impl, built directly from the same Expected rule): 99 tracks; 100 indices; 5-digit minutes
    def big_sheet(ntracks, nidx, gap):
        lines, tracks, ranges = [], [], []
        pos = 0
        i01 = []
        for k in range(1, ntracks + 1):
            lines.append({"kind": "TRACK", "n": k})
            base = pos
            idx = []
            for i in range(nidx):
                lines.append({"kind": "INDEX", "n": i + 1 if nidx < 100 else i, "sectors": pos})
                idx.append([i + 1 if nidx < 100 else i, pos - base])
                if (i + 1 if nidx < 100 else i) == 1:
                    i01.append(pos)
                pos += gap
            tracks.append({"number": k, "offset": base, "pre": False, "isrc": False, "index": idx})
        lead = pos + 5
        for k in range(ntracks):
            ranges.append([i01[k], i01[k + 1] if k + 1 < ntracks else lead])
        return {"lines": lines, "expected": {"catalog": False, "leadout": lead, "tracks": tracks, "ranges": ranges}}
    for (nt, ni, gap) in ((99, 1, 3), (99, 2, 1), (1, 99, 7), (1, 100, 1), (2, 3, 1200000), (3, 2, 30000)):
        s = big_sheet(nt, ni, gap)
        iid += 1
        text, isrcs, catalog = render(s["lines"], rnd, 2)
        items.append({"id": iid, "variant": 100 + nt, "text": text, "total": s["expected"]["leadout"] * 588, "expected": s["expected"], "isrcs": isrcs, "catalog": catalog})
    parts = [items[i::8] for i in range(8)]

    def drive(ip):
        i, part = ip
        tp = os.path.join(wd, "trace_%d.ndjson" % i)
        return tp, run_drive("cue", {"out": tp, "items": part}, wd, tag=str(i), timeout=3000)

    outs = parallel(drive, [(i, p) for i, p in enumerate(parts) if p], n=8)
    spec, cfg = os.path.join(SPEC, "Trace_Cue.tla"), os.path.join(SPEC, "Trace_Cue.cfg")
    byid = {it["id"]: it for it in items}
    for tp, tr in parallel(lambda o: (o[0], tlc_trace(spec, cfg, o[0], wd, timeout=3000)), outs, n=8):
        for ln in tr["rejects"]:
            m = re.match(r'<<"REJECT", (\d+), (\d+), "([^"]*)", (\d+)(.*)>>$', ln, re.S)
            iid_, rule, variant = int(m.group(1)), m.group(3), int(m.group(4))
            it = byid[iid_]
            sig = "%s rule=%s %s" % (pid, rule, "limit-shape" if variant >= 100 else "")
            v.violation(sig.strip(), "rule %s fails for sheet %d (variant %d)%s; text:\n%s" % (rule, iid_, variant, m.group(5)[:200], it["text"][:600]),
                        {"text": it["text"], "total": it["total"], "expected": it["expected"]})
    rc = v.finish()
    write_evidence(pid, "model_checking", {
        "states": states, "transitions": states, "traces_validated_against_impl": len(items), "exhaustive": t != "quick",
        "samples": [{"text": items[0]["text"], "expected": items[0]["expected"]}, {"text": items[len(items) // 2]["text"][:400]}],
        "rule": "TLC enumerates every abstract sheet with <= %d tracks x optional pre-gap x <= %d extra indices x pre-emphasis x ISRC x CATALOG x %d "
                "position ladders (incl. minutes above 99) and derives Expected(sheet); each sheet is spelled in seeded variants (indentation, quoting, "
                "TRACK 1/01, dashed ISRCs, REM/TITLE/FILE lines, CRLF) and imported by the real parser; Trace_Cue requires the block to equal "
                "Expected field by field and export -> import to reproduce the layout; plus shapes at the limits (99 tracks, 100 indices, 4-digit minutes)"
                % (mt, mx, len(GAPS)),
        "sheets": len(sheets), "imports": len(items),
        "known_findings_hit": {k: n for k, (kk, n) in v.known_hits.items()}},
        time.time() - t0, len(v.violations),
        ["TLC/SANY, CommunityModules", "the spelling variants are produced by the orchestrator from the abstract lines TLC emits",
         "multi-flag FLAGS lines are not part of the property (non-gating)"])
    log("[%s] sheets=%d imports=%d violations=%d known=%d wall=%.1fs" % (pid, len(sheets), len(items), len(v.violations), len(v.known_hits), time.time() - t0))
    return rc
