"""C18: multithreaded encoding equals single-threaded encoding (ParEncode / Trace_ParEncode)."""
import json
import os
import random
import time

from vlib import *
import corpus

PAR = os.path.join(VERIF, "harness-par")


def run(pid):
    t0 = time.time()
    t = tier()
    wd = workdir(pid)
    v = Verdict(pid)
    build_harness("release")
    build_harness("release", crate=PAR)
    exe_par = binary("release", PAR, "drive-par")
    # ---- model: every interleaving of the leaf tasks
    states = trans = 0
    for name, defects, fail in (("ok", [], False), ("alias", ["aliased_cache"], True), ("order", ["completion_order"], True)):
        mp = write_text(os.path.join(wd, "MCPE_%s.tla" % name), "---- MODULE MCPE_%s ----\nEXTENDS ParEncode\ncD == %s\n====\n" % (name, tla_set(defects)))
        cp = write_text(os.path.join(wd, "MCPE_%s.cfg" % name), "CONSTANTS\n Defects <- cD\nSPECIFICATION Spec\nINVARIANT DisjointWrites SameAsSerial\nCHECK_DEADLOCK FALSE\n")
        if fail:
            expect_model_violation(mp, cp, wd, workers=4, what="ParEncode with " + defects[0])
        else:
            r = tlc_model_check(mp, cp, wd, workers=8)
            states, trans = r["distinct"], r["generated"]
    log("[%s] TLC: ParEncode all interleavings: %d states, %d transitions; aliased-cache and completion-order variants refuted" % (pid, states, trans))

    rnd = random.Random(seed() * 41 + 18)
    jobs = []
    n = 24 if t == "quick" else 1200
    for i in range(n):
        ch = rnd.choice([1, 2, 2, 2, 3, 6, 8])
        bps = rnd.choice([8, 16, 16, 24, 32])
        bs = rnd.choice([64, 256, 576, 1152, 4096])
        frames = bs * rnd.randint(2, 5) + rnd.randint(0, bs - 1)
        jobs.append({"job_id": i + 1, "rate": 44100, "bps": bps, "channels": ch,
                     "opts": {"block_size": bs, "max_lpc": rnd.choice([-1, 4, 8, 12, 32]), "max_po": rnd.choice([0, 3, 6]),
                              "mid_side": rnd.random() < 0.7, "fast_corr": rnd.random() < 0.4, "window": rnd.choice(corpus.WINDOWS + ["tukey:0.1", "tukey:0.9", "tukey:0.25", "tukey:0.1"]),
                              "padding": rnd.choice([-1, 100]), "seektable": rnd.choice(["none", {"frames": 1}])},
                     "pcm": {"signal": rnd.choice(["walk", "sine", "noise", "stereo", "wasted", "const", "impulse", "ramp", "constlo", "fade", "blockmix", "chanmix", "hitone"]), "seed": rnd.randint(1, 10 ** 6), "frames": frames}})
    # state that outlives one encode (per-thread caches, memoised tables) must not leak into the next: the same block size under
    # window parameters that differ only in their value, back to back in one process and one pool
    for bs in (256, 4096):
        for w in ("tukey", "tukey:0.1", "tukey:0.9", "tukey:0.1", "tukey:0.25", "tukey"):
            jobs.append({"job_id": len(jobs) + 1, "rate": 44100, "bps": 16, "channels": 2,
                         "opts": {"block_size": bs, "max_lpc": 8, "max_po": 5, "mid_side": True, "fast_corr": False, "window": w, "padding": -1, "seektable": "none"},
                         "pcm": {"signal": "sine", "seed": 4242, "frames": bs * 2 + bs // 3}})
    # short blocks with the highest LPC order on material that LPC predicts far better than FIXED: the candidates' relative finishing
    # order must not decide which one is written
    for bs, bps, ch in ((64, 24, 1), (32, 24, 2), (64, 16, 1), (16, 24, 1), (64, 32, 1)):
        jobs.append({"job_id": len(jobs) + 1, "rate": 44100, "bps": bps, "channels": ch,
                     "opts": {"block_size": bs, "max_lpc": 32, "max_po": 3, "mid_side": True, "fast_corr": False, "padding": -1, "seektable": "none"},
                     "pcm": {"signal": "hitone", "seed": 777 + bs, "frames": bs * 60 + 5}})
    # exactly periodic patterns (period 2, 3, 4, 5, 8: ill-conditioned autocorrelation) in large blocks, every window, high LPC orders: the
    # floating-point sums behind the LPC parameters must be taken in one order whatever the pool
    for period in (2, 3, 4, 5, 8):
        for bs, w in ((4096, "tukey"), (2048, "hann"), (8192, "tukey:0.25"), (4608, "rect")):
            jobs.append({"job_id": len(jobs) + 1, "rate": 44100, "bps": 16, "channels": rnd.choice([1, 2]),
                         "opts": {"block_size": bs, "max_lpc": rnd.choice([8, 12, 32]), "max_po": 5, "mid_side": True, "fast_corr": False, "window": w, "padding": -1, "seektable": "none"},
                         "pcm": {"signal": "periodic:%d" % period, "seed": 5, "frames": bs * 2 + 100}})
    # blocks exactly as long as the LPC order allows, one longer, one shorter (a whole block size of order + 1, and a final short block of
    # order, order + 1, order + 2 samples), on bursts a one-tap predictor follows and the fixed ones do not: which candidates are tried at
    # all must not depend on the build
    for order in (1, 4, 8, 12, 15, 31, 32):
        for d in (0, 1, 2):
            n = order + d
            for bs, frames in ((max(16, n), max(16, n) * 20), (4096, 4096 + n), (256, 256 * 2 + n), (4096, n)):
                if frames < 1:
                    continue
                jobs.append({"job_id": len(jobs) + 1, "rate": 44100, "bps": rnd.choice([16, 24]), "channels": rnd.choice([1, 2]),
                             "opts": {"block_size": bs, "max_lpc": order, "max_po": rnd.choice([0, 5]), "mid_side": True, "fast_corr": False, "padding": -1, "seektable": "none"},
                             "pcm": {"signal": "altdecay:%d" % (bs if bs < 100 else n), "seed": 99, "frames": frames}})
    sp = os.path.join(wd, "serial.ndjson")
    run_drive("serial", {"out": sp, "jobs": jobs}, wd, tag="serial")
    pools = [1, 2, 3, 4, 8, 16]
    reps = 3 if t == "quick" else 8

    def drive(th):
        tp = os.path.join(wd, "par_%d.ndjson" % th)
        jp = os.path.join(wd, "job_par_%d.json" % th)
        json.dump({"out": tp, "jobs": jobs, "threads": th, "reps": reps, "perturb": seed() * 1000 + th}, open(jp, "w"))
        p = subprocess.run([exe_par, "par", jp], capture_output=True, text=True, timeout=3000)
        if p.returncode != 0:
            sys.stderr.write(p.stderr[-3000:])
            raise ToolError("parallel driver failed")
        return tp

    import subprocess
    traces = parallel(drive, pools, n=3)
    spec, cfg = os.path.join(SPEC, "Trace_ParEncode.tla"), os.path.join(SPEC, "Trace_ParEncode.cfg")
    nruns = 0
    orders = set()
    threads_seen = set()
    overlaps = 0

    def validate(tp):
        merged = tp + ".merged"
        with open(merged, "w") as f:
            f.write(open(sp).read())
            f.write(open(tp).read())
        return tp, tlc_trace(spec, cfg, merged, wd, timeout=3000)

    for tp, tr in parallel(validate, traces, n=6):
        recs = read_ndjson(tp)
        for e in recs:
            nruns += 1
            ends = tuple((x[1], x[2]) for x in e["sched"] if x[0] == 0)[:12]
            orders.add((e["job"], ends))
            for x in e["sched"]:
                threads_seen.add(x[3])
            # how often were two tasks really in flight at once (non-vacuity)
            depth = 0
            for x in e["sched"]:
                if x[0] == 1 and x[1] != "subframe":
                    depth += 1
                    if depth > 1:
                        overlaps += 1
                elif x[0] == 0 and x[1] != "subframe":
                    depth -= 1
        for ln in tr["rejects"]:
            m = re.match(r'<<"REJECT", (\d+), (\d+), "([^"]*)"(.*)>>$', ln, re.S)
            jobid, line, rule = int(m.group(1)), int(m.group(2)), m.group(3)
            j = next(x for x in jobs if x["job_id"] == jobid)
            sig = "%s rule=%s" % (pid, rule)
            v.violation(sig, "rule %s fails for job %s (%s) %s" % (rule, jobid, json.dumps(j), m.group(4)[:200]), {"job": j, "trace": tp})
    distinct_orders = len(orders)
    rc = v.finish()
    if overlaps == 0:
        log("NOTE: no two parallelisable tasks were ever observed in flight together; schedules were not diversified in this run")
    write_evidence(pid, "model_checking", {
        "states": states, "transitions": trans, "traces_validated_against_impl": nruns, "exhaustive": True,
        "samples": [{k: jobs[0][k] for k in ("bps", "channels", "opts")}],
        "rule": "TLC explores every interleaving of the 8 leaf tasks (fixed / LPC candidates of left, right, then average, difference) with their "
                "3 atomic steps and the two joins (DisjointWrites, SameAsSerial) and refutes the aliased-cache and completion-order variants; the "
                "rayon build encodes %d inputs under pools of %s threads x %d seeded schedule perturbations; TLC compares every output with the "
                "serial build's bytes and checks the recorded task schedule (TaskStart/TaskEnd hooks) for overlap on a cache and frame ordering"
                % (len(jobs), pools, reps),
        "distinct_observed_completion_orders": distinct_orders, "threads_observed": len(threads_seen), "concurrent_task_overlaps_observed": overlaps,
        "known_findings_hit": {k: n for k, (kk, n) in v.known_hits.items()}},
        time.time() - t0, len(v.violations),
        ["TLC/SANY, CommunityModules", "real thread schedules are sampled (perturbed with seeded yields / spins / sleeps), exhaustive only in the model",
         "output equality is compared through (length, MD5) computed in the harness"])
    log("[%s] parallel runs=%d distinct completion orders=%d threads=%d overlaps=%d violations=%d known=%d wall=%.1fs" % (
        pid, nruns, distinct_orders, len(threads_seen), overlaps, len(v.violations), len(v.known_hits), time.time() - t0))
    return rc
