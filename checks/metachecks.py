"""C11 (metadata blocks round-trip and report their sizes) and C12 (parsers and accessors are total)."""
import json
import os
import random
import time

from vlib import *
import corpus
from cue import mmssff

HL = lambda v: [v >> 24, v & 0xFFFFFF]
B = lambda s: list(s.encode("utf-8")) if isinstance(s, str) else list(s)


def si(bps=16, channels=2, rate=44100, total=1000, minfs=0, maxfs=0, minbs=4096, maxbs=4096, md5=None):
    return {"kind": "streaminfo", "minbs": minbs, "maxbs": maxbs, "minfs": minfs, "maxfs": maxfs, "rate": rate, "channels": channels, "bps": bps,
            "total": HL(total), "md5": md5 or [0] * 16}


def cue_block(rnd, ntracks, nidx, gap, pregap=False, catalog=True, cdda=True, first_index0_256=False, catalog_len=13, isrc_tail=5, dashed=None):
    """abstract CUESHEET value + the text that builds it through Cuesheet::parse"""
    unit = 588 if cdda else 1
    lines = []
    cat = "".join(rnd.choice("0123456789") for _ in range(catalog_len)) if catalog else ""
    if catalog:
        lines.append("CATALOG " + cat)
    tracks = []
    pos = 0
    for k in range(1, ntracks + 1):
        lines.append("  TRACK %02d AUDIO" % k)
        isrc = ""
        if rnd.random() < 0.4 or isrc_tail != 5 or dashed:
            isrc = "US" + "ABC" + "%02d" % rnd.randint(0, 99) + ("%020d" % rnd.randint(0, 10 ** 12))[20 - isrc_tail:]
            # the text form may separate the four parts of the code with dashes; the block stores the twelve characters
            dash = len(isrc) == 12 and (dashed if dashed is not None else k % 2 == 0)
            lines.append("    ISRC " + (isrc[:2] + "-" + isrc[2:5] + "-" + isrc[5:7] + "-" + isrc[7:] if dash else isrc))
        pre = rnd.random() < 0.3
        if pre:
            lines.append("    FLAGS PRE")
        base = pos
        idx = []
        start = 0 if (pregap or first_index0_256) else 1
        for i in range(nidx):
            num = start + i
            lines.append("    INDEX %02d %s" % (num, mmssff(pos) if cdda else str(pos)))
            idx.append({"offset": HL((pos - base) * unit), "number": num})
            pos += gap
        tracks.append({"offset": HL(base * unit), "number": k, "isrc": B(isrc) if isrc else [0] * 12, "nonaudio": False, "pre": pre, "index": idx})
    total = (pos + 7) * unit + (0 if cdda else 1)
    tracks.append({"offset": HL(total), "number": 170 if cdda else 255, "isrc": [0] * 12, "nonaudio": False, "pre": False, "index": []})
    return {"kind": "cuesheet", "catalog": B(cat), "leadin": HL(88200 if cdda else 0), "cdda": cdda, "tracks": tracks,
            "text": "\n".join(lines) + "\n", "text_total": total}


def c11_items(t, rnd):
    items = []

    def add(cls, blocks, **kw):
        items.append(dict({"id": len(items) + 1, "class": cls, "blocks": blocks}, **kw))

    # STREAMINFO extremes
    for bps in (1, 2, 4, 16, 31, 32):
        for ch in (1, 8):
            for rate in (0, 44100, 1048575):
                add("streaminfo", [si(bps=bps, channels=ch, rate=rate, total=rnd.choice([0, 1, (1 << 36) - 1]), minfs=rnd.choice([0, 16777215]),
                                      maxfs=rnd.choice([0, 16777215]), minbs=rnd.choice([0, 16, 65535]), maxbs=rnd.choice([16, 65535]),
                                      md5=rnd.choice([None, [rnd.randint(0, 255) for _ in range(16)]]))])
    # padding / application
    for n in (0, 1, 7, 300):
        add("padding", [si(), {"kind": "padding", "size": n}])
        add("application", [si(), {"kind": "application", "id": [rnd.randint(0, 65535), rnd.randint(0, 65535)], "data": [rnd.randint(0, 255) for _ in range(n)]}])
    add("padding-twice", [si(), {"kind": "padding", "size": 3}, {"kind": "padding", "size": 0}])
    # seek tables
    d = lambda s, o, n: ["d", HL(s), HL(o), n]
    add("seektable-empty", [si(), {"kind": "seektable", "points": []}])
    add("seektable-placeholders", [si(), {"kind": "seektable", "points": [["p"], ["p"]]}])
    add("seektable-ascending", [si(), {"kind": "seektable", "points": [d(0, 0, 4096), d(4096, 3000, 4096), d(1 << 35, 1 << 33, 65535), ["p"]]}])
    add("seektable-equal", [si(), {"kind": "seektable", "points": [d(0, 0, 16), d(0, 0, 16)]}])
    add("seektable-descending", [si(), {"kind": "seektable", "points": [d(4096, 10, 16), d(0, 0, 16)]}])
    add("seektable-defined-after-placeholder", [si(), {"kind": "seektable", "points": [["p"], d(0, 0, 16)]}])
    # comments
    lens = [0, 1, 2, 255, 256]
    for nf in (0, 1, 2, 3):
        for _ in range(3):
            fields = []
            for _k in range(nf):
                n = rnd.choice(lens)
                body = "TITLE=" + "".join(rnd.choice(["a", "é", "語", "=", " ", "😀"]) for _ in range(n))
                fields.append(B(body) if n else rnd.choice([B(""), B("X=")]))
            add("comment", [si(), {"kind": "comment", "vendor": B(rnd.choice(["", "v", "référence libFLAC 1.4.3 語"])), "fields": fields}])
    # long comment strings (vendor and fields) of mixed 1- / 2- / 3- / 4-byte characters, lengths around 4 KiB and 8 KiB page edges:
    # wherever a reader cuts a long string into pieces, some character straddles the cut
    for n in (4094, 4095, 4096, 4097, 4099, 8190, 8193, 12289):
        for shift in (0, 1, 2, 3):
            body = ("a" * shift) + "".join(["\u00e9", "\u8a9e", "\U0001F600", "z"][(i + shift) % 4] for i in range(n))
            raw = body.encode()[:n + 16]
            while True:
                try:
                    raw.decode()
                    break
                except UnicodeDecodeError:
                    raw = raw[:-1]
            txt = raw.decode()
            add("comment-long", [si(), {"kind": "comment", "vendor": B(txt if shift % 2 else "v"), "fields": [B("TITLE=" + txt), B("X=y")]}])
    # comment fields that an accessor interprets (channel mask): well-formed, malformed, non-ASCII at every small offset
    for val in ("0x3F", "0X3F", "0x0", "0x", "0", "x", "", "0xZZ", "0x100000000", "0xFFFFFFFF", "3F", " 0x3F", "0x 3F", "0é3", "€1", "0x€", "é", "00é",
                "0xé", "語0x3", "0x" + "F" * 40, "-0x1", "0x-1", "0x+1"):
        for key in ("WAVEFORMATEXTENSIBLE_CHANNEL_MASK", "waveformatextensible_channel_mask"):
            add("comment-channel-mask", [si(channels=rnd.choice([1, 2, 6, 8])), {"kind": "comment", "vendor": B("v"), "fields": [B("TITLE=x"), B(key + "=" + val)]}])
    # pictures
    for pt in range(0, 22):
        add("picture-type-%d" % pt, [si(), {"kind": "picture", "ptype": pt, "mime": B(rnd.choice(["", "image/png", "-->"])), "desc": B(rnd.choice(["", "cover", "語" * 5])),
                                            "width": rnd.choice([0, 1, 2147483647]), "height": rnd.choice([0, 32, 2147483647]), "depth": rnd.choice([0, 24]),
                                            "colors": rnd.choice([0, 256]), "data": [rnd.randint(0, 255) for _ in range(rnd.choice([0, 1, 50]))]}])
    # cue sheets (through the text importer, the public constructor)
    for (nt, ni, gap, pg) in ((1, 1, 5, False), (2, 2, 75, True), (3, 3, 4500, False), (99, 1, 3, False), (1, 99, 2, False), (1, 100, 1, True), (5, 2, 450000, True)):
        add("cuesheet-cdda", [si(), cue_block(rnd, nt, ni, gap, pregap=pg)])
    for (nt, ni, gap, pg) in ((1, 1, 5, False), (2, 3, 1000, True), (254, 1, 7, False), (1, 254, 3, False), (1, 255, 1, True)):
        add("cuesheet-noncdda", [si(), cue_block(rnd, nt, ni, gap, pregap=pg, cdda=False, catalog=False)])
    # field widths: the binary catalog field holds 128 digits, the ISRC field 12 characters - values of other lengths must either be
    # refused when the block is built / written, or read back as they were
    for n in (1, 12, 14, 127, 128, 129, 130, 200):
        add("cuesheet-noncdda-catalog-%d" % n, [si(), cue_block(rnd, 2, 2, 100, cdda=False, catalog=True, catalog_len=n)])
    for tail in (0, 2, 4, 6, 10):
        add("cuesheet-isrc-%d" % (7 + tail), [si(), cue_block(rnd, 2, 1, 100, cdda=rnd.random() < 0.5, catalog=False, isrc_tail=tail)])
    add("cuesheet-isrc-dashed", [si(), cue_block(rnd, 3, 1, 100, catalog=False, dashed=True)])
    add("cuesheet-isrc-dashed", [si(), cue_block(rnd, 2, 2, 10, cdda=False, catalog=False, dashed=True)])
    add("cuesheet-noncdda-256-indices", [si(), cue_block(rnd, 1, 256, 1, cdda=False, catalog=False, first_index0_256=True)])
    # lists breaking the single-instance rules
    vc = {"kind": "comment", "vendor": B("v"), "fields": []}
    st = {"kind": "seektable", "points": []}
    pic = lambda tpe: {"kind": "picture", "ptype": tpe, "mime": B("image/png"), "desc": [], "width": 32, "height": 32, "depth": 24, "colors": 0, "data": [1, 2, 3]}
    add("two-comments", [si(), vc, vc])
    add("two-seektables", [si(), st, st])
    add("two-png-icons", [si(), pic(1), pic(1)])
    add("two-general-icons", [si(), pic(2), pic(2)])
    add("two-other-pictures", [si(), pic(3), pic(3), pic(0), pic(0)])
    add("two-streaminfos", [si(), si()])
    add("streaminfo-not-first", [vc, si()])
    add("no-streaminfo", [vc])
    add("empty-list", [])
    add("everything", [si(), vc, st, pic(1), pic(2), pic(3), {"kind": "application", "id": [1, 2], "data": [9]}, cue_block(rnd, 2, 2, 30), {"kind": "padding", "size": 10}])
    # the 24-bit size limit (bodies too large to serialise inside TLC: sizes only)
    M = (1 << 24) - 1
    heavy = [("padding-max", {"kind": "padding", "size": M}, True, M), ("padding-over", {"kind": "padding", "size": M + 1}, False, 0),
             ("application-max", {"kind": "application", "id": [1, 2], "data": {"fill": 7, "len": M - 4}}, True, M),
             ("application-over", {"kind": "application", "id": [1, 2], "data": {"fill": 7, "len": M - 3}}, False, 0),
             ("picture-over", {"kind": "picture", "ptype": 3, "mime": [], "desc": [], "width": 1, "height": 1, "depth": 1, "colors": 0, "data": {"fill": 1, "len": M - 31}}, False, 0),
             ("picture-max", {"kind": "picture", "ptype": 3, "mime": [], "desc": [], "width": 1, "height": 1, "depth": 1, "colors": 0, "data": {"fill": 1, "len": M - 32}}, True, M),
             ("comment-over", {"kind": "comment", "vendor": {"fill": 65, "len": M - 7}, "fields": []}, False, 0)]
    for cls, blk, ok, size in heavy:
        items.append({"id": len(items) + 1, "class": cls, "blocks": [si(), blk], "heavy": True, "expect_valid": ok, "expect_sizes": [34, size],
                      "expect_len": 4 + 4 + 34 + 4 + size})
    return items


def run_c11(pid):
    t0 = time.time()
    t = tier()
    wd = workdir(pid)
    v = Verdict(pid)
    build_harness("release")
    # ---- BlockSeq: reader / writer acceptors agree on every kind sequence
    mp = write_text(os.path.join(wd, "MCBS.tla"), '---- MODULE MCBS ----\nEXTENDS BlockSeq\ncKinds == {"si", "pad", "app", "seek", "vc", "cue", "pic", "png", "icon"}\n====\n')
    cp = write_text(os.path.join(wd, "MCBS.cfg"), "CONSTANTS\n Kinds <- cKinds\n MaxLen = %d\nSPECIFICATION Spec\nINVARIANT SameLanguage MatchesFormat\nCHECK_DEADLOCK FALSE\n" % (5 if t == "quick" else 6))
    r = tlc_model_check(mp, cp, wd, workers=8)
    states, trans = r["distinct"], r["generated"]
    log("[%s] TLC: BlockSeq %d block-kind sequences: reader and writer acceptors agree with each other and with the format" % (pid, states))
    rnd = random.Random(seed() * 47 + 11)
    items = c11_items(t, rnd)
    if t == "thorough":
        for _ in range(4):
            items += [dict(it, id=len(items) + i + 1) for i, it in enumerate(c11_items(t, rnd)) if not it.get("heavy")]
    # the harness needs the text of cue sheets, the model only the abstract value: both live in the item
    parts = [items[i::8] for i in range(8)]

    def drive(ip):
        i, part = ip
        tp = os.path.join(wd, "trace_%d.ndjson" % i)
        return tp, run_drive("blocks", {"out": tp, "items": part}, wd, tag=str(i), timeout=3000)

    outs = parallel(drive, [(i, p) for i, p in enumerate(parts) if p], n=8)
    # heavy items: carry the expectations into the trace
    byid = {it["id"]: it for it in items}
    for tp, _ in outs:
        recs = read_ndjson(tp)
        with open(tp, "w") as f:
            for e in recs:
                it = byid[e["id"]]
                if it.get("heavy"):
                    e.update({"heavy": True, "expect_valid": it["expect_valid"], "expect_sizes": it["expect_sizes"], "expect_len": it["expect_len"], "blocks": []})
                f.write(json.dumps(e) + "\n")
    spec, cfg = os.path.join(SPEC, "Trace_Blocks.tla"), os.path.join(SPEC, "Trace_Blocks.cfg")
    outcomes = {}
    notes = 0
    for tp, tr in parallel(lambda o: (o[0], tlc_trace(spec, cfg, o[0], wd, timeout=3000)), outs, n=8):
        for e in read_ndjson(tp):
            outcomes[e["ret"]] = outcomes.get(e["ret"], 0) + 1
        notes += len(tlc_lines(tr["out"], "NOTE"))
        for ln in tlc_lines(tr["out"], "NOTE")[:3]:
            log("NOTE " + ln[:300])
        for ln in tr["rejects"]:
            m = re.match(r'<<"REJECT", (\d+), (\d+), "([^"]*)", "([^"]*)"(.*)>>$', ln, re.S)
            iid, rule, cls = int(m.group(1)), m.group(3), m.group(4)
            it = byid[iid]
            loc = re.search(r"@(\S+?)\"?$", m.group(5).strip().rstrip(">"))
            sig = "%s rule=%s class=%s" % (pid, rule, re.sub(r"-\d+$", "", cls))
            v.violation(sig, "rule %s fails for item %d (%s)%s" % (rule, iid, cls, m.group(5)[:300]),
                        {"blocks": [{k: b[k] for k in b if k not in ("data",)} for b in it["blocks"]][:6], "class": cls})
    # ---- converse direction: byte encodings the reader accepts are written again and re-read equal
    lists = []
    for it in items:
        if not it.get("heavy") and all(b["kind"] != "cuesheet" or b["cdda"] or True for b in it["blocks"]):
            lists.append({"id": it["id"], "blocks": [{k: b[k] for k in b if k not in ("text", "text_total")} for b in it["blocks"]]})
    pp = os.path.join(wd, "lists.ndjson")
    with open(pp, "w") as f:
        for x in lists:
            f.write(json.dumps(x) + "\n")
    g = tlc(os.path.join(SPEC, "Gen_Meta.tla"), os.path.join(SPEC, "Gen_Meta.cfg"), wd, workers=1, env={"PLANS": pp}, timeout=3000)
    if not tlc_lines(g["out"], "TRACE-DONE"):
        sys.stderr.write(g["out"][-3000:])
        raise ToolError("Gen_Meta failed")
    enc = gen_payloads(g["out"])
    titems = [{"id": e["id"], "kind": "blocks", "class": byid[e["id"]]["class"], "bytes": e["bytes"], "expect_valid": e["valid"] and not byid[e["id"]]["class"].startswith(("seektable-equal", "seektable-desc", "seektable-defined", "picture-type-21", "cuesheet-noncdda-256"))} for e in enc]
    # accepted byte encodings no public text constructor produces: fields of single tracks altered inside valid cue sheet encodings -
    # the lead-out track (the last 36 bytes of the block: offset 8, number 1, ISRC 12, flags 1, reserved 13, index count 1) and the
    # first track given an ISRC / flags; seek points rewritten as placeholders.  Whatever the reader accepts must be re-written equal.
    nid = max(t_["id"] for t_ in titems) + 1000
    for e in enc:
        cls = byid[e["id"]]["class"]
        b = e["bytes"]
        if cls.startswith("cuesheet") and e["valid"] and len(b) > 4 + 38 + 4 + 396 + 36:
            for isrc, flags in ((b"USABC0012345", 0x00), (bytes(12), 0xC0), (bytes(12), 0x80), (b"USABC0012345", 0x40)):
                bb = list(b)
                bb[len(bb) - 27:len(bb) - 15] = list(isrc)
                bb[len(bb) - 15] = flags
                nid += 1
                titems.append({"id": nid, "kind": "blocks", "class": "cuesheet-leadout-fields", "bytes": bb, "expect_valid": False})
    byid.update({t_["id"]: {"class": t_["class"]} for t_ in titems if t_["id"] not in byid})
    tp2 = os.path.join(wd, "trace_conv.ndjson")
    run_drive("total", {"out": tp2, "items": titems}, wd, tag="conv")
    tr = tlc_trace(os.path.join(SPEC, "Trace_Total.tla"), os.path.join(SPEC, "Trace_Total.cfg"), tp2, wd, env={"PROP": "C11"})
    for ln in tr["rejects"]:
        m = re.match(r'<<"REJECT", (\d+), (\d+), "([^"]*)", "([^"]*)", "([^"]*)"(.*)>>$', ln, re.S)
        iid, rule, cls = int(m.group(1)), m.group(3), m.group(5)
        sig = "%s rule=%s class=%s" % (pid, rule, re.sub(r"-\d+$", "", cls))
        v.violation(sig, "rule %s fails for the byte encoding of item %d (%s)%s" % (rule, iid, cls, m.group(6)[:300]), {"class": cls})
    ca = comment_algebra(wd, t)
    bo = blocklist_ops(wd, t)
    log("[%s] growth: BlockListOps %d states, %d histories replayed on BlockList, %d mismatches (non-gating)" % (pid, bo["states"], bo["histories"], bo["mismatches"]))
    log("[%s] growth: CommentAlgebra %d states, %d histories replayed on VorbisComment, %d mismatches (non-gating)" % (pid, ca["states"], ca["histories"], ca["mismatches"]))
    rc = v.finish()
    classes = sorted({re.sub(r"-\d+$", "", it["class"]) for it in items})
    write_evidence(pid, "model_checking", {
        "states": states, "transitions": trans, "traces_validated_against_impl": len(items) + len(titems), "exhaustive": False,
        "samples": [{"class": items[0]["class"], "blocks": items[0]["blocks"]}, {"class": items[40]["class"]}],
        "rule": "TLC checks BlockSeq (reader and writer acceptors accept the same block-kind sequences up to length %d, = the format's rule). "
                "Block values chosen by class (STREAMINFO extremes incl. depth 1 / 32, rate 0 / 2^20-1, total 2^36-1; comments with 0-3 fields of byte "
                "lengths 0/1/2/255/256 and multi-byte UTF-8; every picture type 0-21; application / padding sizes up to and past 2^24-1; seek tables "
                "empty / placeholders / ascending / equal / descending / defined-after-placeholder; CD-DA and non-CD-DA cue sheets at their limits; "
                "lists breaking each single-instance rule) are built through the public constructors, written, measured and read back; Trace_Blocks "
                "(TLC) requires the written bytes to equal MetaFormat.MetaSerialize, bytes() to equal the body size, equal read-back, and an error (not "
                "a panic) for invalid lists; the MetaSerialize encodings are also fed to the reader, re-written and re-read (converse direction)"
                % (5 if t == "quick" else 6),
        "classes": classes, "outcomes": outcomes, "valid_lists_refused_notes": notes, "growth_comment_algebra": ca, "growth_blocklist_ops": bo,
        "known_findings_hit": {k: n for k, (kk, n) in v.known_hits.items()}},
        time.time() - t0, len(v.violations),
        ["TLC/SANY, CommunityModules", "MetaFormat is written from RFC 9639 as I know it", "free-text fields are covered by length / encoding classes only"])
    log("[%s] items=%d outcomes=%s violations=%d known=%d wall=%.1fs" % (pid, len(items), outcomes, len(v.violations), len(v.known_hits), time.time() - t0))
    return rc


# =============================================================================== C12
TOKENS = [
    "CATALOG 1234567890123", "CATALOG 12345", "CATALOG", 'CATALOG "12345678901ab"',
    "TRACK 01 AUDIO", "TRACK 02 AUDIO", "TRACK 03 AUDIO", "TRACK 00 AUDIO", "TRACK 256 AUDIO", "TRACK 01", "TRACK x AUDIO",
    "INDEX 00 {p0}", "INDEX 01 {p0}", "INDEX 01 {p1}", "INDEX 02 {p2}", "INDEX 01 {pearly}", "INDEX 255 {p2}", "INDEX 01 {phuge}", "INDEX 01 {pbad}", "INDEX 1",
    "INDEX 256 {p1}", "ISRC USABC1234567", "ISRC US-ABC-12-34567", "ISRC 12", "FLAGS PRE", "FLAGS DCP PRE", "REM x", "",
]


def render_tokens(seq, cdda, rnd):
    pos = {"p0": 0, "p1": 150, "p2": 4500 * 3 + 7, "pearly": 75}
    lines = []
    # make "pearly" really earlier than the first index of its track: put a later first index in front when asked
    for k in seq:
        tok = TOKENS[k]
        if "{phuge}" in tok:
            tok = tok.replace("{phuge}", "99999999999999999:00:00" if cdda else "18446744073709551615")
        elif "{pbad}" in tok:
            tok = tok.replace("{pbad}", rnd.choice(["00:60:00", "00:00:75", "1:2", "-1:00:00", "aa:bb:cc", "18446744073709551616:00:00"]))
        else:
            for name, secs in pos.items():
                if "{%s}" % name in tok:
                    tok = tok.replace("{%s}" % name, mmssff(secs) if cdda else str(secs * 588 + 1))
        lines.append(tok)
    return "\n".join(lines) + "\n"


def sniff_items(rnd):
    out = []
    png_sig = [0x89, 0x50, 0x4E, 0x47, 0x0D, 0x0A, 0x1A, 0x0A]
    be = lambda v, n: [(v >> (8 * (n - 1 - i))) & 255 for i in range(n)]
    for depth in (1, 8, 16, 64, 85, 86, 128, 255):
        for ctype in range(0, 8):
            ihdr = be(13, 4) + list(b"IHDR") + be(rnd.choice([0, 1, 2 ** 32 - 1]), 4) + be(32, 4) + [depth, ctype, 0, 0, 0] + be(0, 4)
            for tail in ([], be(6, 4) + list(b"PLTE") + [0] * 6 + be(0, 4), be(7, 4) + list(b"PLTE") + [0] * 7 + be(0, 4),
                         be(2 ** 32 - 1, 4) + list(b"junk"), be(5, 4) + list(b"tEXt") + [1, 2, 3]):
                out.append(("png d%d c%d" % (depth, ctype), png_sig + ihdr + tail))
    out.append(("png short", png_sig + [0, 0, 0]))
    out.append(("png bad ihdr len", png_sig + be(12, 4) + list(b"IHDR") + [0] * 20))
    for prec in (1, 8, 12, 16, 64, 128, 255):
        for comp in (0, 1, 3, 4, 255):
            sof = [0xFF, 0xC0] + be(17, 2) + [prec] + be(600, 2) + be(800, 2) + [comp]
            for pre in ([], [0xFF, 0xE0] + be(4, 2) + [0, 0], [0xFF, 0xE0] + be(2, 2), [0xFF, 0xE0] + be(0, 2), [0xFF, 0xE0] + be(1, 2), [0xFF, 0xDB] + be(65535, 2) + [0] * 10):
                out.append(("jpeg p%d c%d" % (prec, comp), [0xFF, 0xD8] + pre + sof))
    out.append(("jpeg no marker", [0xFF, 0xD8, 0xFF, 0xD9, 0x00]))
    out.append(("jpeg bare", [0xFF, 0xD8, 0xFF]))
    gif = list(b"GIF89a") + [0x20, 0x03, 0x58, 0x02, 0xF7, 0, 0]
    for n in range(0, len(gif) + 1):
        out.append(("gif cut %d" % n, gif[:n]))
    for flags in (0, 7, 0x80, 0xFF):
        out.append(("gif flags", list(b"GIF87a") + [1, 0, 1, 0, flags, 0, 0]))
    out.append(("other", [1, 2, 3, 4]))
    out.append(("empty", []))
    return out


def wellformed_images(rnd, n):
    """syntactically well-formed PNG / JPEG / GIF headers in many shapes (chunk / segment sequences chosen at random);
    what they MEAN is decided by PictureSniff.tla, not here"""
    be = lambda v, k: [(v >> (8 * (k - 1 - i))) & 255 for i in range(k)]
    out = []
    for i in range(n):
        kind = ("png", "jpeg", "gif")[i % 3]
        if kind == "png":
            w, h = rnd.choice([1, 2, 255, 256, 65535, 65536, 2 ** 31 - 1, 2 ** 31, 2 ** 32 - 1]), rnd.choice([1, 7, 65536, 2 ** 32 - 1])
            ct = rnd.choice([0, 2, 3, 3, 4, 6])
            bd = rnd.choice([1, 2, 4, 8, 16])
            b = [0x89, 0x50, 0x4E, 0x47, 0x0D, 0x0A, 0x1A, 0x0A] + be(13, 4) + list(b"IHDR") + be(w, 4) + be(h, 4) + [bd, ct, 0, 0, rnd.choice([0, 1])] + be(rnd.getrandbits(32), 4)
            for _ in range(rnd.randint(0, 3)):
                ln = rnd.choice([0, 1, 4, 9, 300])
                b += be(ln, 4) + list(rnd.choice([b"gAMA", b"tEXt", b"sRGB", b"pHYs", b"cHRM"])) + [rnd.randrange(256) for _ in range(ln)] + be(0, 4)
            if ct == 3 or rnd.random() < 0.2:
                entries = rnd.choice([0, 1, 2, 16, 255, 256])
                if rnd.random() < 0.15:
                    b += be(entries * 3 + 1, 4) + list(b"PLTE") + [0] * (entries * 3 + 1) + be(0, 4)      # not a multiple of 3
                elif rnd.random() < 0.9:
                    b += be(entries * 3, 4) + list(b"PLTE") + [rnd.randrange(256) for _ in range(entries * 3)] + be(0, 4)
            b += be(rnd.choice([0, 10]), 4) + list(b"IDAT") + [0] * 10 + be(0, 4) + be(0, 4) + list(b"IEND") + be(0, 4)
        elif kind == "jpeg":
            b = [0xFF, 0xD8]
            for _ in range(rnd.randint(1, 4)):
                if rnd.random() < 0.1:
                    b += [0xFF] * rnd.randint(1, 3)                     # fill bytes before a marker (T.81 B.1.1.2)
                m = rnd.choice([0xE0, 0xE1, 0xE2, 0xED, 0xEE, 0xDB, 0xC4, 0xFE, 0xDD, 0xCC, 0xC8, 0xF0])
                ln = rnd.choice([2, 3, 4, 16, 67, 300])
                b += [0xFF, m] + be(ln, 2) + [rnd.randrange(256) for _ in range(ln - 2)]
            sof = rnd.choice([0xC0, 0xC1, 0xC2, 0xC3, 0xC5, 0xC6, 0xC7, 0xC9, 0xCA, 0xCB, 0xCD, 0xCE, 0xCF])
            comps = rnd.choice([1, 3, 4])
            b += [0xFF, sof] + be(8 + 3 * comps, 2) + [rnd.choice([8, 12, 16])] + be(rnd.choice([1, 600, 65535]), 2) + be(rnd.choice([1, 800, 65535]), 2) + [comps] + [1, 0x11, 0] * comps
            b += [0xFF, 0xDA, 0, 2, 1, 2, 3, 0xFF, 0xD9]
        else:
            b = list(rnd.choice([b"GIF87a", b"GIF89a"])) + [rnd.randrange(256) for _ in range(4)] + [rnd.randrange(256), rnd.randrange(256), 0] + [rnd.randrange(256) for _ in range(rnd.choice([0, 6, 30]))]
        out.append((kind + "-wellformed", b))
    return out


def sniff_growth(wd, pid, items, traces):
    """Growth beyond the listed properties (non-gating): what Picture::new reports against PictureSniff.tla."""
    byid = {it["id"]: it for it in items if it["kind"] == "sniff"}
    tp = os.path.join(wd, "trace_sniff.ndjson")
    n = 0
    pair = lambda v: [v >> 16, v & 0xFFFF]
    with open(tp, "w") as f:
        for src in traces:
            for e in read_ndjson(src):
                if e.get("ev") != "total" or e.get("kind") != "sniff" or e["ret"] == "panic":
                    continue
                ev = {"ev": "sniff", "id": e["id"], "class": e["class"], "bytes": byid[e["id"]]["bytes"], "ret": e["ret"],
                      "mime": "", "width": [0, 0], "height": [0, 0], "depth": 0, "colors": 0}
                if e["ret"] == "ok":
                    m = re.match(r"(\S+) (\d+)x(\d+) depth=(\d+) colors=(?:None|Some\((\d+)\))$", e["msg"])
                    if not m:
                        raise ToolError("cannot parse sniff result " + e["msg"])
                    ev.update({"mime": m.group(1), "width": pair(int(m.group(2))), "height": pair(int(m.group(3))), "depth": int(m.group(4)),
                               "colors": int(m.group(5) or 0)})
                f.write(json.dumps(ev) + "\n")
                n += 1
    tr = tlc_trace(os.path.join(SPEC, "Trace_Sniff.tla"), os.path.join(SPEC, "Trace_Sniff.cfg"), tp, wd, timeout=1200)
    kinds = {}
    for ln in tr["rejects"]:
        m = re.match(r'<<"REJECT", (\d+), (\d+), "growth.sniff", "(\w+)", "([^"]*)">>', ln)
        key = "%s expected-%s" % (m.group(4), m.group(3))
        kinds[key] = kinds.get(key, 0) + 1
    for k, c in sorted(kinds.items()):
        log("GROWTH-SPEC-MISMATCH module=PictureSniff class=%s count=%d" % (k, c))
    notes = len(tlc_lines(tr["out"], "NOTE")) if "out" in tr else 0
    return {"calls": n, "mismatches": len(tr["rejects"]), "mismatch_classes": kinds, "named_deviation_jpeg_fill_bytes_refused": notes}


def damaged_metadata_sections(wd, t, rnd):
    """the format model's encodings of the C11 block classes, then every declared size pushed to 0 / actual-1 / actual+1 / 2^24-1,
    the first body bytes (counts, lengths) overwritten, reserved block types.  Returns (lists, encodings by id, [(class, bytes)])."""
    clist = [it for it in c11_items(t, rnd) if not it.get("heavy")]
    pp = os.path.join(wd, "lists.ndjson")
    with open(pp, "w") as f:
        for x in clist:
            f.write(json.dumps({"id": x["id"], "blocks": [{k: b[k] for k in b if k not in ("text", "text_total")} for b in x["blocks"]]}) + "\n")
    g = tlc(os.path.join(SPEC, "Gen_Meta.tla"), os.path.join(SPEC, "Gen_Meta.cfg"), wd, workers=1, env={"PLANS": pp}, timeout=3000)
    if not tlc_lines(g["out"], "TRACE-DONE"):
        raise ToolError("Gen_Meta failed")
    encs = {e["id"]: e for e in gen_payloads(g["out"])}
    out = []
    for x in clist:
        e = encs[x["id"]]
        b = e["bytes"]
        out.append(("valid:" + re.sub(r"-\d+$", "", x["class"]), b))
        if len(b) < 8:
            continue
        # declared size of each block pushed around; counts inside bodies; every field boundary is covered by truncations elsewhere
        off = 4
        nb = 0
        while off + 4 <= len(b) and nb < 6:
            size = (b[off + 1] << 16) | (b[off + 2] << 8) | b[off + 3]
            for ns in (0, max(0, size - 1), size + 1, (1 << 24) - 1):
                bb = list(b)
                bb[off + 1:off + 4] = [(ns >> 16) & 255, (ns >> 8) & 255, ns & 255]
                out.append(("declared-size", bb))
            # first body bytes often hold a count / length: corrupt them
            for k in range(min(8, size)):
                for val in (0, 255):
                    bb = list(b)
                    bb[off + 4 + k] = val
                    out.append(("body-field", bb))
            bb = list(b)
            bb[off] = (bb[off] & 0x80) | rnd.choice([7, 8, 126, 127])       # reserved / invalid block types
            out.append(("block-type", bb))
            off += 4 + size
            nb += 1
        # text fields inside binary blocks: valid UTF-8 with multi-byte characters at every offset of a track's 12-byte ISRC and of the
        # 128-byte catalog number (both are ASCII by the format; a reader that slices them must not assume it)
        if x["class"].startswith("cuesheet") and len(x["blocks"]) == 2 and len(b) > 4 + 38 + 4 + 396 + 36:
            body = 4 + 38 + 4
            for ch in ("\u00e9", "\u8a9e", "\U0001F600"):
                enc_ = list(ch.encode())
                for pos in range(0, 13 - len(enc_)):
                    isrc = [0x41 + (i % 26) if i < 5 else 0x30 + (i % 10) for i in range(12)]
                    isrc[pos:pos + len(enc_)] = enc_
                    bb = list(b)
                    bb[body + 396 + 9:body + 396 + 21] = isrc
                    out.append(("cuesheet-text-field", bb))
                for pos in (0, 1, 12, 13):
                    bb = list(b)
                    bb[body + pos:body + pos + len(enc_)] = enc_
                    out.append(("cuesheet-text-field", bb))
            # 64-bit offsets at their extremes: lead-in, the first track's offset, its first index point's offset (track record at
            # body + 396: offset 8, number 1, ISRC 12, flags 1, reserved 13, index count 1; index: offset 8, number 1, reserved 3)
            U = 1 << 64
            t0 = body + 396
            for toff, ioff in ((U - 1, None), (U - 3, 10), (U - 2, 1), (1 << 63, 1 << 63), (None, U - 1), ((1 << 63) - 1, 1), (U - 588, 588), (U - 1176, 588)):
                bb = list(b)
                if toff is not None:
                    bb[t0:t0 + 8] = list(toff.to_bytes(8, "big"))
                if ioff is not None and bb[t0 + 35] >= 1:
                    bb[t0 + 36:t0 + 44] = list(ioff.to_bytes(8, "big"))
                out.append(("cuesheet-offsets", bb))
            for lead in (U - 1, 1 << 63):
                bb = list(b)
                bb[body + 128:body + 136] = list(lead.to_bytes(8, "big"))
                out.append(("cuesheet-offsets", bb))
            # the same for every later track (its record is found by walking the track list); offsets kept ascending so that the
            # sheet still parses: the last real track far out, the lead-out just behind it
            ntr = b[body + 395]
            recs = []
            pos = t0
            for _ in range(ntr):
                if pos + 36 > len(b):
                    break
                recs.append(pos)
                pos += 36 + 12 * b[pos + 35]
            if len(recs) >= 3:
                last_real, leadout = recs[-2], recs[-1]
                for toff, lo_ in ((U - 2 - 588 * 2, U - 588 * 2 + 586), (U - 1176, U - 588), ((1 << 63), (1 << 63) + 588), (U - 3, U - 2), (U - 12, U - 1)):
                    bb = list(b)
                    bb[last_real:last_real + 8] = list(toff.to_bytes(8, "big"))
                    bb[leadout:leadout + 8] = list(lo_.to_bytes(8, "big"))
                    out.append(("cuesheet-offsets", bb))
                    if bb[last_real + 35] >= 2:
                        b2 = list(bb)
                        b2[last_real + 36 + 12:last_real + 36 + 20] = list((10).to_bytes(8, "big"))
                        out.append(("cuesheet-offsets", b2))
    return clist, encs, out


def chmask_growth(wd, t):
    """Growth beyond the listed properties (non-gating): ChannelMask text form, Display, channels(), default masks and
    Metadata::channel_mask() against ChannelMask.tla."""
    alphabet = ["0", "x", "3", "f", "F", "+", "g"] + ([] if t == "quick" else [" ", "X"])
    masks = [0, 1, 3, 4, 7, 0x33, 0x123, 0x607, 0x60F, 0x70F, 0x63F, 0xFFFF, 0x10000, 0x3FFFF, 0x40000, 0x12345, 0xFFFFF, 0x7FFFFFFF, 0x7FFC0000]
    consts = "cAlphabet == {%s}\ncMasks == {%s}\n" % (", ".join('"%s"' % a for a in alphabet), ", ".join(str(m) for m in masks))
    cfgc = "CONSTANTS\n Alphabet <- cAlphabet\n MaxLen = 5\n Masks <- cMasks\n PlusAccepted = TRUE\n"
    mp = write_text(os.path.join(wd, "MCCM.tla"), "---- MODULE MCCM ----\nEXTENDS ChannelMask, SequencesExt\n" + consts +
                    'ASSUME PrintT(<<"STAT", RoundTrip, DefaultsHaveTheirChannelCount, ChannelsAscending, CaseInsensitiveDigits>>)\n'
                    'ASSUME PrintT(<<"GEN", ToJson([texts |-> SetToSeq(Texts), masks |-> SetToSeq(Masks)])>>)\n====\n')
    cp = write_text(os.path.join(wd, "MCCM.cfg"), cfgc + "INIT Init\nNEXT Next\n")
    r = tlc(mp, cp, wd, workers=1, timeout=1200)
    stat = tlc_lines(r["out"], "STAT")
    if r["errors"] or not stat or "FALSE" in stat[0]:
        sys.stderr.write(r["out"][-2000:])
        raise ToolError("ChannelMask laws do not hold in the model")
    gen = gen_payloads(r["out"])[0]
    tp = os.path.join(wd, "trace_chmask.ndjson")
    res = run_drive("chmask", {"out": tp, "texts": gen["texts"], "masks": gen["masks"]}, wd, tag="chmask")
    outcomes = {}
    for e in read_ndjson(tp):
        if e["ev"] == "parse":
            k = "mask" if e["mask"] >= 0 else {-1: "refused", -2: "beyond-model", -9: "panic"}[e["mask"]]
            outcomes[k] = outcomes.get(k, 0) + 1
    tm = write_text(os.path.join(wd, "TRCM.tla"), "---- MODULE TRCM ----\nEXTENDS Trace_ChannelMask\n" + consts + "====\n")
    tc = write_text(os.path.join(wd, "TRCM.cfg"), cfgc + "SPECIFICATION TSpec\nPOSTCONDITION Post\nCHECK_DEADLOCK FALSE\n")
    tr = tlc_trace(tm, tc, tp, wd)
    for ln in tr["rejects"][:5]:
        log("GROWTH-SPEC-MISMATCH module=ChannelMask " + ln[:300])
    return {"texts": len(gen["texts"]), "masks": len(gen["masks"]), "events": res["events"], "parse_outcomes": outcomes, "mismatches": len(tr["rejects"])}


def run_c12(pid):
    t0 = time.time()
    t = tier()
    wd = workdir(pid)
    v = Verdict(pid)
    build_harness("release")
    build_harness("checked")
    rnd = random.Random(seed() * 53 + 12)
    items = []

    def add(kind, cls, **kw):
        items.append(dict({"id": len(items) + 1, "kind": kind, "class": cls}, **kw))

    # (a) cue token sequences enumerated by TLC
    L = 3 if t == "quick" else 4
    seqs = corpus.tlc_sequences(wd, L, 0, len(TOKENS) - 1)
    if t == "quick":
        keep = [s for s in seqs if len(s) <= 2]
        rest = [s for s in seqs if len(s) > 2]
        rnd.shuffle(rest)
        seqs = keep + rest[:6000]
    nseq = len(seqs)
    for s in seqs:
        cdda = rnd.random() < 0.6
        add("cue", "tokens", text=render_tokens(s, cdda, rnd), total=588 * 10 ** 6 + (0 if cdda else 1))
    # longer random sequences around well-formed skeletons
    for _ in range(300 if t == "quick" else 5000):
        s = [rnd.randrange(len(TOKENS)) for _ in range(rnd.randint(4, 12))]
        cdda = rnd.random() < 0.5
        add("cue", "tokens-long", text=render_tokens(s, cdda, rnd), total=588 * 10 ** 6 + (0 if cdda else 1))
    # a well-formed two-track skeleton followed by every pair of tokens (deeper parser states)
    skeleton = [4, 12, 5, 11]         # TRACK 01 / INDEX 01 p0 / TRACK 02 / INDEX 00 p0 -> replaced below by a later position
    for a in range(len(TOKENS)):
        for b_ in (range(len(TOKENS)) if t == "thorough" else [rnd.randrange(len(TOKENS)) for _ in range(4)]):
            for cdda in (True, False):
                text = render_tokens([4, 12, 5], cdda, rnd) + ("INDEX 00 %s\n" % (mmssff(9000) if cdda else "5292001")) + render_tokens([a, b_], cdda, rnd)
                add("cue", "skeleton", text=text, total=588 * 10 ** 6 + (0 if cdda else 1))
    # index numbers up to 255 and beyond in one track, CD-DA and not
    for cdda in (True, False):
        for start in (0, 1):
            for n in (99, 100, 101, 254, 255, 256, 257):
                lines = ["TRACK 01 AUDIO"] + ["INDEX %02d %s" % (i, mmssff(i - start) if cdda else str((i - start) * 3)) for i in range(start, start + n)]
                add("cue", "many-indices", text="\n".join(lines) + "\n", total=588 * 10 ** 6 + (0 if cdda else 1))
                # a full run followed by one more index line with an arbitrary (also out-of-sequence) number
                for extra in (0, 1, 128, 255):
                    add("cue", "many-indices", text="\n".join(lines + ["INDEX %02d %s" % (extra, mmssff(n + 1) if cdda else str((n + 1) * 3))]) + "\n",
                        total=588 * 10 ** 6 + (0 if cdda else 1))
        lines = []
        for k in range(1, 258):
            lines += ["TRACK %d AUDIO" % k, "INDEX 01 %s" % (mmssff(k - 1) if cdda else str((k - 1) * 5))]
        add("cue", "many-tracks", text="\n".join(lines) + "\n", total=588 * 10 ** 6 + (0 if cdda else 1))
    # index positions whose conversion to samples sits at the edge of 64 bits: minutes around 2^64 / (60 * 75 * 588), 2^64 / (60 * 75)
    # and 2^64 itself, with seconds / frames on both sides of the carry; plain sample offsets around 2^64 for the non-CD-DA grammar
    U = 1 << 64
    for m_ in sorted({(U - 1) // 2646000 + d for d in (-1, 0, 1)} | {(U - 1) // 4500 + d for d in (-1, 0, 1)} | {U - 1, U, 1 << 32, (1 << 63) // 2646000}):
        for ssff in ("00:00", "07:32", "07:33", "07:34", "59:74"):
            add("cue", "minute-boundary", text="TRACK 01 AUDIO\n  INDEX 01 00:00:00\nTRACK 02 AUDIO\n  INDEX 01 %d:%s\n" % (m_, ssff), total=588 * 10 ** 6)
            add("cue", "minute-boundary", text="TRACK 01 AUDIO\n  INDEX 00 00:00:00\n  INDEX 01 %d:%s\n" % (m_, ssff), total=588 * 10 ** 6)
    for off in (U - 1, U, U - 2, (1 << 63), (1 << 63) - 1, U // 588, U // 588 + 1):
        add("cue", "minute-boundary", text="TRACK 01 AUDIO\n  INDEX 01 0\nTRACK 02 AUDIO\n  INDEX 01 %d\n" % off, total=588 * 10 ** 6 + 1)
    # non-ASCII arguments (multi-byte characters at every offset) where the importer slices fixed-width fields
    # ... and characters that std's Unicode predicates (is_numeric, is_alphanumeric, is_whitespace, to_uppercase) class with ASCII digits,
    # letters and blanks: Arabic-Indic / full-width / mathematical digits, superscripts, fractions, Roman numerals, full-width letters,
    # letters whose case mapping changes their length, non-ASCII blanks
    UNI = ("\u0663", "\u00b2", "\u00bd", "\u2167", "\uff13", "\U0001D7D8", "\u0969", "\uff21", "\u03a9", "\u00df", "\u0130", "\u01c5",
           "\u00a0", "\u2003", "\u3000", "\u0301")
    for ch in UNI:
        for pos in (0, 1, 5, 11, 12, 13):
            cat = "1234567890123"
            add("cue", "unicode-class-argument", text="CATALOG %s\nTRACK 01 AUDIO\n  INDEX 01 00:00:00\n" % (cat[:pos] + ch + cat[pos + 1:]), total=588 * 10 ** 6)
            add("cue", "unicode-class-argument", text="CATALOG %s\nTRACK 01 AUDIO\n  INDEX 01 0\n" % (cat[:pos] + ch + cat[pos + 1:]), total=588 * 10 ** 6 + 1)
            isrc = "USABC0012345"
            add("cue", "unicode-class-argument", text="TRACK 01 AUDIO\n  ISRC %s\n  INDEX 01 00:00:00\n" % (isrc[:pos] + ch + isrc[pos + 1:]), total=588 * 10 ** 6)
        for tmpl in ("TRACK %s AUDIO\n  INDEX 01 00:00:00\n", "TRACK 0%s AUDIO\n  INDEX 01 00:00:00\n", "TRACK 01 AUDIO\n  INDEX %s 00:00:00\n",
                     "TRACK 01 AUDIO\n  INDEX 0%s 00:00:00\n", "TRACK 01 AUDIO\n  INDEX 01 %s0:00:00\n", "TRACK 01 AUDIO\n  INDEX 01 00:%s0:00\n",
                     "TRACK 01 AUDIO\n  INDEX 01 00:0%s:00\n", "TRACK 01 AUDIO\n  INDEX 01 00:00:%s0\n", "TRACK 01 AUDIO\n  INDEX 01 00:00:0%s\n",
                     "TRACK 01 AUDIO\n  INDEX 01 %s\n", "TRACK 01 AUDIO\n  INDEX 01 1%s\n", "TRACK 01 AUDIO\n  FLAGS %s\n  INDEX 01 00:00:00\n",
                     "TRACK 01 AUDIO\n  FLAGS PRE%s\n  INDEX 01 00:00:00\n", "TRACK 01 AUDI%s\n  INDEX 01 00:00:00\n", "TRAC%s 01 AUDIO\n  INDEX 01 00:00:00\n",
                     "TRACK%s01 AUDIO\n  INDEX 01 00:00:00\n", "TRACK 01 AUDIO\n%sINDEX 01 00:00:00\n", "%sTRACK 01 AUDIO\n  INDEX 01 00:00:00\n",
                     "TRACK 01 AUDIO\n  INDEX 01 00:00:00%s\n", "CATALOG \"%s\"\nTRACK 01 AUDIO\n  INDEX 01 00:00:00\n", "TRACK 01 AUDIO\n  ISRC %s\n  INDEX 01 00:00:00\n"):
            add("cue", "unicode-class-argument", text=tmpl % ch, total=588 * 10 ** 6 + (1 if "INDEX 01 %s\n" in tmpl or "INDEX 01 1%s" in tmpl else 0))
    for ch in ("\u00e9", "\u8a9e", "\U0001F600"):
        for pos in range(0, 12):
            isrc = "USABC0012345"
            arg = isrc[:pos] + ch + isrc[pos + 1:]
            add("cue", "non-ascii-argument", text="TRACK 01 AUDIO\n  ISRC %s\n  INDEX 01 00:00:00\n" % arg, total=588 * 10 ** 6)
            add("cue", "non-ascii-argument", text="CATALOG %s\nTRACK 01 AUDIO\n  INDEX 01 00:00:00\n" % ("1234567890123"[:pos] + ch + "1234567890123"[pos + 1:]), total=588 * 10 ** 6)
            add("cue", "non-ascii-argument", text="TRACK 01 AUDIO\n  INDEX 01 0%s:00:00\n" % (ch if pos == 0 else "0" + ch), total=588 * 10 ** 6)
    # quoting: lone, doubled, unbalanced and empty quotes as the argument of every line kind that unquotes
    for arg in ('"', '""', '"""', '"1', '1"', '" "', '"\t"', '"1234567890123', '1234567890123"', '"USABC0012345', "'", "'1234567890123'", '" ', ' "'):
        for tmpl in ("CATALOG %s\nTRACK 01 AUDIO\n  INDEX 01 00:00:00\n", "TRACK 01 AUDIO\n  ISRC %s\n  INDEX 01 00:00:00\n", "CATALOG\t%s\nTRACK 01 AUDIO\n  INDEX 01 0\n",
                     "TRACK %s AUDIO\n  INDEX 01 00:00:00\n", "TRACK 01 AUDIO\n  INDEX %s 00:00:00\n", "TRACK 01 AUDIO\n  INDEX 01 %s\n", "TRACK 01 AUDIO\n  FLAGS %s\n  INDEX 01 00:00:00\n",
                     "%s\n", "REM %s\nTRACK 01 AUDIO\n  INDEX 01 00:00:00\n"):
            add("cue", "quote-argument", text=tmpl % arg, total=588 * 10 ** 6 + (1 if "INDEX 01 0\n" in tmpl else 0))
    # (b) picture sniffing
    for cls, data in sniff_items(rnd):
        add("sniff", cls.split(" ")[0], bytes=data)
    for cls, data in wellformed_images(rnd, 300 if t == "quick" else 6000):
        add("sniff", cls, bytes=data)
    # (c) metadata sections: valid encodings from the format model, then size / count fields and lengths damaged
    clist, encs, damaged = damaged_metadata_sections(wd, t, rnd)
    for cls, b in damaged:
        add("blocks", cls, bytes=b)
    # every truncation of a few rich lists and of the fixtures' metadata sections
    rich = [encs[x["id"]]["bytes"] for x in clist if x["class"] in ("everything", "cuesheet-cdda", "comment", "seektable-ascending")][:6]
    for name in ("cuesheet.flac", "picture.flac", "comment.flac", "seektable.flac"):
        data = open(os.path.join(REPO, "tests", "data", name), "rb").read()
        end = 4
        while True:
            last = data[end] & 0x80
            end += 4 + int.from_bytes(data[end + 1:end + 4], "big")
            if last:
                break
        if end <= 4000:
            rich.append(list(data[:end]))
    for b in rich:
        step = 1 if len(b) < 700 or t == "thorough" else 3
        for cut in range(0, len(b), step):
            add("blocks", "truncated", bytes=b[:cut])
    # STREAMINFO values that stress the accessors
    for rate in (0, 1, 1048575):
        for total in (0, 1, (1 << 36) - 1):
            for bps in (1, 32):
                for ch in (1, 8):
                    sidesc = si(bps=bps, channels=ch, rate=rate, total=total)
                    pp2 = os.path.join(wd, "one.ndjson")
                    # serialise by hand (same layout as MetaFormat.StreamInfoBody) to avoid one TLC run per value
                    x = (rate << 44) | ((ch - 1) << 41) | ((bps - 1) << 36) | total
                    body = [0x10, 0, 0x10, 0, 0, 0, 0, 0, 0, 0] + list(x.to_bytes(8, "big")) + [0] * 16
                    add("blocks", "streaminfo-accessors", bytes=[0x66, 0x4C, 0x61, 0x43, 0x80, 0, 0, 34] + body)
    classes = {}
    for it in items:
        classes[it["kind"] + ":" + it["class"].split(":")[0]] = classes.get(it["kind"] + ":" + it["class"].split(":")[0], 0) + 1
    log("[%s] %d inputs: %s" % (pid, len(items), classes))
    outcomes = {}
    byid = {it["id"]: it for it in items}
    sniff_traces = []
    for profile in ("release", "checked"):
        parts = [items[i::8] for i in range(8)]

        def drive(ip):
            i, part = ip
            tp = os.path.join(wd, "trace_%s_%d.ndjson" % (profile, i))
            return run_drive_items("total", {"out": tp, "items": part}, wd, profile=profile, tag="%s%d" % (profile, i), timeout=3000)

        outs = []
        for tps, incidents in parallel(drive, [(i, p) for i, p in enumerate(parts) if p], n=8):
            outs += [(tp, None) for tp in tps]
            for iid, size in incidents:
                it = byid[iid]
                v.violation("%s rule=C12.bounded-allocation kind=%s %s single-request" % (pid, it["kind"], it["class"]),
                            "%s input %d (%s, %s profile) asked for a single allocation of %d bytes for an input of %d bytes" % (
                                it["kind"], iid, it["class"], profile, size, len(it.get("bytes", [])) + len(it.get("text", ""))),
                            {"kind": it["kind"], "class": it["class"], "text": it.get("text"), "bytes": it.get("bytes") if len(it.get("bytes", [])) < 3000 else None, "profile": profile})
        if profile == "release":
            sniff_traces = [o[0] for o in outs]
        spec, cfg = os.path.join(SPEC, "Trace_Total.tla"), os.path.join(SPEC, "Trace_Total.cfg")
        for tp, tr in parallel(lambda o: (o[0], tlc_trace(spec, cfg, o[0], wd, env={"PROP": "C12"}, timeout=3000)), outs, n=8):
            with open(tp) as f:
                for ln in f:
                    m = re.search(r'"ret":"(\w+)"', ln)
                    if m:
                        outcomes[m.group(1)] = outcomes.get(m.group(1), 0) + 1
            for ln in tr["rejects"]:
                m = re.match(r'<<"REJECT", (\d+), (\d+), "([^"]*)", "([^"]*)", "([^"]*)", (.*)>>$', ln, re.S)
                iid, rule, kind, cls, rest = int(m.group(1)), m.group(3), m.group(4), m.group(5), m.group(6)
                loc = re.search(r"@([^\s\"]+)", rest)
                sig = "%s rule=%s kind=%s %s" % (pid, rule, kind, ("panic@" + loc.group(1)) if loc else cls)
                it = byid[iid]
                v.violation(sig, "rule %s fails for %s input %d (%s, %s profile): %s" % (rule, kind, iid, cls, profile, rest[:300]),
                            {"kind": kind, "class": cls, "text": it.get("text"), "bytes": it.get("bytes") if len(it.get("bytes", [])) < 3000 else None, "profile": profile})
    sg = sniff_growth(wd, pid, items, sniff_traces)
    cm = chmask_growth(wd, t)
    log("[%s] growth: ChannelMask %d texts, %d masks, %d events judged, parse outcomes %s, %d mismatches (non-gating)"
        % (pid, cm["texts"], cm["masks"], cm["events"], cm["parse_outcomes"], cm["mismatches"]))
    rc = v.finish()
    write_evidence(pid, "model_checking", {
        "growth_picture_sniff": sg, "growth_channel_mask": cm,
        "states": nseq, "transitions": sum(outcomes.values()), "traces_validated_against_impl": len(items) * 2,
        "evaluations": sum(outcomes.values()), "distinct_nontrivial": len(items), "exhaustive": False,
        "samples": [{"kind": items[5]["kind"], "text": items[5].get("text")}, {"kind": "sniff", "class": "png"}],
        "rule": "cue sheet texts: every sequence of <= %d lines over a %d-token alphabet of well-formed and malformed CATALOG / TRACK / INDEX / ISRC / "
                "FLAGS lines (enumerated by TLC; sampled at the longest length in quick) in both offset grammars, longer random sequences, index / "
                "track counts up to 257; picture data: PNG bit depth x colour type x PLTE / oversized chunk classes, JPEG precision x components x "
                "segment-length classes, GIF truncated at every byte; metadata sections: the format model's encodings of the C11 block classes with "
                "every declared size pushed to 0 / actual-1 / actual+1 / 2^24-1, count fields overwritten, reserved block types, every truncation, "
                "STREAMINFO extremes (rate 0, depth 1/32, total 2^36-1); every parser result is followed by every accessor, the text rendering, a "
                "rewrite and a re-read; both build profiles; Trace_Total allows only value / error outcomes within 16 MiB + 64 x input" % (L, len(TOKENS)),
        "input_classes": classes, "outcomes": outcomes,
        "known_findings_hit": {k: n for k, (kk, n) in v.known_hits.items()}},
        time.time() - t0, len(v.violations),
        ["TLC/SANY, CommunityModules", "allocation is measured by a counting global allocator", "arbitrary unstructured bytes / texts are not explored (structured malformation only)"])
    log("[%s] inputs=%d outcomes=%s violations=%d known=%d wall=%.1fs" % (pid, len(items), outcomes, len(v.violations), len(v.known_hits), time.time() - t0))
    return rc


def comment_algebra(wd, t):
    """Growth beyond the listed properties (non-gating): VorbisComment field algebra against CommentAlgebra.tla."""
    consts = 'cKeys == {"TITLE", "title", "Artist"}\ncFold == [k \\in cKeys |-> IF k = "Artist" THEN "ARTIST" ELSE "TITLE"]\ncValues == {"a", "b"}\n'
    cfgc = "CONSTANTS\n Keys <- cKeys\n Fold <- cFold\n Values <- cValues\n MaxOps = %d\n" % (3 if t == "quick" else 4)
    mp = write_text(os.path.join(wd, "MCCA.tla"), "---- MODULE MCCA ----\nEXTENDS CommentAlgebra\n" + consts + "====\n")
    cp = write_text(os.path.join(wd, "MCCA.cfg"), cfgc + "SPECIFICATION Spec\nVIEW View\nINVARIANT Emit SetThenGet RemoveRemovesAllSpellings OthersUntouched InsertAppends\nCHECK_DEADLOCK FALSE\n")
    r = tlc(mp, cp, wd, workers=1, timeout=1200)
    if r["errors"]:
        sys.stderr.write(r["out"][-2000:])
        raise ToolError("CommentAlgebra model check failed")
    hs = gen_payloads(r["out"])
    tp = os.path.join(wd, "trace_comments.ndjson")
    run_drive("comments", {"out": tp, "keys": ["TITLE", "title", "Artist"], "histories": [[{"op": s["op"]} for s in h] for h in hs]}, wd, tag="comments")
    tm = write_text(os.path.join(wd, "TRCA.tla"), "---- MODULE TRCA ----\nEXTENDS Trace_Comment\n" + consts + "====\n")
    tc = write_text(os.path.join(wd, "TRCA.cfg"), cfgc + "SPECIFICATION TSpec\nPOSTCONDITION Post\nCHECK_DEADLOCK FALSE\n")
    tr = tlc_trace(tm, tc, tp, wd)
    for ln in tr["rejects"][:5]:
        log("GROWTH-SPEC-MISMATCH module=CommentAlgebra " + ln[:300])
    return {"states": r["distinct"], "histories": len(hs), "mismatches": len(tr["rejects"])}


def blocklist_ops(wd, t):
    """Growth beyond the listed properties (non-gating): BlockList insert / remove / extract / sort_by / get / get_all / get_pair_mut
    against BlockListOps.tla."""
    kinds = ["padding", "application", "comment", "seektable", "cuesheet"]
    consts = ('cKinds == {%s}\ncMulti == {"padding", "application", "cuesheet"}\n'
              'cOrders == {[k \\in cKinds |-> CASE k = "padding" -> 9 [] k = "comment" -> 1 [] k = "seektable" -> 0 [] OTHER -> 5],\n'
              '            [k \\in cKinds |-> CASE k = "application" -> 0 [] k = "cuesheet" -> 0 [] OTHER -> 3]}\n') % ", ".join('"%s"' % k for k in kinds)
    cfgc = "CONSTANTS\n Kinds <- cKinds\n Multi <- cMulti\n Orders <- cOrders\n MaxOps = %d\n" % (4 if t == "quick" else 5)
    mp = write_text(os.path.join(wd, "MCBL.tla"), "---- MODULE MCBL ----\nEXTENDS BlockListOps\n" + consts + "====\n")
    cp = write_text(os.path.join(wd, "MCBL.cfg"), cfgc + "SPECIFICATION Spec\nVIEW View\nINVARIANT Emit SingleKindsStaySingle InsertThenGet InsertKeepsOthersInPlace "
                    "ReplaceKeepsPosition ExtractIsRemovePlusResult SortIsStablePermutation\nCHECK_DEADLOCK FALSE\n")
    r = tlc(mp, cp, wd, workers=2, timeout=2400)
    if r["errors"]:
        sys.stderr.write(r["out"][-2000:])
        raise ToolError("BlockListOps model check failed")
    hs = gen_payloads(r["out"])
    tp = os.path.join(wd, "trace_blocklist.ndjson")
    run_drive("blocklist", {"out": tp, "kinds": kinds, "histories": hs}, wd, tag="blocklist")
    tm = write_text(os.path.join(wd, "TRBL.tla"), "---- MODULE TRBL ----\nEXTENDS Trace_BlockList\n" + consts + "====\n")
    tc = write_text(os.path.join(wd, "TRBL.cfg"), cfgc + "SPECIFICATION TSpec\nPOSTCONDITION Post\nCHECK_DEADLOCK FALSE\n")
    tr = tlc_trace(tm, tc, tp, wd)
    for ln in tr["rejects"][:5]:
        log("GROWTH-SPEC-MISMATCH module=BlockListOps " + ln[:300])
    return {"states": r["distinct"], "histories": len(hs), "mismatches": len(tr["rejects"])}
