"""C06 (seeking) and C07 (exactly-once delivery): ReaderAbs / ReaderImpl / Gen_Reader / Trace_Reader."""
import json
import os
import time

from vlib import *

SHAPES = {
    "none": lambda n: [],
    "all": lambda n: list(range(1, n + 1)),
    "every2": lambda n: list(range(1, n + 1, 2)),
    "first": lambda n: [1],
    "placeholders": lambda n: list(range(1, n + 1, 2)) + [0, 0],
    "last": lambda n: [n],
    "phonly": lambda n: [0, 0],
}


def blocks_of(frames, bs):
    b = [bs] * (frames // bs)
    if frames % bs:
        b.append(frames % bs)
    return b


def file_cfgs(t):
    base = [
        dict(id="A", channels=1, bps=16, block_size=16, frames=39, seek="every2", known=True, signal="noise", seed=11),
        dict(id="B", channels=2, bps=8, block_size=16, frames=39, seek="placeholders", known=True, signal="noise", seed=12),
        dict(id="C", channels=2, bps=24, block_size=16, frames=40, seek="none", known=False, signal="noise", seed=13),
        dict(id="D", channels=3, bps=16, block_size=16, frames=33, seek="last", known=True, signal="noise", seed=14),
        dict(id="E", channels=1, bps=32, block_size=16, frames=48, seek="all", known=True, signal="noise", seed=15),
    ]
    if t == "thorough":
        base += [
            dict(id="F", channels=8, bps=16, block_size=16, frames=50, seek="first", known=True, signal="walk", seed=16),
            dict(id="G", channels=2, bps=12, block_size=20, frames=61, seek="phonly", known=True, signal="noise", seed=17),
            dict(id="H", channels=4, bps=20, block_size=16, frames=64, seek="every2", known=False, signal="noise", seed=18),
            dict(id="I", channels=5, bps=7, block_size=16, frames=17, seek="all", known=True, signal="noise", seed=19),
            dict(id="J", channels=6, bps=17, block_size=24, frames=47, seek="placeholders", known=True, signal="sine", seed=20),
            dict(id="K", channels=7, bps=4, block_size=16, frames=16, seek="none", known=True, signal="noise", seed=21),
        ]
    return base


def fes_for(fc, t):
    fes = ["byte-le", "sample", "channel"]
    if t == "thorough" or fc["id"] in ("B", "E"):
        fes.append("byte-be")
    return fes


def unit_of(fc, fe):
    if fe.startswith("byte"):
        return ((fc["bps"] + 7) // 8) * fc["channels"]
    if fe == "sample":
        return fc["channels"]
    return 1


def mc_module(name, base, fc, fe, with_seeks, defects=()):
    """An MC module binding ReaderImpl's constants to one file configuration."""
    u = unit_of(fc, fe)
    blocks = blocks_of(fc["frames"], fc["block_size"])
    n = len(blocks)
    tf = fc["frames"]
    tu = tf * u
    bs = fc["block_size"]
    # targets: the ends, around the first block boundary, and on / around every defined seek point
    starts = [0]
    for x in blocks:
        starts.append(starts[-1] + x)
    pts = sorted({starts[f - 1] for f in SHAPES[fc["seek"]](n) if f != 0})
    near = set()
    for p_ in pts:
        near |= {q for q in (p_ - 1, p_, p_ + 1) if 0 <= q <= tf + 1}
    seekt = sorted({0, 1, bs - 1, bs, bs + 1, tf - 1, tf, tf + 1} | near) if with_seeks else []
    bseeks = []
    if with_seeks and fe.startswith("byte"):
        bseeks = [("start", p_ * u) for p_ in pts if p_ > 0] + [("start", 0), ("start", u * bs + 1), ("start", tu - 1), ("start", tu), ("start", tu + 1),
                  ("current", 0), ("current", -3), ("current", 5), ("current", -(tu + 1)),
                  ("end", 0), ("end", -1), ("end", -(u * bs + 1)), ("end", -tu), ("end", -(tu + 1)), ("end", 1)]
    fe_model = "byte" if fe.startswith("byte") else fe
    txt = """---- MODULE %s ----
EXTENDS %s
cBlocks == %s
cSeekPts == %s
cReadSizes == %s
cSeekTargets == %s
cByteSeeks == %s
cConsumeAmts == %s
cDefects == %s
====
""" % (name, base, tla_seq(blocks), tla_seq(SHAPES[fc["seek"]](n)), tla_set([1, 5, u * bs + 1]),
       tla_set(seekt), "{" + ", ".join('<<"%s", %d>>' % b for b in bseeks) + "}", tla_set([1, 3]),
       tla_set(list(defects)))
    consts = """CONSTANTS
 FrontEnd = "%s"
 U = %d
 Blocks <- cBlocks
 SeekPts <- cSeekPts
 TotalKnown = %s
 Defects <- cDefects
 ReadSizes <- cReadSizes
 SeekTargets <- cSeekTargets
 ByteSeeks <- cByteSeeks
 ConsumeAmts <- cConsumeAmts
""" % (fe_model, u, "TRUE" if fc["known"] else "FALSE")
    alphabet = []
    if fe_model != "channel":
        alphabet += [{"op": "read", "n": n} for n in (1, 5, u * bs + 1)]
    alphabet.append({"op": "fill"})
    alphabet += [{"op": "consume", "k": k} for k in (1, 3)]
    if fe_model == "byte":
        alphabet += [{"op": "seekb", "whence": w, "off": o} for (w, o) in bseeks]
    else:
        alphabet += [{"op": "seek", "t": x} for x in seekt]
    mc_module.alphabet = alphabet
    return txt, consts


def alphabet_of(fc, fe, with_seeks):
    mc_module("x", "ReaderImpl", fc, fe, with_seeks)
    return mc_module.alphabet


def reader_abs_proof(wd):
    return tlaps_proof(wd, "ReaderAbsProofs", ["ReaderAbs"], "ASpec(T, K) => [](InRange /\\ EosOnlyAtEnd) for every T in Nat")


def run(pid):
    t0 = time.time()
    t = tier()
    with_seeks = pid == "C06"
    wd = workdir(pid)
    v = Verdict(pid)
    build_harness("release")
    cfgs = [(fc, fe) for fc in file_cfgs(t) for fe in fes_for(fc, t)]
    states = trans = 0
    samples = []
    stats = dict(model_configs=0, generated_sequences=0, runs=0, events=0, drift=0, impl_steps_checked=0)

    # ---- (A) for every stream length: the TLA+ proof system checks ReaderAbsProofs.tla (the position stays inside the stream, end of
    # stream only at the end, under every behaviour of ReaderAbs) - TLC explores ReaderAbs only for small totals.  A statement about the
    # specification alone: a failure is a tool error, never a violation.
    proof = reader_abs_proof(wd)
    log("[%s] TLAPS: ReaderAbsProofs.tla, %s obligations proved (unbounded total)" % (pid, proof["obligations_proved"]))

    # ---- 0. non-vacuity of the model: each defect of the pinned tree re-enabled must break refinement
    fcA = file_cfgs("quick")[0]
    nv = []
    for defect, fe in (("end_in_samples", "byte-le"), ("chan_seek_stale", "channel"), ("chan_eos_stale", "channel")):
        if not with_seeks and defect != "chan_eos_stale":
            continue
        name = "NV_%s" % defect
        txt, consts = mc_module(name, "ReaderImpl", fcA, fe, True, (defect,))
        mp = write_text(os.path.join(wd, name + ".tla"), txt)
        cp = write_text(os.path.join(wd, name + ".cfg"), consts +
                        "SPECIFICATION Spec\nINVARIANT AInv DecoderConsistent\nPROPERTY Refines\nCHECK_DEADLOCK FALSE\n")
        nv.append((mp, cp, defect))
    for mp, cp, defect in nv:
        expect_model_violation(mp, cp, wd, what="ReaderImpl with defect " + defect)
    log("[%s] non-vacuity: %d defect-enabled models refuted by TLC" % (pid, len(nv)))

    # ---- 1. exhaustive model checks + generation, one per configuration
    def one(cf):
        fc, fe = cf
        tag = "%s_%s" % (fc["id"], fe.replace("-", ""))
        name = "MC_" + tag
        txt, consts = mc_module(name, "ReaderImpl", fc, fe, with_seeks)
        mp = write_text(os.path.join(wd, name + ".tla"), txt)
        cp = write_text(os.path.join(wd, name + ".cfg"), consts +
                        "SPECIFICATION Spec\nINVARIANT AInv DecoderConsistent\nPROPERTY Refines\nCHECK_DEADLOCK FALSE\n")
        r = tlc_model_check(mp, cp, wd, workers=1, what=tag)
        gname = "GEN_" + tag
        gtxt, _ = mc_module(gname, "Gen_Reader", fc, fe, with_seeks)
        gp = write_text(os.path.join(wd, gname + ".tla"), gtxt)
        mode = "INVARIANT"
        gc = write_text(os.path.join(wd, gname + ".cfg"), consts +
                        "SPECIFICATION GSpec\nVIEW View\n%s EmitStates\nCHECK_DEADLOCK FALSE\n" % mode)
        g = tlc(gp, gc, wd, workers=1)
        seqs = gen_payloads(g["out"])
        if not seqs:
            raise ToolError("generator produced nothing for " + tag)
        return dict(tag=tag, fc=fc, fe=fe, mc=r, seqs=seqs, consts=consts)

    results = parallel(one, cfgs, n=8)
    for r in results:
        states += r["mc"]["distinct"]
        trans += r["mc"]["generated"]
        stats["model_configs"] += 1
        stats["generated_sequences"] += len(r["seqs"])
    log("[%s] TLC: %d configurations, %d distinct states, %d transitions; %d operation sequences generated"
        % (pid, stats["model_configs"], states, trans, stats["generated_sequences"]))

    # ---- 2. replay on the real readers (spec -> impl) + random drivers (impl -> spec)
    def drive(r):
        fc, fe, tag = r["fc"], r["fe"], r["tag"]
        tp = os.path.join(wd, "trace_%s.ndjson" % tag)
        job = {"out": tp, "jobs": [{"file": fc, "fe": fe, "seqs": [[]] + r["seqs"], "log_data": True, "seekable": True,
                                    "branch_ops": alphabet_of(fc, fe, with_seeks)}]}
        if not with_seeks:
            # C07: the same sequences through a reader opened without Seek and a fragmenting source
            job["jobs"].append({"file": fc, "fe": fe, "seqs": r["seqs"][: max(50, len(r["seqs"]) // 4)],
                                "log_data": False, "seekable": False, "chunks": [1]})
            job["jobs"].append({"file": fc, "fe": fe, "seqs": r["seqs"][: max(50, len(r["seqs"]) // 4)],
                                "log_data": False, "seekable": True, "chunks": [3, 1, 7]})
        res = run_drive("reader", job, wd, tag=tag)
        return tp, res

    drv = parallel(drive, results, n=8)

    # larger files, arbitrary targets / random chunkings, judged by the abstract specification only
    big = []
    nbig = 6 if t == "quick" else 40
    nrun = 12 if t == "quick" else 60
    import random
    rnd = random.Random(seed() * 7919 + (6 if with_seeks else 7))
    for i in range(nbig):
        ch = rnd.choice([1, 2, 2, 3, 4, 6, 8])
        bps = rnd.choice([8, 12, 16, 16, 20, 24, 32, 13, 17, 23])
        bs = rnd.choice([16, 17, 32, 64, 192])
        nfr = rnd.randint(40, 60) if t == "quick" else rnd.randint(40, 120)
        while bs * nfr * ch * ((bps + 7) // 8) > 120000:
            nfr = max(8, nfr // 2)
            if nfr == 8:
                bs = max(16, bs // 2)
        frames = bs * nfr - rnd.randint(0, bs - 1)
        fc = dict(id="R%d" % i, channels=ch, bps=bps, block_size=bs, frames=frames,
                  seek=rnd.choice(list(SHAPES)), known=rnd.random() < 0.8, signal=rnd.choice(["noise", "walk", "sine"]),
                  seed=rnd.randint(1, 10 ** 6), rate=rnd.choice([44100, 44100, 96001, 1, 655351]))
        for fe in ("byte-le", "byte-be", "sample", "channel"):
            big.append((fc, fe))

    # files NOT made by the crate's encoder: FlacGen streams with variable block sizes (frames numbered by sample), every
    # subframe type and header coding, wrapped with the same seek-table shapes (growth beyond the listed quantifier)
    import plans as P
    import decodechecks as D
    ngen = 6 if t == "quick" else 40
    gplans = []
    for i in range(ngen):
        p = P.stream_plan(rnd, 500 + i, small=True, nframes=rnd.randint(5, 12), variable=(i % 3 != 2),
                          size_pool=[16, 17, 20, 31, 32, 40, 64])
        p["md5"] = "good"
        p["total_known"] = True
        for f in p["frames"]:
            f["overlong"] = 0
        gplans.append(p)
    byp = {p["id"]: p for p in gplans}
    ngiven = 0
    for g in D.generate(wd, gplans, "rd", k=min(8, ngen)):
        if not g["ok"] or g["selfErrs"] or not g["selfSame"]:
            continue
        p = byp[g["id"]]
        off = s0 = 0
        frs = []
        for f, ln in zip(p["frames"], g["frameLens"]):
            frs.append([s0, off, f["bs"]])
            s0 += f["bs"]
            off += ln
        gp = os.path.join(wd, "given_%d.json" % g["id"])
        json.dump({"bytes": g["bytes"], "pcm": g["pcm"], "frames": frs}, open(gp, "w"))
        fc = dict(id="G%d" % g["id"], channels=p["channels"], bps=p["bps"], block_size=max(f["bs"] for f in p["frames"]), frames=s0,
                  seek=rnd.choice(list(SHAPES)), known=rnd.random() < 0.8, signal="given", seed=rnd.randint(1, 10 ** 6), given=gp)
        ngiven += 1
        for fe in ("byte-le", "byte-be", "sample", "channel"):
            big.append((fc, fe))
    log("[%s] %d generator-made files (variable block sizes) join the random-history drivers" % (pid, ngiven))

    def drive_big(cf):
        fc, fe = cf
        tag = "%s_%s" % (fc["id"], fe.replace("-", ""))
        tp = os.path.join(wd, "trace_%s.ndjson" % tag)
        j = {"file": fc, "fe": fe, "log_data": False, "seekable": with_seeks,
             "random": {"n": nrun, "len": 25, "seed": fc["seed"], "random_chunks": not with_seeks, "faults": with_seeks}}
        res = run_drive("reader", {"out": tp, "jobs": [j]}, wd, tag=tag)
        return tp, res

    drv_big = parallel(drive_big, big, n=8)

    # C07: every single split point of the source, small files, all front ends
    drv_split = []
    if not with_seeks:
        sp_jobs = []
        for fc in file_cfgs(t)[: (2 if t == "quick" else 6)]:
            for fe in ("byte-le", "byte-be", "sample", "channel"):
                sp_jobs.append((fc, fe))

        def drive_split(cf):
            fc, fe = cf
            tag = "S%s_%s" % (fc["id"], fe.replace("-", ""))
            tp = os.path.join(wd, "trace_%s.ndjson" % tag)
            ops = [{"op": "readall", "n": 7}] if fe != "channel" else [{"op": "readall", "n": 1}]
            j = {"file": fc, "fe": fe, "log_data": False, "seekable": False, "all_splits": True, "split_ops": ops}
            res = run_drive("reader", {"out": tp, "jobs": [j]}, wd, tag=tag)
            return tp, res

        drv_split = parallel(drive_split, sp_jobs, n=8)

    # ---- 3. trace validation against ReaderAbs (verdicts) and ReaderImpl (drift notes)
    tspec = os.path.join(SPEC, "Trace_Reader.tla")
    tcfg = os.path.join(SPEC, "Trace_Reader.cfg")
    all_traces = [(tp, res, "replay") for tp, res in drv] + [(tp, res, "random") for tp, res in drv_big] + \
                 [(tp, res, "splits") for tp, res in drv_split]

    def validate(item):
        tp, res, kind = item
        return tlc_trace(tspec, tcfg, tp, wd), tp, res, kind

    vals = parallel(validate, all_traces, n=8)
    for tr, tp, res, kind in vals:
        stats["runs"] += res.get("runs", 0)
        stats["events"] += res.get("events", 0)
        if tr["rejects"]:
            recs = read_ndjson(tp)
            for ln in tr["rejects"]:
                m = re.match(r'<<"REJECT", (\d+), (\d+), "(.*)", "P", (.*)>>$', ln)
                run_l, ev_l = int(m.group(1)), int(m.group(2))
                openev = recs[run_l - 1]
                ev = recs[ev_l - 1]
                history = [{k: x[k] for k in x if k not in ("d", "ref")} for x in recs[run_l - 1:ev_l]]
                prev = history[-2] if len(history) > 1 else {}
                sig = "%s fe=%s ev=%s ret=%s" % (
                    pid, openev.get("fe", "").split("-")[0], ev.get("ev"), ev.get("ret", ev.get("in", "")))
                if ev.get("ev") == "panic":
                    sig += " panic@" + ev.get("loc", "")
                if ev.get("ev") == "seek":
                    sig += " whence=" + str(ev.get("whence"))
                desc = "no ReaderAbs action explains event %d of the run opened at line %d (%s): %s ; possible positions before: %s" % (
                    ev_l - run_l, run_l, os.path.basename(tp), json.dumps({k: ev[k] for k in ev if k not in ("d",)}), m.group(4))
                v.violation(sig, desc, {"trace": tp, "open": {k: openev[k] for k in openev if k != "ref"},
                                        "history": history[-12:], "kind": kind})

    # drift (B level), replay traces only
    def drift(r_tp):
        r, (tp, res) = r_tp
        name = "TRI_" + r["tag"]
        txt, consts = mc_module(name, "Trace_ReaderImpl", r["fc"], r["fe"], with_seeks)
        mp = write_text(os.path.join(wd, name + ".tla"), txt)
        cp = write_text(os.path.join(wd, name + ".cfg"), r["consts"] + "SPECIFICATION TSpec\nPOSTCONDITION Post\nCHECK_DEADLOCK FALSE\n")
        return tlc_trace(mp, cp, tp, wd)

    dvals = parallel(drift, list(zip(results, drv)), n=8)
    for d in dvals:
        stats["drift"] += len(d["drifts"])
        for ln in d["drifts"][:3]:
            log("SPEC-DRIFT module=ReaderImpl " + ln[:300])
    if len(samples) < 3:
        for r in results[:3]:
            samples.append({"config": r["tag"], "ops": r["seqs"][min(len(r["seqs"]) - 1, 40)]})

    rc = v.finish()
    cov = {
        "states": states, "transitions": trans,
        "traces_validated_against_impl": stats["runs"],
        "samples": samples,
        "exhaustive": True,
        "rule": "TLC explores every reachable state of ReaderImpl per file configuration (refinement to ReaderAbs checked on "
                "every transition); one shortest operation sequence per distinct (state, op, result) is replayed on the real "
                "readers and from its end state every operation of the alphabet is tried on a clone (every edge of the state "
                "graph); plus seeded random histories on larger files" +
                ("" if with_seeks else "; plus every single split point of the source and random chunkings"),
        "model_configurations": stats["model_configs"],
        "generated_sequences": stats["generated_sequences"],
        "events_validated": stats["events"],
        "spec_drift_notes": stats["drift"],
        "nonvacuity_defect_models_refuted": len(nv),
        "known_findings_hit": {k: n for k, (kk, n) in v.known_hits.items()},
        "unbounded_proof": proof,
    }
    write_evidence(pid, "model_checking", cov, time.time() - t0, len(v.violations),
                   ["TLC/SANY and the CommunityModules Json/IOUtils overrides", "harness projection (occurrence set of returned data; cross-checked by TLC on small files)",
                    "files are produced by the crate's encoder (verified separately by C01/C02); seek tables are assembled by the harness"])
    log("[%s] runs=%d events=%d drift=%d violations=%d known=%d wall=%.1fs" % (
        pid, stats["runs"], stats["events"], stats["drift"], len(v.violations), len(v.known_hits), time.time() - t0))
    return rc
