"""C03 (decoder follows the format on every valid stream) and C04 (arbitrary bytes never panic / hang / over-allocate)."""
import json
import os
import random
import subprocess
import time

from vlib import *
import plans as P

GEN = os.path.join(SPEC, "Gen_Stream.tla")
GENC = os.path.join(SPEC, "Gen_Stream.cfg")
TD = os.path.join(SPEC, "Trace_Decode.tla")
TDC = os.path.join(SPEC, "Trace_Decode.cfg")
APIS = ["byte-le", "byte-be", "byte-wave", "sample", "iter", "channel", "stream", "verify", "frameiter", "seektable", "path"]
# C04 only: seeking readers over untrusted bytes (C03 judges data, and seeks on valid files are C06's)
SEEK_APIS = ["seek-sample", "seek-byte", "seek-channel"]


class Incident(int):
    """an item that ended the driver process: a missed deadline (hang) or a single allocation request beyond 4 GiB (oom)"""
    def __new__(cls, id_, kind, detail=""):
        o = int.__new__(cls, id_)
        o.kind = kind
        o.detail = detail
        return o

    @property
    def what(self):
        if self.kind == "crash":
            return "ended the process: " + self.detail
        return "missed its deadline" if self.kind == "hang" else "asked for a single allocation of %s bytes" % self.detail


def generate(wd, plan_list, tag, k=12):
    """runs FlacGen over the plans (k TLC processes); returns items (dict per plan with bytes/pcm/ok/self-check)"""
    parts = [plan_list[i::k] for i in range(k)]
    parts = [p for p in parts if p]

    def one(ip):
        i, part = ip
        pp = os.path.join(wd, "plans_%s_%d.ndjson" % (tag, i))
        with open(pp, "w") as f:
            for p in part:
                f.write(json.dumps(p) + "\n")
        r = tlc(GEN, GENC, wd, workers=1, env={"PLANS": pp}, timeout=3000, xmx="3g")
        if not tlc_lines(r["out"], "TRACE-DONE") or [e for e in r["errors"]]:
            sys.stderr.write(r["out"][-5000:])
            raise ToolError("FlacGen failed on %s" % pp)
        return gen_payloads(r["out"])

    out = []
    for items in parallel(one, list(enumerate(parts)), n=k):
        out.extend(items)
    return out


def decode_items(wd, items, tag, profile, apis, do_struct=False, log_data=True, k=8):
    parts = [items[i::k] for i in range(k)]
    parts = [p for p in parts if p]
    traces = []
    timeouts = []

    def one(ip):
        i, part = ip
        ip_ = os.path.join(wd, "items_%s_%d.ndjson" % (tag, i))
        with open(ip_, "w") as f:
            for it in part:
                f.write(json.dumps(it) + "\n")
        tp = os.path.join(wd, "trace_%s_%s_%d.ndjson" % (tag, profile, i))
        exe = build_harness(profile)
        job = {"out": tp, "items_file": ip_, "apis": apis, "struct": do_struct, "log_data": log_data, "skip_upto": 0}
        jp = os.path.join(wd, "job_dec_%s_%s_%d.json" % (tag, profile, i))
        hung = []
        # the watchdog exits with 3 on a missed deadline: record the item and go on after it
        ids = sorted(it["id"] for it in part)
        while True:
            json.dump(job, open(jp, "w"))
            p = subprocess.run([exe, "decode", jp], capture_output=True, text=True, timeout=3000, env=dict(os.environ, VERIF_SCRATCH=wd))
            if p.returncode == 0:
                break
            m = re.search(r"WATCHDOG timeout id=(\d+)", p.stderr)
            o = re.search(r"VERIF-OOM id=(\d+) size=(\d+)", p.stderr)
            if p.returncode == 4 and o:
                m = o
                hung.append(Incident(int(o.group(1)), "oom", o.group(2)))
            elif p.returncode == 3 and m:
                hung.append(Incident(int(m.group(1)), "hang"))
            if p.returncode < 0:
                # the driver process was killed by a signal (stack overflow aborts, segmentation faults): the item being decoded is the
                # last one whose "item" event reached the trace (it is flushed before the item's first call) - data about the code
                last = None
                with open(tp) as f:
                    for l_ in f:
                        if l_.startswith('{"') and '"ev":"item"' in l_.replace(" ", ""):
                            last = json.loads(l_)["id"]
                if last is not None and last not in [int(h) for h in hung]:
                    hung.append(Incident(int(last), "crash", "driver killed by signal %d: %s" % (-p.returncode, p.stderr.strip().splitlines()[-1][:120] if p.stderr.strip() else "")))
                    os.rename(tp, tp + ".part%d" % len(hung))
                    job["skip_upto"] = int(last)
                    continue
            if p.returncode in (3, 4) and m:
                # keep what was recorded and continue after the item that hung
                os.rename(tp, tp + ".part%d" % len(hung))
                job["skip_upto"] = int(m.group(1))
                # (items are processed in file order; ids in a part are increasing)
                continue
            sys.stderr.write(p.stderr[-3000:])
            raise ToolError("decode driver failed (%s)" % p.returncode)
        return tp, hung

    for tp, hung in parallel(one, list(enumerate(parts)), n=k):
        traces.append(tp)
        for n_, h in enumerate(hung):
            timeouts.append(h)
            traces.append(tp + ".part%d" % (n_ + 1))
    return traces, timeouts


def judge(pid, traces, wd, v, by_id, counts):
    for tp, tr in parallel(lambda tp: (tp, tlc_trace(TD, TDC, tp, wd, env={"PROP": pid}, timeout=3000)), traces, n=8):
        for ln in tr["rejects"]:
            m = re.match(r'<<"REJECT", (\d+), (\d+), "([^"]*)", "([^"]*)">>$', ln)
            iid, line, rule, api = int(m.group(1)), int(m.group(2)), m.group(3), m.group(4)
            if rule.startswith("growth."):
                counts["growth-mismatch"] = counts.get("growth-mismatch", 0) + 1
                if counts["growth-mismatch"] <= 5:
                    log("GROWTH-SPEC-MISMATCH module=Trace_Decode rule=%s item=%d" % (rule, iid))
                continue
            it = by_id.get(iid, {})
            e = None
            with open(tp) as f:
                for i, l_ in enumerate(f):
                    if i == line - 1:
                        e = json.loads(l_)
                        break
            slim = {k: e[k] for k in e if k != "data"} if e else {}
            msg = slim.get("msg", "")
            loc = re.search(r"@(\S+)$", msg)
            sig = "%s rule=%s api=%s %s" % (pid, rule, api if rule.startswith("C03") else "-",
                                           ("panic@" + loc.group(1)) if loc and slim.get("ret") == "panic" else "")
            v.violation(sig.strip(), "rule %s fails for item %d (%s) via %s: %s" % (rule, iid, it.get("class", "valid"), api, json.dumps(slim)[:500]),
                        {"event": slim, "plan": it.get("plan"), "bytes": it.get("bytes") if len(it.get("bytes", [])) < 6000 else None})
        with open(tp) as f:
            for l_ in f:
                if '"ev":"dec"' in l_:
                    e = json.loads(l_)
                    counts[e["ret"]] = counts.get(e["ret"], 0) + 1


def run_c03(pid):
    t0 = time.time()
    t = tier()
    wd = workdir(pid)
    v = Verdict(pid)
    build_harness("release")
    build_harness("checked")
    rnd = random.Random(seed() * 7 + 3)
    n = 700 if t == "quick" else 8000
    plan_list = [P.stream_plan(rnd, i + 1, small=(t == "quick" or i % 10 != 0)) for i in range(n)]
    plan_list += P.directed_valid(n + 100)
    # the template of the long variable-blocksize stream (sample numbers beyond 2^31, the 36-bit range): ONE model-made frame of 65535
    # constant samples, which the driver repeats 65540 times (4 295 163 900 samples: beyond 2^31 and beyond 2^32) with the sample numbers recoded (harness decodeh::long_variable)
    long_id = n + 90
    plan_list.append({"id": long_id, "channels": 1, "bps": 8, "rate": 44100, "ratecode": "table", "bpscode": "hdr", "variable": True, "total_known": True,
                      "md5": "zero", "subset": True, "long_template": True,
                      "frames": [{"bs": 65535, "chassign": "indep", "subs": [{"type": "constant", "wasted": 0}], "bscode": "16", "overlong": 0}], "pcm": [[-77] * 65535]})
    gen = generate(wd, plan_list, "valid")
    by_plan = {p["id"]: p for p in plan_list}
    items = []
    discarded = 0
    for g in gen:
        if not g["ok"]:
            discarded += 1
            continue
        if g["selfErrs"] or not g["selfSame"]:
            raise ToolError("FlacGen / FlacFormat disagree on plan %s: errs=%s same=%s" % (g["id"], g["selfErrs"], g["selfSame"]))
        p = by_plan[g["id"]]
        lay, off, s0 = [], g["metaLen"], 0
        for f, ln in zip(p["frames"], g["frameLens"]):
            lay.append([off, s0, f["bs"]])
            off += ln
            s0 += f["bs"]
        if p.get("long_template"):
            items.append({"id": g["id"], "bytes": g["bytes"], "bps": p["bps"], "metaLen": g["metaLen"], "frameLens": g["frameLens"], "valid": True,
                          "md5mode": "zero", "subset": True, "class": "long-variable", "repeat_frame": 65540, "plan": {k: p[k] for k in p if k != "pcm"}})
            continue
        items.append({"id": g["id"], "bytes": g["bytes"], "pcm": g["pcm"], "bps": p["bps"], "metaLen": g["metaLen"], "frameLens": g["frameLens"],
                      "layout": lay, "valid": True, "md5mode": p["md5"], "subset": p["subset"], "class": "valid",
                      "plan": {k: p[k] for k in p if k != "pcm"}})
    items.sort(key=lambda x: x["id"])
    # syntactic alternatives actually covered (non-vacuity)
    cov = {}
    for it in items:
        p = it["plan"]
        for key in ("ratecode", "bpscode", "variable", "md5", "channels", "bps"):
            cov.setdefault(key, {}).setdefault(str(p[key]), 0)
            cov[key][str(p[key])] += 1
        for fr in p["frames"]:
            cov.setdefault("chassign", {}).setdefault(fr["chassign"], 0)
            cov["chassign"][fr["chassign"]] += 1
            for ci, s in enumerate(fr["subs"]):
                cov.setdefault("type", {}).setdefault(s["type"], 0)
                cov["type"][s["type"]] += 1
                if p["bps"] == 32 and fr["chassign"] != "indep" and ci == (0 if fr["chassign"] == "sr" else 1):
                    # the 33-bit side channel: which codings of it were generated (and decoded)
                    kk = s["type"] + ("+wasted" if s.get("wasted", 0) > 0 else "")
                    cov.setdefault("side33", {}).setdefault(kk, 0)
                    cov["side33"][kk] += 1
                if s["type"] == "lpc":
                    cov.setdefault("lpc_order", {}).setdefault(str(s["order"]), 0)
                    cov["lpc_order"][str(s["order"])] += 1
                    cov.setdefault("precision", {}).setdefault(str(s["precision"]), 0)
                    cov["precision"][str(s["precision"])] += 1
                if "params" in s:
                    cov.setdefault("method", {}).setdefault(str(s["method"]), 0)
                    cov["method"][str(s["method"])] += 1
                    for pr in s["params"]:
                        kk = pr[0] + ("0" if pr[0] == "esc" and pr[1] == 0 else "")
                        cov.setdefault("partition", {}).setdefault(kk, 0)
                        cov["partition"][kk] += 1
                if s.get("wasted", 0) > 0:
                    cov.setdefault("wasted", {}).setdefault("yes" + ("-side" if fr["chassign"] != "indep" else ""), 0)
                    cov["wasted"]["yes" + ("-side" if fr["chassign"] != "indep" else "")] += 1
    log("[%s] FlacGen: %d valid streams (%d plans discarded as not encodable with the chosen parameters); every one re-parsed by FlacFormat"
        % (pid, len(items), discarded))
    by_id = {it["id"]: it for it in items}
    counts = {}
    total_calls = 0
    for profile in ("release", "checked"):
        slim_items = [{k: it[k] for k in it if k != "plan"} for it in items]
        if profile == "checked":
            # the long stream costs three times as much with overflow checks: half the length there (2.1 G samples, still beyond 2^31)
            slim_items = [dict(it, repeat_frame=32771) if "repeat_frame" in it else it for it in slim_items]
        traces, timeouts = decode_items(wd, slim_items, "valid", profile, APIS)
        for h in timeouts:
            v.violation("%s %s profile=%s" % (pid, h.kind, profile), "decoding item %d %s" % (h, h.what), {"plan": by_id[h].get("plan")})
        judge(pid, traces, wd, v, by_id, counts)
    total_calls = sum(counts.values())
    rc = v.finish()
    write_evidence(pid, "model_checking", {
        "states": len(items), "transitions": total_calls, "traces_validated_against_impl": len(items) * 2,
        "evaluations": total_calls, "distinct_nontrivial": len(items),
        "samples": [it["plan"] for it in items[:2]], "exhaustive": False,
        "rule": "seeded stream plans choose every syntactic alternative independently (channels 1-8, depths 4-32 incl. STREAMINFO-referenced "
                "codes, every sample-rate coding, fixed / variable blocking, every block-size coding, over-long coded numbers, constant / verbatim "
                "/ fixed 0-4 / LPC 1-32 with precision 1-15 and shift 0-15, wasted bits incl. side channels, both Rice parameter widths at any depth, "
                "partition orders, Rice / escaped / zero-width partitions, all four channel assignments, good / wrong / absent MD5); FlacGen (TLA+) "
                "derives residuals from arbitrary target PCM, serialises and FlacFormat re-parses each stream (self-check); the real decoder is run "
                "through 9 entry points x 2 build profiles and judged by Trace_Decode. 'states' = valid streams, 'transitions' = decode calls",
        "alternatives_covered": cov, "plans_discarded": discarded, "decode_call_results": counts,
        "known_findings_hit": {k: n for k, (kk, n) in v.known_hits.items()}},
        time.time() - t0, len(v.violations),
        ["TLC/SANY, CommunityModules", "FlacGen/FlacFormat are my reading of RFC 9639, cross-checked against each other and against libFLAC fixtures (C02 self-test)",
         "33-bit side channels (32-bit stereo decorrelation) are not generated"])
    log("[%s] streams=%d calls=%s violations=%d known=%d wall=%.1fs" % (pid, len(items), counts, len(v.violations), len(v.known_hits), time.time() - t0))
    return rc


def run_c04(pid):
    t0 = time.time()
    t = tier()
    wd = workdir(pid)
    v = Verdict(pid)
    build_harness("release")
    build_harness("checked")
    rnd = random.Random(seed() * 11 + 4)
    nbase = 250 if t == "quick" else 2500
    base = [P.stream_plan(rnd, i + 1, small=True) for i in range(nbase)]
    plan_list = []
    pid_n = 0
    per = 6 if t == "quick" else 10
    for b in base:
        for _ in range(per):
            pid_n += 1
            plan_list.append(P.mutate(rnd, b, pid_n))
    # hand-made extremes: tiny blocks with large partition orders, huge blocks with tiny bodies
    for bs in (1, 2, 3, 15, 16):
        for po in range(0, 16):
            pid_n += 1
            plan_list.append({"id": pid_n, "channels": 1, "bps": 16, "rate": 44100, "selfcheck": False, "class": "tiny-block-po",
                              "frames": [{"bs": bs, "subs": [{"type": "fixed", "order": 0, "method": 0, "po": 0, "params": [["rice", 2]], "ov": {"po": po}}]}],
                              "pcm": [[(i * 7) % 11 - 5 for i in range(bs)]]})
    # side / mid channels unrelated to the other channel, at the extremes of their depth (decorrelation arithmetic)
    for bps in (8, 16, 24, 31):
        lo, hi = -(1 << bps), (1 << bps) - 1          # the side channel is one bit wider
        for assign in ("ls", "sr", "ms"):
            for vals in ([lo], [hi], [lo, hi], [hi, hi, lo, 0, -1, 1]):
                pid_n += 1
                side_first = assign == "sr"
                raw = {"type": "verbatim", "ov": {"samples": vals}}
                plain = {"type": "verbatim"}
                edge = [(-(1 << (bps - 1))), (1 << (bps - 1)) - 1]
                plan_list.append({"id": pid_n, "channels": 2, "bps": bps, "rate": 44100, "selfcheck": False, "class": "raw-side",
                                  "bpscode": "hdr" if bps in (8, 16, 24) else "si",
                                  "frames": [{"bs": 16, "chassign": assign, "subs": [raw, plain] if side_first else [plain, raw]}],
                                  "pcm": [[edge[i % 2] for i in range(16)], [edge[(i + 1) % 2] for i in range(16)]]})
    dm = P.directed_malformed(pid_n)
    plan_list += dm
    pid_n += len(dm)
    dm = P.directed_wide_predictors(pid_n)
    plan_list += dm
    pid_n += len(dm)
    gen = generate(wd, plan_list, "mal")
    by_plan = {p["id"]: p for p in plan_list}
    items = []
    for g in gen:
        p = by_plan[g["id"]]
        if not g["bytes"] or not g["ok"]:
            continue
        items.append({"id": g["id"], "bytes": g["bytes"], "pcm": g["pcm"], "bps": p["bps"], "metaLen": g["metaLen"], "frameLens": g["frameLens"],
                      "valid": False, "class": p.get("class", ""), "plan": {k: p[k] for k in p if k != "pcm"}})
    # metadata in front of the audio: every decoding entry point parses it on open.  Valid and damaged metadata sections
    # (sizes, counts, lengths overwritten) from the MetaFormat model, followed by the frames of a small valid stream
    import metachecks as MC
    _cl, _encs, damaged = MC.damaged_metadata_sections(wd, t, rnd)
    if t == "quick":
        keep = [d for d in damaged if d[0].startswith("valid:")]
        directed = [d for d in damaged if d[0] == "cuesheet-text-field"]
        rest = [d for d in damaged if not d[0].startswith("valid:") and d[0] != "cuesheet-text-field"]
        rnd.shuffle(rest)
        rnd.shuffle(directed)
        damaged = keep[:60] + directed[:120] + rest[:700]
    # seek tables whose points carry extreme byte / sample offsets (a seek adds them to the position of the first frame)
    for cls, b in list(damaged):
        if cls.startswith("valid:seektable") and len(b) >= 4 + 38 + 4 + 18:
            p0 = 4 + 38 + 4
            npts = (len(b) - p0) // 18
            for field, width in ((0, 8), (8, 8)):
                for val in ((1 << 64) - 1, (1 << 64) - 4, 1 << 63, 1 << 32, (1 << 63) - 1):
                    for pt in sorted({0, npts - 1}):
                        bb = list(b)
                        bb[p0 + 18 * pt + field:p0 + 18 * pt + field + width] = list(val.to_bytes(8, "big"))
                        damaged.append(("seektable-offsets", bb))
                        # ... and the same under a STREAMINFO that declares no total (nothing then bounds a seek point's sample number)
                        bu = list(bb)
                        bu[8 + 13] &= 0xF0
                        bu[8 + 14:8 + 18] = [0, 0, 0, 0]
                        damaged.append(("seektable-offsets", bu))
    tail = next((it["bytes"][it["metaLen"]:] for it in items if it["class"] == "tiny-block-po" and it["bytes"]), [])
    mid = 3000000
    for cls, b in damaged:
        mid += 1
        items.append({"id": mid, "bytes": list(b) + list(tail), "bps": 16, "metaLen": len(b), "valid": False, "class": "meta-" + cls.split(":")[0]})
    # checksum-free damage: every single-bit flip and every truncation of two small valid streams
    small = [P.stream_plan(random.Random(5), 900001, small=True), P.stream_plan(random.Random(9), 900002, small=True)]
    for sp in small:
        sp["frames"] = sp["frames"][:1]
        sp["frames"][0]["bs"] = min(sp["frames"][0]["bs"], 16)
    sg = [g for g in generate(wd, [dict(s, pcm=[c[:s["frames"][0]["bs"]] for c in s["pcm"]]) for s in small], "small", k=2) if g["ok"]]
    nid = 1000000
    for g in sg:
        b = g["bytes"]
        for bit in range(8 * 8, len(b) * 8):           # skip the tag / block header
            nid += 1
            bb = list(b)
            bb[bit // 8] ^= 0x80 >> (bit % 8)
            items.append({"id": nid, "bytes": bb, "bps": 16, "metaLen": g["metaLen"], "valid": False, "class": "bitflip"})
        for cut in range(0, len(b)):
            nid += 1
            items.append({"id": nid, "bytes": b[:cut], "bps": 16, "metaLen": g["metaLen"], "valid": False, "class": "truncation"})
    # decodable audio behind a hostile seek table: a SEEKTABLE block spliced into the small valid streams, its points ascending but with
    # sample / byte offsets up to 2^64 - 2, under a STREAMINFO with and without a declared total - a seek that lands on such a point
    # and the reads after it must end in data or an error
    U = 1 << 64
    for g in sg:
        b = g["bytes"]
        if g["metaLen"] != 42:
            continue
        bs_ = 16
        for pts in tuple(x for x in ([(0, 0), (U - 12, 0)], [(0, 0), (U - 2, 0)], [(U - 40, 0)], [(0, 0), (1 << 63, 0)], [(0, 0), (1 << 36, 0), (U - 2, 0)], [(0, 0), (5, U - 2)],
                    [(0, 0), (1 << 32, 1 << 63)], [(3, 0)], [(0, 0), ((1 << 36) - 1, 0)])) + tuple([(0, 0), (U // w - 8, 0)] for w in (1, 2, 3, 4, 6, 8, 16)):
            for known in (True, False):
                body = []
                for so, bo in pts:
                    body += list(so.to_bytes(8, "big")) + list(bo.to_bytes(8, "big")) + [0, bs_]
                bb = list(b[:42])
                bb[4] &= 0x7F
                if not known:
                    bb[8 + 13] &= 0xF0
                    bb[8 + 14:8 + 18] = [0, 0, 0, 0]
                bb += [0x83] + list(len(body).to_bytes(3, "big")) + body + list(b[42:])
                nid += 1
                items.append({"id": nid, "bytes": bb, "bps": 16, "metaLen": 42 + 4 + len(body), "valid": False, "class": "hostile-seekpoints"})
    # long runs of false syncs (a sync code followed by bytes that are no frame header) in front of a real frame: resynchronising must
    # not cost stack or memory per false sync
    for g in sg[:1]:
        b = g["bytes"]
        for pat, n_ in (([0xFF, 0xF8, 0x00], 150000), ([0xFF, 0xF9, 0x00, 0x00], 80000), ([0xFF, 0xF8, 0xFF, 0xF9, 0x01], 60000)):
            nid += 1
            items.append({"id": nid, "bytes": list(b[:g["metaLen"]]) + pat * n_ + list(b[g["metaLen"]:]), "bps": 16, "metaLen": g["metaLen"], "valid": False,
                          "class": "false-sync-run"})
    items.sort(key=lambda x: x["id"])
    by_id = {it["id"]: it for it in items}
    classes = {}
    for it in items:
        for c in it["class"].split("+"):
            classes[c] = classes.get(c, 0) + 1
    log("[%s] %d malformed inputs (%d classes) from FlacGen overrides + %d bit flips / truncations" % (pid, len(items), len(classes), nid - 1000000))
    counts = {}
    for profile in ("release", "checked"):
        slim_items = [{k: it[k] for k in it if k not in ("plan", "pcm")} for it in items]
        traces, timeouts = decode_items(wd, slim_items, "mal", profile, APIS + SEEK_APIS, log_data=False)
        for h in timeouts:
            it = by_id[h]
            v.violation("%s %s class=%s profile=%s" % (pid, h.kind, it["class"], profile), "decoding item %d (%s) %s" % (h, it["class"], h.what),
                        {"plan": it.get("plan"), "bytes": it["bytes"] if len(it["bytes"]) < 6000 else None})
        judge(pid, traces, wd, v, by_id, counts)
    rc = v.finish()
    write_evidence(pid, "model_checking", {
        "states": len(items), "transitions": sum(counts.values()), "traces_validated_against_impl": len(items) * 2,
        "evaluations": sum(counts.values()), "distinct_nontrivial": len(items),
        "samples": [{"class": it["class"], "len": len(it["bytes"])} for it in items[:3]] + [it.get("plan") for it in items[:1]],
        "exhaustive": False,
        "rule": "(a) FlacGen streams with one or two fields pushed to illegal / extreme values after the consistent derivation (partition order 0-15 "
                "incl. against 1-16 sample blocks, reserved subframe types, wasted bits >= depth, precision code 15, negative shift, reserved "
                "coding methods, every header code, sync, reserved bits, padding bits, truncated frames, totals shorter / longer than the frames, "
                "blocks larger than advertised) with checksums recomputed; (b) every single-bit flip and every truncation of two small valid "
                "streams; each input goes through 9 entry points x {release, overflow-checked}; Trace_Decode allows only data / error outcomes and "
                "bounds peak allocation; a watchdog turns hangs into violations. Coverage-guided raw bytes are out of reach (DESIGN 9)",
        "classes": classes, "decode_call_results": counts,
        "known_findings_hit": {k: n for k, (kk, n) in v.known_hits.items()}},
        time.time() - t0, len(v.violations),
        ["TLC/SANY, CommunityModules", "allocation is measured by a counting global allocator in the harness", "unstructured random bytes are not explored"])
    log("[%s] inputs=%d calls=%s violations=%d known=%d wall=%.1fs" % (pid, len(items), counts, len(v.violations), len(v.known_hits), time.time() - t0))
    return rc


def run_c17(pid):
    import corpus
    t0 = time.time()
    t = tier()
    wd = workdir(pid)
    v = Verdict(pid)
    build_harness("release")
    build_harness("checked")
    # PartitionLayout: the structural parser's layout rule against the decoder's (model level)
    rnd = random.Random(seed() * 29 + 17)
    items = []
    # (1) the crate's own output
    jobs = corpus.large_inputs(t, rnd, 60 if t == "quick" else 1200, max_samples=600, big=0)
    jobs += corpus.short_final_blocks(t, rnd)[:: (5 if t == "quick" else 1)]
    for j in jobs:
        j["log_bytes"] = True
    tp = os.path.join(wd, "enc.ndjson")
    run_drive("writer", {"out": tp, "jobs": jobs}, wd, tag="enc", timeout=3000)
    nid = 0
    new = None
    for e in read_ndjson(tp):
        if e["ev"] == "new":
            new = e
        elif e["ev"] == "file" and "bytes" in e and e["fin"]["seen"] and e["enc"]:
            nid += 1
            offs = [x[2][0] * 16777216 + x[2][1] for x in e["enc"]] + [e["fin"]["bytes"][0] * 16777216 + e["fin"]["bytes"][1]]
            items.append({"id": nid, "bytes": e["bytes"], "bps": new["bps"], "metaLen": e["desc"]["frames_start"],
                          "frameLens": [b - a for a, b in zip(offs, offs[1:])], "class": "encoder", "valid": True})
    n_enc = len(items)
    # (2) generator-made valid streams and (3) checksum-valid malformed ones
    nv = 80 if t == "quick" else 2000
    vplans = [P.stream_plan(rnd, 10000 + i, small=True) for i in range(nv)]
    mplans = []
    k = 20000
    for p in vplans:
        for _ in range(2 if t == "quick" else 4):
            k += 1
            mplans.append(P.mutate(rnd, p, k))
    for bs in (1, 2, 3, 7, 16):
        for po in range(0, 8):
            for order in (0, 1):
                if order < bs:
                    k += 1
                    mplans.append({"id": k, "channels": 1, "bps": 16, "rate": 44100, "selfcheck": False, "class": "tiny-block-po",
                                   "frames": [{"bs": bs, "subs": [{"type": "fixed", "order": order, "method": 0, "po": 0, "params": [["rice", 2]], "ov": {"po": po}}]}],
                                   "pcm": [[(i * 7) % 11 - 5 for i in range(bs)]]})
    mplans += P.directed_malformed(k)
    # the highest partition orders (2^15 and 2^14 partitions need blocks of 32768 / 16384 samples and more): one residual per partition
    k += 500
    for bs_, po_, order_ in ((32768, 15, 0), (32768, 14, 1), (65535 // 32768 * 32768, 15, 0), (16384, 14, 0)):
        k += 1
        mplans.append({"id": k, "channels": 1, "bps": 8, "rate": 44100, "ratecode": "table", "bpscode": "hdr", "variable": False, "total_known": True,
                       "md5": "zero", "subset": True, "selfcheck": False,
                       "frames": [{"bs": bs_, "chassign": "indep", "bscode": "auto", "overlong": 0,
                                   "subs": [{"type": "fixed", "wasted": 0, "order": order_, "method": k % 2, "po": po_, "params": [["rice", 0], ["rice", 1], ["esc", 3]]}]}],
                       "pcm": [[(i % 5) - 2 for i in range(bs_)]]})
    # coded frame / sample numbers at the edges of every length class of the UTF-8-like coding (1 .. 6 bytes, up to 2^31 - 1)
    k += 1000
    for num in (0x7F, 0x80, 0x7FF, 0x800, 0xFFFF, 0x10000, 0x1FFFFF, 0x200000, 0x3FFFFFF, 0x4000000, 0x3FFFFFFF, 0x40000000, 0x7FFFFFFE, 0x7FFFFFFF):
        for variable in (False, True):
            k += 1
            q = P.stream_plan(rnd, k, small=True, nframes=1, variable=variable, size_pool=[16, 20])
            q["frames"][0]["number"] = num
            q["frames"][0]["overlong"] = 0
            q["selfcheck"] = False
            q["class"] = "number-edge"
            mplans.append(q)
    byp = {p["id"]: p for p in vplans + mplans}
    for g in generate(wd, vplans + mplans, "c17"):
        p = byp[g["id"]]
        if not g["ok"] or not g["bytes"]:
            continue
        items.append({"id": g["id"], "bytes": g["bytes"], "bps": p["bps"], "metaLen": g["metaLen"], "frameLens": g["frameLens"],
                      "class": p.get("class", "valid"), "valid": "class" not in p})
    items.sort(key=lambda x: x["id"])
    by_id = {it["id"]: it for it in items}
    spec, cfg = os.path.join(SPEC, "Trace_Struct.tla"), os.path.join(SPEC, "Trace_Struct.cfg")
    nframes = accepted = modelok = 0
    for profile in ("release", "checked"):
        traces, timeouts = decode_items(wd, items, "c17", profile, [], do_struct=True, log_data=True)
        for h in timeouts:
            v.violation("%s %s profile=%s" % (pid, h.kind, profile), "structural parsing of item %d %s" % (h, h.what), {"item": int(h)})
        for tp_, tr in parallel(lambda tp_: (tp_, tlc_trace(spec, cfg, tp_, wd, timeout=3000)), traces, n=8):
            for ln in tlc_lines(tr["out"], "STAT"):
                m = re.match(r'<<"STAT", (\d), (\d)>>', ln)
                nframes += 1
                accepted += int(m.group(1))
                modelok += int(m.group(2))
            recs = None
            for ln in tr["rejects"]:
                m = re.match(r'<<"REJECT", (\d+), (\d+), "([^"]*)", (.*)>>$', ln, re.S)
                iid, line, rule = int(m.group(1)), int(m.group(2)), m.group(3)
                recs = recs or read_ndjson(tp_)
                e = recs[line - 1]
                slim = {k_: e[k_] for k_ in e if k_ not in ("subs", "dsamples")}
                loc = re.search(r"@(\S+)$", (e.get("smsg") or e.get("dmsg") or ""))
                cls = by_id.get(iid, {}).get("class", "")
                sig = "%s rule=%s s=%s d=%s %s %s" % (pid, rule, e.get("sret"), e.get("dret"), "encoder-output" if cls == "encoder" else "generated",
                                                   ("panic@" + loc.group(1)) if loc and "panic" in (e.get("sret"), e.get("dret")) else "")
                v.violation(sig.strip(), "rule %s fails for frame %s of item %d (%s): %s" % (rule, e.get("frame"), iid, cls, json.dumps(slim)[:600]),
                            {"event": slim, "class": cls})
    rc = v.finish()
    write_evidence(pid, "model_checking", {
        "states": nframes, "transitions": nframes, "traces_validated_against_impl": nframes,
        "evaluations": nframes, "distinct_nontrivial": nframes // 2,
        "samples": [{"id": it["id"], "class": it["class"], "frames": len(it["frameLens"])} for it in items[:3]], "exhaustive": False,
        "rule": "every frame of (1) the crate's own encoder output over a slice of the C01 corpus, (2) FlacGen valid streams and (3) FlacGen "
                "checksum-valid malformed streams (incl. partition orders 0-7 against 1-16-sample blocks) is parsed by stream::Frame::read, "
                "expanded, re-serialised, and decoded by the streaming decoder on a one-frame file with the same STREAMINFO, in both build "
                "profiles; Trace_Struct (TLC) undoes the decorrelation with the model's operator and compares all three; "
                "'states' = frame comparisons",
        "frames_compared": nframes, "accepted_by_structural_parser": accepted, "valid_per_format_model": modelok, "encoder_files": n_enc,
        "known_findings_hit": {k: n for k, (kk, n) in v.known_hits.items()}},
        time.time() - t0, len(v.violations),
        ["TLC/SANY, CommunityModules", "FlacFormat as in C02/C03", "frames with 33-bit side channels are compared for acceptance only"])
    log("[%s] frames=%d accepted=%d model-valid=%d violations=%d known=%d wall=%.1fs" % (pid, nframes, accepted, modelok, len(v.violations), len(v.known_hits), time.time() - t0))
    return rc
