"""C14: interrupted encodes (Crash / Trace_Crash)."""
import itertools
import json
import os
import random
import time

from vlib import *


def run(pid):
    t0 = time.time()
    t = tier()
    wd = workdir(pid)
    v = Verdict(pid)
    build_harness("release")
    # ---- model: Encoder ; cut ; Decoder, exhaustive over cut points, <= 4 frames, declared / unknown
    states = trans = 0
    mcs = []
    k = 0
    defect_runs = []
    for fl, fb in (([2, 2, 1], [5, 7, 4]), ([2, 2, 2, 2], [4, 4, 9, 5]), ([1], [6]), ([3, 3], [8, 5])):
        # declared: unknown, exact, under-supplied, over-supplied by part of a frame / by whole frames
        for declared in (-1, sum(fl), sum(fl) + 1, sum(fl) - 1, max(1, sum(fl) - fl[-1] - 1)):
            for meta in (6, 11):
                for defects in ((), ("overshoot_written",), ("header_eof_is_eos",)):
                    if defects and meta != 6:
                        continue
                    k += 1
                    name = "MCC%d" % k
                    mp = write_text(os.path.join(wd, name + ".tla"), "---- MODULE %s ----\nEXTENDS Crash\ncFL == %s\ncFB == %s\ncDecl == %d\ncDef == %s\n====\n" % (
                        name, tla_seq(fl), tla_seq(fb), declared, tla_set(defects)))
                    cp = write_text(os.path.join(wd, name + ".cfg"), """CONSTANTS
 MetaLen = %d
 FrameLen <- cFL
 FrameBytes <- cFB
 HeaderBytes = 3
 Declared <- cDecl
 Defects <- cDef
SPECIFICATION Spec
INVARIANT ExactlyTheCompleteFrames NeverMore CleanEndOnlyWhenEntitled OpenFailsInsideMetadata TruncationReported
CHECK_DEADLOCK FALSE
""" % meta)
                    if defects:
                        # the defect only shows when a frame crosses the declared total / the total is unknown
                        shows = (defects[0] == "overshoot_written" and declared != -1 and declared < sum(fl) and any(
                            sum(fl[:i]) < declared < sum(fl[:i + 1]) for i in range(len(fl)))) or \
                                (defects[0] == "header_eof_is_eos" and declared == -1)
                        if shows:
                            defect_runs.append((mp, cp, defects[0]))
                    else:
                        mcs.append((mp, cp))
    for r in parallel(lambda mc: tlc_model_check(mc[0], mc[1], wd, workers=1), mcs, n=8):
        states += r["distinct"]
        trans += r["generated"]
    for mp, cp, d in defect_runs:
        expect_model_violation(mp, cp, wd, what="Crash with defect " + d)
    log("[%s] TLC: %d defect variants of the Crash model refuted (overshoot_written, header_eof_is_eos)" % (pid, len(defect_runs)))
    log("[%s] TLC: Crash model %d configurations, %d states, %d transitions" % (pid, len(mcs), states, trans))

    rnd = random.Random(seed() * 101 + 14)
    jobs = []
    sts = ["none", {"frames": 1}, {"seconds": 1}, None]
    for fe, declared, st in itertools.product(("byte-le", "sample", "channel"), (False, True), sts):
        opts = {"block_size": 16, "padding": -1}
        if st is not None:
            opts["seektable"] = st
        for frames in ((40, 48) if t == "quick" else (16, 17, 31, 33, 40, 48, 64, 100, 130)):
            # depths / rates the frame header has no code of its own for come from STREAMINFO, which an interrupted encode does have
            jobs.append({"fe": fe, "channels": rnd.choice([1, 2]), "bps": rnd.choice([8, 16, 13, 17]), "rate": rnd.choice([44100, 96001, 1, 700001]),
                         "frames": frames, "declared": declared, "every_byte": True, "signal": rnd.choice(["walk", "noise", "sine"]), "seed": rnd.randint(1, 9999), "opts": opts})
    # the caller supplies more (or less) than it declared, in chunks, and dies at the first refused write:
    # no frame that crosses the declared total may have reached the output
    for fe, st in itertools.product(("byte-le", "sample", "channel"), sts):
        opts = {"block_size": 16, "padding": -1}
        if st is not None:
            opts["seektable"] = st
        for decl, frames, chunk in ((37, 64, 16), (40, 48, 5), (33, 48, 48), (47, 64, 7), (60, 40, 16)):
            jobs.append({"fe": fe, "channels": rnd.choice([1, 2]), "bps": rnd.choice([8, 16]), "frames": frames, "declared": True,
                         "declared_frames": decl, "chunk_frames": chunk, "every_byte": True, "signal": rnd.choice(["walk", "noise", "sine"]),
                         "seed": rnd.randint(1, 9999), "opts": opts})
    # declared totals far beyond what is ever written (a recording that was planned to be long): 2^32 and its neighbourhood, 2^36 - 1
    for fe in ("byte-le", "sample", "channel"):
        for decl in (1 << 32, (1 << 32) + 5000, (1 << 32) - 1, 3 * (1 << 32) + 8209, (1 << 32) + 16, (1 << 36) - 1, (1 << 31) + 40):
            ch = rnd.choice([1, 2])
            if fe == "byte-le" and decl * ch * 2 >= (1 << 36) * 8:
                continue
            jobs.append({"fe": fe, "channels": ch, "bps": 16, "frames": 48, "declared": True, "declared_frames": decl, "chunk_frames": 48,
                         "every_byte": False, "signal": "walk", "seed": rnd.randint(1, 9999), "opts": {"block_size": 16, "padding": -1, "seektable": "none"}})
    # larger inputs with default padding / bigger blocks: cuts at every underlying write call
    for i in range(10 if t == "quick" else 600):
        bs = rnd.choice([16, 64, 256, 1152, 4096])
        jobs.append({"fe": rnd.choice(["byte-le", "sample", "channel"]), "channels": rnd.choice([1, 2, 3, 6]), "bps": rnd.choice([8, 16, 24]),
                     "frames": bs * rnd.randint(2, 4) + rnd.randint(0, bs - 1), "declared": rnd.random() < 0.5, "every_byte": False,
                     "signal": rnd.choice(["walk", "noise", "sine", "stereo"]), "seed": rnd.randint(1, 9999),
                     "opts": {"block_size": bs, "seektable": rnd.choice(["none", {"frames": 2}]), "max_lpc": rnd.choice([-1, 8])}})
        if jobs[-1]["declared"] and i % 2 == 0:
            # declared total = two blocks and a bit, supplied in block-sized writes that run past it
            jobs[-1].update({"declared_frames": 2 * bs + rnd.randint(1, bs - 1), "frames": 4 * bs, "chunk_frames": rnd.choice([bs, bs // 2 + 1, 3 * bs])})
    # the largest frames a stream can hold relative to its parameters: incompressible full-scale noise on every channel (all subframes verbatim),
    # every channel count, byte-multiple and odd depths, the longest frame headers (block size and sample rate both spelled out, two-
    # and three-byte frame numbers) - whatever a reader assumes about the size of a frame it has no STREAMINFO figure for must hold here
    for ch in range(1, 9):
        for bps in ((8, 16, 24, 32) if t == "thorough" else (rnd.choice([8, 16]), rnd.choice([24, 32]))):
            for bs, nblocks, rate in ((1000, 3, 44101), (17, 135, 44101), (257, 3, 65534), (16, 2100 if t == "thorough" else 140, 12345)):
                jobs.append({"fe": rnd.choice(["byte-le", "sample", "channel"]), "channels": ch, "bps": bps, "rate": rate,
                             "frames": bs * nblocks + rnd.choice([0, 3]), "declared": rnd.random() < 0.5, "every_byte": False,
                             "signal": "noise", "seed": rnd.randint(1, 9999),
                             "opts": {"block_size": bs, "seektable": rnd.choice(["none", {"frames": 2}]), "max_lpc": rnd.choice([-1, 8]), "padding": -1}})
    parts = [jobs[i::8] for i in range(8)]

    def drive(ip):
        i, part = ip
        tp = os.path.join(wd, "trace_%d.ndjson" % i)
        return tp, run_drive("crash", {"out": tp, "jobs": part}, wd, tag=str(i), timeout=1800 if tier() == "quick" else 7200)

    outs = parallel(drive, [(i, p) for i, p in enumerate(parts) if p], n=8)
    ncuts = sum(o[1]["runs"] for o in outs)
    events = sum(o[1]["events"] for o in outs)
    spec, cfg = os.path.join(SPEC, "Trace_Crash.tla"), os.path.join(SPEC, "Trace_Crash.cfg")
    ends = {}
    distinct = set()
    samples = []
    for tp, tr in parallel(lambda o: (o[0], tlc_trace(spec, cfg, o[0], wd)), outs, n=8):
        recs = read_ndjson(tp)
        run = None
        for e in recs:
            if e["ev"] == "crashrun":
                run = e
            elif e["ev"] == "crashrun-failed":
                raise ToolError("encoding before the crash failed: " + json.dumps(e))
            elif e["ev"] == "cut":
                ends[e["end"]] = ends.get(e["end"], 0) + 1
                distinct.add((os.path.basename(tp), run["run"], e["at"], e["reader"]))
                if len(samples) < 4 and e["delivered"] > 0 and e["end"] == "err":
                    samples.append({"run": {k: run[k] for k in ("fe", "declared", "meta_len", "frames")}, "cut": e})
        for ln in tr["rejects"]:
            m = re.match(r'<<"REJECT", (-?\d+), (\d+), "(.*)">>$', ln)
            line, rule = int(m.group(2)), m.group(3)
            e = recs[line - 1]
            j = line - 1
            while recs[j]["ev"] != "crashrun":
                j -= 1
            runev = recs[j]
            region = "metadata" if e["at"] < runev["meta_len"] else "frames"
            sig = "%s rule=%s reader=%s declared=%s region=%s end=%s" % (pid, rule, e["reader"], runev["declared"] != -1, region, e["end"])
            v.violation(sig, "rule %s fails for cut %s of run %s" % (rule, json.dumps(e), json.dumps(runev)), {"trace": tp, "run": runev, "cut": e})
    rc = v.finish()
    write_evidence(pid, "fault_enumeration", {
        "evaluations": ncuts, "distinct_nontrivial": len(distinct),
        "rule": "crash points = every byte of the output emitted before finalize (small inputs, no padding) or every underlying write-call "
                "boundary (larger inputs); each (run, cut, reader) is a distinct decode of a distinct prefix by the byte / sample / channel "
                "reader; TLC judges every decode against Crash.tla (exactly the complete frames, clean end only when entitled)",
        "samples": samples, "exhaustive": True, "endings": ends, "states": states, "transitions": trans,
        "traces_validated_against_impl": ncuts, "events_validated": events,
        "known_findings_hit": {k: n for k, (kk, n) in v.known_hits.items()}},
        time.time() - t0, len(v.violations),
        ["TLC/SANY, CommunityModules Json", "frame boundaries come from the cfg-guarded EncodeBegin hook and the writer's byte counter",
         "the process death is simulated by mem::forget of the writer (no finalize, no Drop)"])
    log("[%s] runs=%d prefix-decodes=%d endings=%s violations=%d known=%d wall=%.1fs" % (pid, len(jobs), ncuts, ends, len(v.violations), len(v.known_hits), time.time() - t0))
    return rc
