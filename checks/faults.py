"""C13: fault enumeration judged against IoFaults."""
import json
import os
import time

from vlib import *


def scenarios(t):
    sc = []
    i = 0
    for fe in ("byte-le", "sample", "channel"):
        for declared in (False, True):
            for st in (("none", {"frames": 1}) if t == "quick" else ("none", {"frames": 1}, {"seconds": 1}, None)):
                for start in ((0, 7) if t == "thorough" or fe == "sample" else (0,)):
                    for bsz in ((16,) if t == "quick" else (16, 64)):
                        i += 1
                        opts = {"block_size": bsz, "padding": 40 if (i % 3) else -1}
                        if st is not None:
                            opts["seektable"] = st
                        sc.append({"id": "enc%d" % i, "kind": "write", "what": "encode", "fe": fe, "declared": declared, "start": start,
                                   "flush": fe == "byte-le", "opts": opts})
    # the byte front ends with a torn PCM frame at the end (dropped by finalize), after a whole number of blocks or not
    for fe in ("byte-le", "byte-be"):
        for frames in (40, 32, 33):
            for tail in (0, 1, 3):
                for st in ("none", {"frames": 1}):
                    if fe == "byte-le" and frames == 40 and tail == 0:
                        continue
                    i += 1
                    sc.append({"id": "enc%d" % i, "kind": "write", "what": "encode", "fe": fe, "declared": False, "start": 0, "frames": frames, "tail": tail,
                               "flush": bool(i % 2), "opts": {"block_size": 16, "padding": 40 if (i % 3) else -1, "seektable": st}})
    # one large write (several blocks; 65536 and more PCM frames: more than a frame can hold) that fails somewhere, after which the caller
    # still finalizes - explicitly or by dropping the writer: neither may panic
    for fe in ("byte-le", "sample", "channel"):
        for big, bs in ((65536, 4096), (65537, 65535), (70000, 4096), (140000, 65535), (5000, 16)):
            for explicit in (True, False):
                i += 1
                sc.append({"id": "encbig%d" % i, "kind": "write", "what": "encode", "fe": fe, "declared": False, "start": 0, "big": big,
                           "explicit_finalize": explicit, "max_n": 60,
                           "opts": {"block_size": bs, "padding": -1, "seektable": "none" if i % 2 else {"frames": 1}, "max_lpc": -1}})
    # the channel-count arms of the frame encoder: mono, and 3 to 8 independent channels (the scenarios above are stereo)
    for fe in ("sample", "channel"):
        for ch, bps in ((1, 16), (3, 16), (5, 8), (8, 24)):
            i += 1
            sc.append({"id": "encmulti%d" % i, "kind": "write", "what": "encode-multi", "fe": fe, "ch": ch, "bps": bps, "declared": bool(i % 2),
                       "signal": "noise" if i % 3 == 0 else "walk",
                       "opts": {"block_size": 16, "padding": 40 if (i % 3) else -1, "seektable": "none" if i % 2 else {"frames": 1}}})
    sc.append({"id": "stream-multi", "kind": "write", "what": "stream-multi"})
    sc.append({"id": "stream-multi-fast", "kind": "write", "what": "stream-multi", "fast": True})
    sc.append({"id": "stream", "kind": "write", "what": "stream"})
    sc.append({"id": "write_blocks", "kind": "write", "what": "write_blocks"})
    for e in ("equal", "equal-late", "grow", "shrink", "rebuild", "rebuild-sinkfault"):
        sc.append({"id": "update-" + e, "kind": "write", "what": "update", "edit": e})
    for api in ("blocklist", "byte", "sample", "sample-iter", "channel", "seektable", "verify"):
        sc.append({"id": "read-" + api, "kind": "read", "what": "read", "api": api})
    # the frame-at-a-time stream reader over buffered sources of several capacities (refills between the bytes of a sync code)
    for cap in (1, 2, 3, 5, 16, 64):
        sc.append({"id": "read-stream-cap%d" % cap, "kind": "read", "what": "read", "api": "stream", "cap": cap})
    for e in ("grow", "rebuild"):
        sc.append({"id": "update-readfault-" + e, "kind": "read", "what": "update", "edit": e})
    return sc


def run(pid):
    t0 = time.time()
    t = tier()
    wd = workdir(pid)
    v = Verdict(pid)
    build_harness("release")
    # ---- for every total, capacity, chunking and failing call: IoFaultsProofs.tla (the flushed routine reports success only when every
    # byte was delivered), checked by the TLA+ proof system; TLC explores IoFaults for small totals below
    proof = tlaps_proof(wd, "IoFaultsProofs", ["IoFaults"], "Spec => []SuccessMeansDelivered for every Total, Cap, Chunks, MaxFail (explicit flush)")
    log("[%s] TLAPS: IoFaultsProofs.tla, %d obligations proved (unbounded)" % (pid, proof["obligations_proved"]))
    # ---- (B) model: buffered writer that is flushed vs dropped
    states = trans = 0
    for name, defects, expect_fail in (("MCIO", [], False), ("NVIO", ["drop_without_flush"], True)):
        mp = write_text(os.path.join(wd, name + ".tla"), "---- MODULE %s ----\nEXTENDS IoFaults\ncDefects == %s\n====\n" % (name, tla_set(defects)))
        cp = write_text(os.path.join(wd, name + ".cfg"), """CONSTANTS
 Total = %d
 Cap = 4
 Chunks = {1, 2, 3, 4, 5}
 MaxFail = %d
 Defects <- cDefects
SPECIFICATION Spec
INVARIANT SuccessMeansDelivered NothingInvented
CHECK_DEADLOCK FALSE
""" % ((9, 8) if t == "quick" else (12, 12)))
        if expect_fail:
            expect_model_violation(mp, cp, wd, what="IoFaults with drop_without_flush")
        else:
            r = tlc_model_check(mp, cp, wd, workers=4)
            states, trans = r["distinct"], r["generated"]
    log("[%s] TLC: IoFaults buffered-writer model %d states, %d transitions; drop-without-flush model refuted" % (pid, states, trans))

    sc = scenarios(t)
    parts = [sc[i::8] for i in range(8)]

    def drive(ip):
        i, part = ip
        tp = os.path.join(wd, "trace_%d.ndjson" % i)
        return tp, run_drive("faults", {"out": tp, "scenarios": part}, wd, tag=str(i))

    outs = parallel(drive, [(i, p) for i, p in enumerate(parts) if p], n=8)
    runs = sum(o[1]["runs"] for o in outs)
    events = sum(o[1]["events"] for o in outs)
    spec, cfg = os.path.join(SPEC, "Trace_IoFaults.tla"), os.path.join(SPEC, "Trace_IoFaults.cfg")
    per = {}
    distinct = set()
    samples = []
    for tp, tr in parallel(lambda o: (o[0], tlc_trace(spec, cfg, o[0], wd)), outs, n=8):
        recs = read_ndjson(tp)
        for e in recs:
            if e["ev"] == "scenario":
                per[e["id"]] = {"calls": e["calls"], "ok": 0, "err": 0, "panic": 0}
            elif e["ev"] == "fault":
                per[e["id"]][e["ret"]] += 1
                distinct.add((e["id"], e["n"], e["mode"]))
                if len(samples) < 4 and e["ret"] == "err":
                    samples.append({k: e[k] for k in ("id", "n", "mode", "ret", "msg")})
        for ln in tr["rejects"]:
            m = re.match(r'<<"REJECT", (\d+), (\d+), "(.*)">>$', ln)
            line, rule = int(m.group(2)), m.group(3)
            e = recs[line - 1]
            sig = "%s rule=%s scenario=%s mode=%s" % (pid, rule, re.sub(r"\d+$", "", e.get("id", "")), e.get("mode", ""))
            if e.get("ret") == "panic":
                sig += " panic: " + e.get("msg", "")[-80:]
            v.violation(sig, "rule %s fails: %s (reference at its scenario event)" % (rule, json.dumps(e)), {"trace": tp, "event": e})
    rc = v.finish()
    write_evidence(pid, "fault_enumeration", {
        "unbounded_proof": proof, "evaluations": runs, "distinct_nontrivial": len(distinct),
        "rule": "per scenario the fault-free run counts the underlying calls N (writes, flushes, seeks; reads for the read scenarios); then every "
                "n in 1..N x {permanent, transient, short count, Interrupted} is run - each (scenario, n, mode) is distinct and non-trivial "
                "because the fault lands on a call the fault-free run really makes; TLC judges each run against IoFaults' Return rule",
        "samples": samples, "exhaustive": True,
        "scenarios": per, "states": states, "transitions": trans, "traces_validated_against_impl": runs, "events_validated": events,
        "known_findings_hit": {k: n for k, (kk, n) in v.known_hits.items()}},
        time.time() - t0, len(v.violations),
        ["TLC/SANY, CommunityModules Json", "the final implicit flush of the BufWriter<File> created by create(path) constructors cannot be fault-injected here (not claimed)",
         "store equality is compared through MD5 computed by the harness"])
    log("[%s] scenarios=%d fault-runs=%d violations=%d known=%d wall=%.1fs" % (pid, len(sc), runs, len(v.violations), len(v.known_hits), time.time() - t0))
    return rc
