"""Encoder input/option corpus shared by C01, C02, C17, C19 (the C01 quantifier space)."""
import os
import random

from vlib import *

FES = ["byte-le", "byte-be", "sample", "channel"]
RATES = [8000, 16000, 22050, 24000, 32000, 44100, 48000, 88200, 96000, 176400, 192000,   # table codes
         1000, 255000, 12345, 65535, 655350, 123450, 123457, 0, 1, 1048575, 255000, 256000, 257000, 655360, 1000000]            # kHz / Hz / tens-of-Hz / STREAMINFO codes
DEPTHS = [1, 2, 4, 7, 8, 12, 16, 17, 20, 24, 28, 29, 30, 31, 32]
SIGNALS = ["noise", "small", "sine", "walk", "const", "zero", "extremes", "stereo", "wasted", "ramp", "impulse",
           "panfirst", "panlast", "chanmix", "blockmix", "chanmix", "blockmix", "fade", "fade64", "burst", "constlo", "consthi", "anti", "anti", "hitone"]
WINDOWS = ["rect", "hann", "tukey", "tukey1", "tukey0"]


def tlc_sequences(wd, maxlen, lo, hi):
    mp = os.path.join(SPEC, "Gen_Pcm.tla")
    cp = write_text(os.path.join(wd, "Gen_Pcm_%d_%d.cfg" % (maxlen, hi)), """CONSTANTS
 MaxLen = %d
 Lo = %d
 Hi = %d
SPECIFICATION Spec
INVARIANT Emit
CHECK_DEADLOCK FALSE
""" % (maxlen, 0, hi - lo))
    g = tlc(mp, cp, wd, workers=1)
    seqs = gen_payloads(g["out"])
    if not seqs:
        raise ToolError("Gen_Pcm produced nothing")
    # shift back to lo..hi (negative numbers cannot appear in a .cfg)
    return [[x + lo for x in s] for s in seqs]


def small_scope(wd, t, rnd):
    """TLC-enumerated short sequences x a sampled option grid."""
    jobs = []
    seqs = tlc_sequences(wd, 4 if t == "quick" else 5, -2, 2)
    seqs += [s for s in tlc_sequences(wd, 7 if t == "quick" else 9, -1, 1) if len(s) >= 5]
    lpcs = [-1, 1, 2, 4, 8]
    pos = [0, 1, 2, 5, 15]
    if t == "quick":
        rnd.shuffle(seqs)
        seqs = seqs[:700]
    for s in seqs:
        ch = rnd.choice([1, 1, 2])
        if len(s) % ch:
            ch = 1
        bps = rnd.choice([8, 16, 3, 4])
        jobs.append({"fe": rnd.choice(FES), "rate": 44100, "bps": bps, "channels": ch,
                     "opts": {"block_size": 16, "max_lpc": rnd.choice(lpcs), "max_po": rnd.choice(pos), "mid_side": rnd.random() < 0.5,
                              "fast_corr": rnd.random() < 0.3, "padding": -1, "seektable": "none"},
                     "pcm": {"samples": s}, "tag": "small-scope"})
    return jobs


def short_final_blocks(t, rnd):
    """final blocks of 1 .. 2*order+2 samples after one full block, every LPC order class"""
    jobs = []
    for order in (1, 2, 4, 8, 12, 32):
        for tail in range(1, (2 * order + 3) if t == "thorough" or order <= 4 else 6):
            for sig in ("walk", "noise"):
                ch = rnd.choice([1, 2])
                jobs.append({"fe": rnd.choice(FES), "rate": 44100, "bps": rnd.choice([8, 16, 24, 32]), "channels": ch,
                             "opts": {"block_size": 64 if order <= 12 else 80, "max_lpc": order, "max_po": rnd.choice([0, 2, 6, 15]), "padding": -1, "seektable": "none"},
                             "pcm": {"signal": sig, "seed": rnd.randint(1, 99999), "frames": (64 if order <= 12 else 80) + tail}, "tag": "short-final"})
    # blocks of exactly order * 2^p samples (the partition layout's boundary: a partition as long as the predictor order) with a
    # residual magnitude that varies inside the block, which is what makes high partition orders attractive to the encoder
    for order, lpc in ((1, -1), (2, -1), (3, -1), (4, -1), (1, 1), (2, 2), (4, 4), (6, 6), (8, 8)):
        for p in (2, 3, 4):
            n = order << p
            for sig in ("fade", "fade64", "burst"):
                # (several draws each: which predictor order the encoder settles on depends on the material)
                for rep in range(3 if n >= 16 else 0):
                    jobs.append({"fe": rnd.choice(FES), "rate": 44100, "bps": [8, 16, 24][rep], "channels": 1,
                                 "opts": {"block_size": n, "max_lpc": lpc, "max_po": [6, 8, 15][(rep + p) % 3], "padding": -1, "seektable": "none"},
                                 "pcm": {"signal": sig, "seed": rnd.randint(1, 99999), "frames": 3 * n}, "tag": "order-shl-p"})
                jobs.append({"fe": rnd.choice(FES), "rate": 44100, "bps": rnd.choice([8, 16, 24]), "channels": rnd.choice([1, 2]),
                             "opts": {"block_size": 256, "max_lpc": lpc, "max_po": rnd.choice([6, 8, 15]), "padding": -1, "seektable": "none"},
                             "pcm": {"signal": sig, "seed": rnd.randint(1, 99999), "frames": 256 + n}, "tag": "order-shl-p"})
    # whole files of 1..40 samples
    for n in range(1, 41 if t == "thorough" else 21):
        for order in (-1, 2, 4, 8):
            jobs.append({"fe": rnd.choice(FES), "rate": 44100, "bps": rnd.choice([8, 16, 32]), "channels": 1,
                         "opts": {"block_size": 4096, "max_lpc": order, "max_po": rnd.choice([0, 2, 5]), "padding": -1, "seektable": "none"},
                         "pcm": {"signal": rnd.choice(["ramp", "walk", "impulse", "small"]), "seed": rnd.randint(1, 99999), "frames": n}, "tag": "tiny-file"})
    return jobs


def silence_histories(t, rnd):
    """histories of blocks in which a channel slot is digitally silent, active, equal to its neighbour or its negative, block by block
    (signal gapmix:<block size>), under every combination of mid-side and quick / exhaustive correlation and the presets: what the
    encoder keeps per channel slot between frames must not depend on what the slot held before"""
    jobs = []
    for bs in (16, 32, 192):
        for ch in (2, 2, 3, 8):
            for ms, fast in ((True, True), (False, True), (True, False), (False, False)):
                for bps in ((8, 16, 24, 32) if t == "thorough" else (rnd.choice([8, 16]), rnd.choice([24, 32, 12]))):
                    jobs.append({"fe": rnd.choice(FES), "rate": 44100, "bps": bps, "channels": ch,
                                 "opts": {"block_size": bs, "max_lpc": rnd.choice([-1, 4, 8]), "max_po": rnd.choice([0, 3, 6]), "mid_side": ms, "fast_corr": fast,
                                          "padding": -1, "seektable": "none"},
                                 "pcm": {"signal": "gapmix:%d" % bs, "seed": rnd.randint(1, 99999), "frames": bs * (14 if bs < 100 else 8) + rnd.choice([0, 5])},
                                 "tag": "silence-history"})
    return jobs


def rail_alternations(t, rnd):
    """full-scale alternation (a tone at Nyquist: hi, lo, hi, lo ...), whole or in bursts, at EVERY depth 20..32 - the widths at which the
    n-th differences of the FIXED predictors (up to 16 x full scale) stop fitting 32 bits - mono and decorrelated stereo, with wasted
    bits, with and without LPC in the way, short and long blocks"""
    jobs = []
    for bps in range(20, 33):
        for ch, sig in ((1, "extremes"), (2, "extremes"), (2, "anti"), (1, "railburst")):
            for lpc in (-1, 8):
                bs = rnd.choice([16, 20, 64])
                jobs.append({"fe": rnd.choice(FES), "rate": 44100, "bps": bps, "channels": ch,
                             "opts": {"block_size": bs, "max_lpc": lpc, "max_po": rnd.choice([0, 3]), "mid_side": True, "fast_corr": rnd.random() < 0.5,
                                      "padding": -1, "seektable": "none"},
                             "pcm": {"signal": sig, "seed": rnd.randint(1, 99999), "frames": bs * 2 + rnd.choice([5, 7, 8])}, "tag": "rail-alternation"})
    return jobs


def clipped_sines(t, rnd, light=False):
    """a sine louder than full scale, clipped at the rails, at the depths where a linear prediction from samples AT the rail leaves the
    range of the sample type (24..32 bits; 32 above all): the signal enters the rail smoothly, so predictors of order 2 and more
    overshoot by up to the full scale - the residual must still be the exact difference"""
    jobs = []
    for bps in (16, 24, 28, 31, 32, 32, 32):
        for ch in (1, 2):
            for gain in (101, 125, 200):
                for lpc, bs in ((8, 256), (12, 576), (-1, 256), (32, 1152)):
                    if t == "quick" and (len(jobs) % 3) and bps != 32:
                        continue
                    # light: for the check that decodes every frame in TLA+ (C02) - shorter blocks, a third of the grid in the quick tier
                    if light and (bs > 576 or (t == "quick" and (bps, ch, gain, lpc) not in {(32, 1, 125, 8), (32, 2, 200, 12), (32, 1, 101, -1), (32, 2, 125, 8),
                                                                                          (32, 1, 200, 8), (31, 1, 125, 12), (24, 2, 200, 8), (28, 1, 125, 8)})):
                        continue
                    jobs.append({"fe": rnd.choice(FES), "rate": 96000, "bps": bps, "channels": ch,
                                 "opts": {"block_size": bs, "max_lpc": lpc, "mid_side": rnd.random() < 0.5, "fast_corr": rnd.random() < 0.5,
                                          "padding": -1, "seektable": "none", "window": rnd.choice(WINDOWS)},
                                 "pcm": {"signal": "clipsine:%d" % gain, "seed": rnd.randint(1, 99999), "frames": bs * 2 + rnd.choice([0, 100])},
                                 "tag": "clipped-sine", "inline_limit": 0})
    # a quiet smooth signal with isolated excursions from rail to rail: a predictor fitted to the quiet part is off by more than the range
    # of a sample there (the residual must be refused or exact, never formed from a prediction cut to 32 bits)
    for bps in (32, 32, 24):
        for lpc in (2, 8, 32):
            jobs.append({"fe": rnd.choice(FES), "rate": 44100, "bps": bps, "channels": rnd.choice([1, 2]),
                         "opts": {"block_size": 256, "max_lpc": lpc, "padding": -1, "seektable": "none"},
                         "pcm": {"signal": "railglitch", "seed": rnd.randint(1, 99999), "frames": 256 * 2 + 31}, "tag": "rail-glitch", "inline_limit": 0})
    return jobs


def table_block_sizes(t, rnd, limit=70000):
    """block lengths around the frame header's table of common sizes (192, 576 * 2^n, 256 * 2^n): every multiple of 192 and 576 up to
    4608 * 2, the powers of two and their neighbours - once as the configured block size, once as the length of the final short block"""
    sizes = sorted({192 * k for k in range(1, 13)} | {576 * k for k in range(1, 17)} | {(256 << n) + d for n in range(0, 8) for d in (-1, 0, 1)}
                   | {16, 17, 255, 65535, 65534})
    jobs = []
    for bs in sizes:
        if bs > limit:
            continue
        ch = 1 if bs > 3000 else rnd.choice([1, 2])
        base = {"rate": 44100, "bps": rnd.choice([8, 16]) if bs > 3000 else rnd.choice([8, 16, 24]), "channels": ch, "tag": "table-block-size", "inline_limit": 0}
        jobs.append(dict(base, fe=rnd.choice(FES), opts={"block_size": bs, "max_lpc": rnd.choice([-1, 2]), "max_po": rnd.choice([0, 3]), "padding": -1, "seektable": "none"},
                         pcm={"signal": rnd.choice(["walk", "small", "sine"]), "seed": rnd.randint(1, 99999), "frames": bs + rnd.choice([0, 1, 19])}))
        big = min(b for b in (4096, 4608, 16384, 65535) if b >= bs)
        if big != bs:
            jobs.append(dict(base, fe=rnd.choice(FES), opts={"block_size": big, "max_lpc": rnd.choice([-1, 2]), "max_po": rnd.choice([0, 3]), "padding": -1, "seektable": "none"},
                             pcm={"signal": rnd.choice(["walk", "small", "sine"]), "seed": rnd.randint(1, 99999), "frames": big + bs}))
    return jobs


def large_inputs(t, rnd, n, max_samples=2600, big=3):
    jobs = []
    for i in range(n):
        ch = rnd.choice([1, 2, 2, 2, 3, 4, 5, 6, 7, 8])
        bps = rnd.choice(DEPTHS)
        bs = rnd.choice([16, 17, 32, 64, 192, 255, 256, 257])
        frames = max(1, min(max_samples // ch, bs * rnd.randint(1, 3) + rnd.randint(0, bs)))
        sig = rnd.choice(SIGNALS)
        jobs.append({"fe": rnd.choice(FES), "rate": rnd.choice(RATES), "bps": bps, "channels": ch,
                     "opts": {"block_size": bs, "max_lpc": rnd.choice([-1, 1, 4, 8, 12, 16, 32]), "max_po": rnd.choice([0, 1, 3, 5, 6, 8, 15]),
                              "mid_side": rnd.random() < 0.6, "fast_corr": rnd.random() < 0.4, "window": rnd.choice(WINDOWS),
                              "padding": rnd.choice([-1, 20]), "seektable": rnd.choice(["none", {"frames": 2}])},
                     "pcm": {"signal": sig, "seed": rnd.randint(1, 10 ** 6), "frames": frames}, "tag": "grid",
                     **({"total": None} if rnd.random() < 0.5 else {})})
    for i in range(big):
        ch = [1, 2, 2, 8][i % 4]
        bps = [16, 24, 32, 16, 8, 20][i % 6]
        bs = [4096, 4608, 1152, 65535][i % 4]
        frames = bs + rnd.randint(1, 300) if bs < 65535 else 65535 + 17
        if bs == 65535:
            ch = 1
        jobs.append({"fe": rnd.choice(FES), "rate": rnd.choice([44100, 96000]), "bps": bps, "channels": ch,
                     "opts": {"block_size": bs, "max_lpc": rnd.choice([8, 12, 32]), "max_po": rnd.choice([5, 6, 8]), "padding": -1, "seektable": "none"},
                     "pcm": {"signal": rnd.choice(["sine", "walk", "stereo", "noise"]), "seed": rnd.randint(1, 10 ** 6), "frames": frames},
                     "tag": "big-block", "inline_limit": 0})
    for j in jobs:
        j.pop("total", None)
    return jobs


def fix_declared(jobs, rnd):
    """declare the total for about half of the runs (units of the front end)"""
    for j in jobs:
        if rnd.random() < 0.5:
            ch = j["channels"]
            bps = j["bps"]
            frames = len(j["pcm"]["samples"]) // ch if "samples" in j["pcm"] else j["pcm"]["frames"]
            fe = j["fe"]
            upf = ch * ((bps + 7) // 8) if fe.startswith("byte") else (ch if fe == "sample" else 1)
            if frames > 0:
                j["total"] = frames * upf
    # about a third of the runs hand their input over in several write calls cut at arbitrary unit positions (mid-sample for the
    # byte front ends, mid-frame for the sample front end): what is encoded must not depend on it (C08), so C01 / C02 hold there too
    for j in jobs:
        if rnd.random() < 0.35:
            # positions as fractions of the unit stream (the harness turns them into unit counts for whichever front end runs)
            j["write_cuts"] = sorted(round(rnd.random(), 4) for _ in range(rnd.randint(1, 5)))
    return jobs
