"""Binding demonstration (DESIGN 10): for each trace monitor a tiny hand-written trace with one acceptable run and
one run in which a single recorded field is corrupted or an event is missing; TLC must reject exactly the bad one.
Run with `bin/check selftest`. Exit 0 = every monitor discriminates, 2 = a monitor is vacuous or over-strict."""
import json
import os

from vlib import *

CASES = []


def case(name, spec, env, lines, expect):
    CASES.append((name, spec, env, lines, expect))


# ---- Trace_Reader: gap in delivery / stale data after a seek / early eos
case("reader", "Trace_Reader", {}, [
    {"ev": "open", "fe": "sample", "total": 8, "known": True},
    {"ev": "read", "ret": "data", "len": 4, "at": [0]}, {"ev": "read", "ret": "data", "len": 4, "at": [4]}, {"ev": "read", "ret": "eos"}, {"ev": "read", "ret": "eos"},
    {"ev": "open", "fe": "sample", "total": 8, "known": True},
    {"ev": "read", "ret": "data", "len": 4, "at": [0]}, {"ev": "read", "ret": "data", "len": 3, "at": [5]},
    {"ev": "open", "fe": "sample", "total": 8, "known": True},
    {"ev": "seek", "whence": "start", "off": 6, "ret": "ok"}, {"ev": "read", "ret": "data", "len": 2, "at": [4]},
    {"ev": "open", "fe": "sample", "total": 8, "known": True},
    {"ev": "read", "ret": "data", "len": 4, "at": [0]}, {"ev": "read", "ret": "eos"},
    {"ev": "open", "fe": "byte", "total": 8, "known": True},
    {"ev": "seek", "whence": "end", "off": -2, "ret": "ok", "rp": 6}, {"ev": "tell", "p": 6}, {"ev": "seek", "whence": "start", "off": 9, "ret": "err"},
    {"ev": "read", "ret": "data", "len": 1, "at": [7]}, {"ev": "read", "ret": "eos"},
    {"ev": "open", "fe": "byte", "total": 8, "known": True},
    {"ev": "seek", "whence": "end", "off": -2, "ret": "ok", "rp": 3},
], {"run-lines": [6, 9, 12, 21]})

# ---- Trace_Codec
case("codec", "Trace_Codec", {}, [
    {"ev": "new", "run": 1, "ret": "ok"}, {"ev": "finalize", "ret": "ok"},
    {"ev": "encoded", "run": 1, "channels": 1, "bps": 16, "rate": 44100, "samples": 3, "pcm_md5": "aa", "pcm": [1, 2, 3]},
    {"ev": "decoded", "run": 1, "reader": "sample", "ret": "ok", "msg": "", "count": 3, "md5": "aa", "data": [1, 2, 3]},
    {"ev": "decoded", "run": 1, "reader": "channel", "ret": "ok", "msg": "", "count": 3, "md5": "aa", "data": [1, 2, 4]},
    {"ev": "decoded", "run": 1, "reader": "iter", "ret": "err", "msg": "x", "count": 0, "md5": ""},
    {"ev": "params", "run": 1, "channels": 2, "bps": 16, "rate": 44100},
], {"rules": ["C01.lossless", "C01.decodes", "C01.parameters"]})

# ---- Trace_Cue
_exp = {"catalog": False, "leadout": 10, "tracks": [{"number": 1, "offset": 0, "pre": False, "isrc": False, "index": [[1, 0]]}], "ranges": [[0, 10]]}
_lay = {"catalog": "", "leadout": 10, "tracks": [{"number": 1, "offset": 0, "pre": False, "isrc": "", "non_audio": False, "index": [[1, 0]]}], "ranges": [[0, 10]],
        "exact": True, "cdda": True, "track_count": 2}
_bad = json.loads(json.dumps(_lay))
_bad["tracks"][0]["index"][0][1] = 1
case("cue", "Trace_Cue", {}, [
    {"ev": "cue", "id": 1, "variant": 0, "expected": _exp, "isrcs": [""], "catalog": "", "ret": "ok", "layout": _lay, "roundtrip_same": True},
    {"ev": "cue", "id": 2, "variant": 0, "expected": _exp, "isrcs": [""], "catalog": "", "ret": "ok", "layout": _bad, "roundtrip_same": True},
    {"ev": "cue", "id": 3, "variant": 0, "expected": _exp, "isrcs": [""], "catalog": "", "ret": "err", "msg": "NoTracks"},
], {"ids": [2, 3]})

# ---- Trace_IoFaults
case("iofaults", "Trace_IoFaults", {}, [
    {"ev": "scenario", "id": "s", "kind": "write", "what": "encode", "ret": "ok", "msg": "", "calls": 3, "store_md5": "a", "out_md5": "b", "store_len": 1},
    {"ev": "fault", "id": "s", "n": 1, "mode": "permanent", "ret": "err", "msg": "", "calls": 1, "hit": True, "store_md5": "x", "out_md5": "b", "store_len": 0},
    {"ev": "fault", "id": "s", "n": 2, "mode": "permanent", "ret": "ok", "msg": "", "calls": 3, "hit": True, "store_md5": "x", "out_md5": "b", "store_len": 0},
    {"ev": "fault", "id": "s", "n": 3, "mode": "short", "ret": "ok", "msg": "", "calls": 3, "hit": True, "store_md5": "a", "out_md5": "b", "store_len": 1},
    {"ev": "fault", "id": "s", "n": 3, "mode": "transient", "ret": "panic", "msg": "boom", "calls": 3, "hit": True, "store_md5": "a", "out_md5": "b", "store_len": 1},
], {"lines": [3, 5]})

# ---- Trace_Crash
case("crash", "Trace_Crash", {}, [
    {"ev": "crashrun", "run": 0, "meta_len": 10, "declared": -1, "frames": [[16, 20], [16, 45]], "total_bytes": 55},
    {"ev": "cut", "at": 30, "reader": "sample", "end": "err", "delivered": 16, "prefix_ok": True, "msg": ""},
    {"ev": "cut", "at": 30, "reader": "byte", "end": "err", "delivered": 0, "prefix_ok": True, "msg": ""},
    {"ev": "cut", "at": 5, "reader": "byte", "end": "eos", "delivered": 0, "prefix_ok": True, "msg": ""},
    {"ev": "cut", "at": 55, "reader": "byte", "end": "eos", "delivered": 32, "prefix_ok": True, "msg": ""},
], {"lines": [3, 4]})

# ---- Trace_MetaUpdate: in-place update that changed the file length / touched the audio
case("metaupdate", "Trace_MetaUpdate", {}, [
    {"ev": "file", "run": 1, "blocks": [["si", 34], ["pad", 10]], "len": 100},
    {"ev": "update", "edit": {"op": "add_app", "n": 6}, "old": [["si", 34], ["pad", 10]], "len_old": 100, "ret": "inplace", "new": [["si", 34], ["pad", 0], ["app", 6]],
     "len_new": 100, "audio_same": True, "pcm_same": True, "content_same": True, "orig_untouched": False, "orig_after": [], "rebuilt_len": 0},
    {"ev": "update", "edit": {"op": "add_app", "n": 6}, "old": [["si", 34], ["pad", 0], ["app", 6]], "len_old": 100, "ret": "inplace", "new": [["si", 34], ["pad", 0], ["app", 6], ["app", 6]],
     "len_new": 110, "audio_same": True, "pcm_same": True, "content_same": True, "orig_untouched": False, "orig_after": [], "rebuilt_len": 0},
    {"ev": "update", "edit": {"op": "fail", "n": 0}, "old": [["si", 34]], "len_old": 50, "ret": "err", "orig_untouched": False, "orig_after": [], "rebuilt_len": 0},
], {"lines": [3, 4]})

# ---- Trace_ParEncode
case("parencode", "Trace_ParEncode", {}, [
    {"ev": "serial", "job": 1, "ok": True, "len": 10, "md5": "a", "tasks": 2},
    {"ev": "par", "job": 1, "threads": 2, "rep": 0, "ok": True, "len": 10, "md5": "a", "sched": [[2, "frame", 0, 0], [1, "fixed", 7, 1], [1, "lpc", 8, 2], [0, "lpc", 8, 2], [0, "fixed", 7, 1]]},
    {"ev": "par", "job": 1, "threads": 2, "rep": 1, "ok": True, "len": 10, "md5": "b", "sched": []},
    {"ev": "par", "job": 1, "threads": 2, "rep": 2, "ok": True, "len": 10, "md5": "a", "sched": [[1, "fixed", 7, 1], [1, "fixed", 7, 2], [0, "fixed", 7, 1], [0, "fixed", 7, 2]]},
], {"lines": [3, 4]})

# ---- Trace_Size
case("size", "Trace_Size", {}, [
    {"ev": "new", "run": 1, "channels": 1, "bps": 16},
    {"ev": "file", "light": False, "constant": False, "enc": [[[0, 0], 16, [0, 0]], [[0, 16], 16, [0, 40]]], "fin": {"bytes": [0, 100], "samples": [0, 32], "seen": True}},
    {"ev": "new", "run": 2, "channels": 1, "bps": 16},
    {"ev": "file", "light": False, "constant": True, "enc": [[[0, 0], 16, [0, 0]]], "fin": {"bytes": [0, 60], "samples": [0, 16], "seen": True}},
], {"lines": [2, 4]})

# ---- Trace_Sniff (growth): a PNG header reported with the right / a wrong width, a palette count off by one, a refused valid GIF
_png = [137, 80, 78, 71, 13, 10, 26, 10, 0, 0, 0, 13, 73, 72, 68, 82, 0, 0, 1, 0, 0, 0, 0, 32, 8, 3, 0, 0, 0, 1, 2, 3, 4,
        0, 0, 0, 6, 80, 76, 84, 69, 1, 2, 3, 4, 5, 6, 0, 0, 0, 0]
_gif = [71, 73, 70, 56, 57, 97, 32, 3, 88, 2, 0xF7, 0, 0]
case("sniff", "Trace_Sniff", {}, [
    {"ev": "sniff", "id": 1, "class": "png", "bytes": _png, "ret": "ok", "mime": "image/png", "width": [0, 256], "height": [0, 32], "depth": 0, "colors": 2},
    {"ev": "sniff", "id": 2, "class": "png", "bytes": _png, "ret": "ok", "mime": "image/png", "width": [0, 255], "height": [0, 32], "depth": 0, "colors": 2},
    {"ev": "sniff", "id": 3, "class": "png", "bytes": _png, "ret": "ok", "mime": "image/png", "width": [0, 256], "height": [0, 32], "depth": 24, "colors": 3},
    {"ev": "sniff", "id": 4, "class": "gif", "bytes": _gif, "ret": "ok", "mime": "image/gif", "width": [0, 800], "height": [0, 600], "depth": 0, "colors": 256},
    {"ev": "sniff", "id": 5, "class": "gif", "bytes": _gif, "ret": "err", "mime": "", "width": [0, 0], "height": [0, 0], "depth": 0, "colors": 0},
    {"ev": "sniff", "id": 6, "class": "other", "bytes": [1, 2, 3], "ret": "ok", "mime": "image/png", "width": [0, 1], "height": [0, 1], "depth": 8, "colors": 0},
], {"ids": [2, 3, 5, 6]})


# ---- Trace_StreamSync: a clean two-frame concatenation read under a source that answers one refill with Interrupted (both frames must
# come back) or with a transient error (the loss must be reported); out-of-order and fabricated frames
def _arr(i, returned, io=False, at=3, rep=0, garbage=None):
    return {"ev": "arr", "id": i, "n": 2, "garbage": garbage or [[], [], []], "chunks": [1], "returned": returned, "errors": 1 + rep, "panicked": False,
            "last_error": "eof looking for frame sync", "pred": [], "fault": {"at": at, "io": io}, "ioerrs_reported": rep, "min_frame_bytes": 20}
case("streamsync", "Trace_StreamSync", {}, [
    _arr(1, [1, 2]), _arr(2, [2]), _arr(3, [2], io=True, rep=1), _arr(4, [2, 1], at=-1), _arr(5, [1, 3], at=-1), _arr(6, [1, 2], at=-1),
    _arr(7, [1], at=-1, garbage=[[], ["FF", "S", "x"], []]),
], {"ids": [2, 4, 5]})


def run(pid):
    wd = workdir("selftest")
    bad = 0
    for name, spec, env, lines, expect in CASES:
        tp = os.path.join(wd, name + ".ndjson")
        with open(tp, "w") as f:
            for ln in lines:
                f.write(json.dumps(ln) + "\n")
        tr = tlc_trace(os.path.join(SPEC, spec + ".tla"), os.path.join(SPEC, spec + ".cfg"), tp, wd, env=env)
        rej = tr["rejects"]
        got_lines = sorted({int(re.match(r'<<"REJECT", (-?\d+), (\d+)', r).group(2)) for r in rej})
        got_runs = sorted({int(re.match(r'<<"REJECT", (-?\d+), (\d+)', r).group(1)) for r in rej})
        ok = True
        if "lines" in expect:
            ok = got_lines == expect["lines"]
        if "run-lines" in expect:
            ok = got_runs == expect["run-lines"]
        if "ids" in expect:
            ok = got_runs == expect["ids"]
        if "rules" in expect:
            ok = sorted({re.search(r'"(C\d\d\.[^"]+)"', r).group(1) for r in rej}) == sorted(expect["rules"])
        log("[selftest] %-12s %s  rejected runs=%s lines=%s" % (name, "ok" if ok else "UNEXPECTED", got_runs, got_lines))
        if not ok:
            bad += 1
            for r in rej:
                log("    " + r[:200])
    if bad:
        raise ToolError("%d trace monitor(s) did not discriminate as expected" % bad)
    log("[selftest] all %d monitors reject exactly the corrupted runs" % len(CASES))
    return 0
